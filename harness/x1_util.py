"""Round-7 families shared by C02 / C03 / C05 / C09 (strengthening X1).

* `LINE_BREAKS`, `sep_header_variants`, `write_text_epw` - rural files whose unquoted HEADER text holds a character
  that a csv reader fed by a text file treats as ordinary content but `str.splitlines()` takes for a line end
  (the C01 family `props.c01.SEPARATORS`, reused for C02's row-stamp oracle).
* `EMPTY_KINDS`, `empty_record_file` - rural files with an emptied record (an empty line, a line of commas, a record
  whose cells are all blank) before / inside / after the window (C03).
* `HOST_SETTINGS`, `host_setting` - process-wide settings that belong to the HOST application, not to uwg: the decimal
  context (rounding mode, precision, traps), the `warnings` filters, LC_NUMERIC, float-related interpreter settings
  (C05 byte identity, C09 interval oracle).
"""
import contextlib
import decimal
import locale
import os
import sys
import warnings


# ------------------------------------------------------------------------------------------ C02: line-break characters
def line_breaks():
    """The C01 family (vertical tab, form feed, FS, GS, RS, NEL, U+2028, U+2029)."""
    try:
        from props.c01 import SEPARATORS
        return list(SEPARATORS)
    except Exception:  # noqa: BLE001 - c01 not importable: the same characters, spelled out
        return ['\x0b', '\x0c', '\x1c', '\x1d', '\x1e', '\x85', u'\u2028', u'\u2029']


# (name, [(header row, cell, position in the cell: 'mid' | 'end' | 'start')])
SEP_PLACES = [
    ('LOCATION city', [(0, 1, 'mid')]),
    ('COMMENTS 2', [(6, 1, 'mid')]),
    ('COMMENTS 1 end', [(5, 1, 'end')]),
    ('DESIGN CONDITIONS source', [(1, 2, 'mid')]),
    ('LOCATION + COMMENTS 2 (two characters)', [(0, 1, 'mid'), (6, 1, 'mid')]),
    ('DATA PERIODS name', [(7, 3, 'mid')]),
]


def sep_header(rows, sep, place):
    """Copy of `rows` (8 header rows + records) with `sep` put into the unquoted header cells of `place`.
    Cells that would need quoting (comma / quote inside) are left out: the text must stay an unquoted cell."""
    out = [list(r) for r in rows]
    n = 0
    for (i, j, pos) in dict(SEP_PLACES)[place]:
        while len(out[i]) <= j:
            out[i].append('')
        c = out[i][j]
        if ',' in c or '"' in c:
            c = c.replace(',', ' ').replace('"', '')
        if not c:
            c = 'see note'
        k = {'mid': max(1, len(c) // 2), 'end': len(c), 'start': 0}[pos]
        out[i][j] = c[:k] + sep + c[k:]
        n += 1
    return out, n


def write_text_epw(rows, path):
    """Plain text lines, LF ends, UTF-8; only cells holding a comma / quote are quoted (none of the cells that
    carry a line-break character is: `sep_header` strips commas and quotes from them)."""
    def cell(c):
        if '\n' in c or '\r' in c:
            raise ValueError('cell %r holds a line end' % c)
        return '"' + c.replace('"', '""') + '"' if (',' in c or '"' in c) else c
    with open(path, 'w', newline='', encoding='utf-8') as f:
        for r in rows:
            f.write(','.join(cell(c) for c in r) + '\n')
    return path


# ------------------------------------------------------------------------------------------ C03: emptied records
# how a record outside the window can be "emptied" (the line stays, its content goes)
EMPTY_KINDS = [
    ('empty line', lambda ncell: ''),
    ('line of commas', lambda ncell: ',' * (ncell - 1)),
    ('all cells blank', lambda ncell: ','.join([' '] * ncell)),
    ('one blank', lambda ncell: ' '),
]


def empty_record_file(rows, path, positions, kind, trailing=0):
    """Write `rows` (parsed EPW: 8 header rows + records) as text lines with the records at the row indices
    `positions` replaced by an emptied line of `kind` (a member of EMPTY_KINDS), plus `trailing` empty lines at
    the end of the file. Cells holding a comma / quote are quoted. Returns the text lines written."""
    make = dict(EMPTY_KINDS)[kind]
    pos = set(positions)
    lines = []
    for i, r in enumerate(rows):
        if i in pos:
            lines.append(make(len(r)))
        else:
            lines.append(','.join(('"' + c.replace('"', '""') + '"') if (',' in c or '"' in c) else c for c in r))
    lines += [''] * trailing
    with open(path, 'w', newline='') as f:
        f.write('\n'.join(lines) + '\n')
    return lines


# ------------------------------------------------------------------------------------------ C05 / C09: host settings
# Process-wide Python settings that belong to the HOST application (not to uwg, not a parameter, not the rural file).
# A member: label, `code` run at start-up of a fresh interpreter BEFORE anything of uwg is imported (what a host does
# in its own initialisation), `argv` interpreter flags, `env` environment variables.
_DEC = 'import decimal\n'
HOST_SETTINGS = [
    dict(kind='decimal', label='decimal context of the thread: rounding ROUND_DOWN',
         code=_DEC + 'decimal.getcontext().rounding = decimal.ROUND_DOWN'),
    dict(kind='decimal', label='decimal context of the thread: rounding ROUND_FLOOR',
         code=_DEC + 'decimal.getcontext().rounding = decimal.ROUND_FLOOR'),
    dict(kind='decimal', label='decimal context of the thread: rounding ROUND_CEILING',
         code=_DEC + 'decimal.getcontext().rounding = decimal.ROUND_CEILING'),
    dict(kind='decimal', label='decimal context of the thread: rounding ROUND_UP, prec 6',
         code=_DEC + 'decimal.getcontext().rounding = decimal.ROUND_UP\ndecimal.getcontext().prec = 6'),
    dict(kind='decimal', label='decimal.setcontext(BasicContext) (ROUND_HALF_UP, prec 9, traps set)',
         code=_DEC + 'decimal.setcontext(decimal.BasicContext)'),
    dict(kind='decimal', label='decimal context: prec 3, ROUND_HALF_DOWN, traps Inexact + Rounded',
         code=_DEC + 'c = decimal.getcontext()\nc.prec = 3\nc.rounding = decimal.ROUND_HALF_DOWN\n'
                     'c.traps[decimal.Inexact] = True\nc.traps[decimal.Rounded] = True'),
    dict(kind='decimal', label='decimal.DefaultContext (template of new threads) and the thread context: ROUND_05UP, Emax 9',
         code=_DEC + 'decimal.DefaultContext.rounding = decimal.ROUND_05UP\n'
                     'decimal.setcontext(decimal.Context(rounding=decimal.ROUND_05UP, Emax=9, Emin=-9))'),
    dict(kind='warnings', label='python -W error (every warning is an exception)', argv=['-W', 'error']),
    dict(kind='warnings', label='PYTHONWARNINGS=error', env={'PYTHONWARNINGS': 'error'}),
    dict(kind='warnings', label="warnings.simplefilter('error') at start-up",
         code="import warnings\nwarnings.simplefilter('error')"),
    dict(kind='warnings', label='python -X dev -W always (development mode, every warning shown)',
         argv=['-X', 'dev', '-W', 'always']),
    dict(kind='locale', label="locale.setlocale(LC_NUMERIC, 'de_DE.UTF-8') (decimal comma)",
         code="import locale\nfor _l in ('de_DE.UTF-8', 'de_DE.utf8', 'fr_FR.UTF-8', 'tr_TR.UTF-8'):\n"
              "    try:\n        locale.setlocale(locale.LC_NUMERIC, _l)\n        break\n"
              "    except locale.Error:\n        pass"),
    dict(kind='interpreter', label='sys.set_int_max_str_digits(640), recursion limit 400, gc disabled, switch interval 1e-5',
         code='import sys, gc\nsys.set_int_max_str_digits(640)\nsys.setrecursionlimit(400)\ngc.disable()\n'
              'sys.setswitchinterval(1e-5)'),
    dict(kind='interpreter', label='python -X utf8=0 -B (no UTF-8 mode, no bytecode files)',
         argv=['-X', 'utf8=0', '-B']),
]

HOST_PRELUDE = r'''
import os, sys
exec(os.environ.get("HOSTCODE_", ""))
'''


def host_members(rng, n, must=('decimal', 'warnings')):
    """n members of HOST_SETTINGS: of every kind in `must` one of its first three members (a directed rounding mode /
    warnings as errors) and one of its other members, the rest random."""
    picked = []
    for kind in must:
        pool = [m for m in HOST_SETTINGS if m['kind'] == kind]
        picked.append(rng.choice(pool[:3]))
        picked.append(rng.choice([m for m in pool if m is not picked[-1]]))
    if n >= len(HOST_SETTINGS):
        return list(HOST_SETTINGS)
    rest = [m for m in HOST_SETTINGS if not any(m is q for q in picked)]
    rng.shuffle(rest)
    return (picked + rest)[:max(n, len(picked))]


def run_host_children(members, child_code, base_env, per_member_env=None, parallel=8, timeout=900):
    """Start one fresh interpreter per member ([python] + argv + ['-c', HOST_PRELUDE + child_code]) with the member's
    environment and start-up code; `per_member_env(k, member)` -> extra variables. Returns [(member, returncode,
    stdout, stderr)] in the order of `members`."""
    import subprocess
    procs = []
    for k, mb in enumerate(members):
        env = dict(base_env)
        env.pop('PYTHONWARNINGS', None)
        env.update(mb.get('env') or {})
        env['HOSTCODE_'] = mb.get('code', '')
        if per_member_env:
            env.update(per_member_env(k, mb))
        procs.append(subprocess.Popen([sys.executable] + list(mb.get('argv') or []) + ['-c', HOST_PRELUDE + child_code],
                                      stdout=subprocess.PIPE, stderr=subprocess.PIPE, text=True, env=env))
        if len(procs) % parallel == 0:
            for p in procs[-parallel:]:
                try:
                    p.wait(timeout=timeout)
                except Exception:  # noqa: BLE001
                    p.kill()
    out = []
    for mb, p in zip(members, procs):
        so, se = p.communicate(timeout=timeout)
        out.append((mb, p.returncode, so, se))
    return out


class ModelLike(object):
    """The attributes judge-functions read from a finished model, rebuilt from what a child interpreter printed
    (json: {'ucm': [[canTemp, canHum, canRHum, Tdp], ...], 'staHum': [...], 'timeInitial': int})."""

    class _NS(object):
        pass

    def __init__(self, d):
        self.UCMData = []
        for rec in d['ucm']:
            if rec is None:
                self.UCMData.append(None)
                continue
            u = ModelLike._NS()
            u.canTemp, u.canHum, u.canRHum, u.Tdp = [float.fromhex(x) for x in rec]
            self.UCMData.append(u)
        self.weather = ModelLike._NS()
        self.weather.staHum = [float.fromhex(x) for x in d['staHum']]
        self.simTime = ModelLike._NS()
        self.simTime.timeInitial = d['timeInitial']
