"""Round-7 families (strengthX3): C20 ground records EXACTLY at the bottom of the pavement, C18 vegetation fractions at
the exact boundaries of their validated ranges, C04 fractional hour-dividing time steps on SimParam alone."""
import math
from fractions import Fraction as F

SLICE = 0.05
NGRID = 80                       # 0.05 .. 4.00 m: every pavement thickness on the 5 cm grid


# ------------------------------------------------------------------------------------------------ C20
def slice_sum(n):
    """the depth of a column of n 5 cm slices as the code adds it up (left to right, doubles)"""
    return sum([SLICE] * n)


def grid_text(n):
    """the decimal text of n * 5 cm, as an EPW file / a parameter file writes it"""
    return '%.2f' % (n * 0.05)


def ulp_kind(n):
    """how the double sum of n slices compares to the double of the decimal text of n * 5 cm"""
    s, d = slice_sum(n), float(grid_text(n))
    return 'slices sum ABOVE the decimal depth' if s > d else 'slices sum BELOW the decimal depth' if s < d else \
        'slices sum equals the decimal depth'


ABOVE = [n for n in range(1, NGRID + 1) if slice_sum(n) > float(grid_text(n))]      # 0.15, 0.30, 0.35, 0.60, 0.70 ...
BELOW = [n for n in range(1, NGRID + 1) if slice_sum(n) < float(grid_text(n))]
EQUAL = [n for n in range(1, NGRID + 1) if slice_sum(n) == float(grid_text(n))]

POSITIONS = ('first', 'middle', 'last')


def equal_depth_member(n, position, short=False):
    """A rural file one of whose ground records lies EXACTLY at the bottom of an n-slice pavement.
    position: the record is the first / the middle / the last of three; short: droad 1 cm short of the grid point
    (the same n slices are built). -> dict(droad text, depth texts, index of the record)"""
    dtxt = grid_text(n)
    d = n * 0.05
    if position == 'first':
        depths = [dtxt, '%.2f' % (d + 1.0), '%.2f' % (d + 3.0)]
    elif position == 'middle':
        depths = ['%.3f' % (d / 2.0 if n > 1 else 0.02), dtxt, '%.2f' % (d + 2.5)]
    else:
        depths = ['%.3f' % (d / 3.0 if n > 1 else 0.01), '%.3f' % (d / 1.5 if n > 1 else 0.03), dtxt]
    droad = ('%.2f' % (d - 0.01)) if short else dtxt
    return {'n': n, 'position': position, 'droad': droad, 'depths': depths, 'index': POSITIONS.index(position),
            'kind': ulp_kind(n), 'short': short}


def equal_depth_family(rng, quick):
    """quick: 10 members (6 whose slices sum one ulp above the decimal depth, 4 where the sum is the decimal depth or
    below it; positions and the on-grid / 1 cm short droad rotating); thorough: all 80 thicknesses x 3 positions."""
    if not quick:
        return [equal_depth_member(n, p, short=(n + i) % 4 == 3) for n in range(1, NGRID + 1) for i, p in enumerate(POSITIONS)]
    ns = rng.sample(ABOVE, 6) + rng.sample(BELOW + EQUAL, 4)
    return [equal_depth_member(n, POSITIONS[i % 3], short=(i % 4 == 3)) for i, n in enumerate(ns)]


# ------------------------------------------------------------------------------------------------ C18
# vegetation fractions at the exact boundaries of their validated ranges (0 <= grasscover, treecover, blddensity,
# rurvegcover <= 1; blddensity + grasscover + treecover <= 1), in combination. For the kernels: the road's coverage
# vegcover / (1 - blddensity) = grass + tree share of the road.
SURF_BOUNDARY_ROAD = [('road fully vegetated (grass + trees = 1)', F(1), F(1, 2), F(1, 2)),
                      ('road fully vegetated, trees only (treecover = vegcover, grass = 0)', F(1), F(0), F(1)),
                      ('road fully vegetated, grass only', F(1), F(1), F(0)),
                      ('road partly vegetated, trees only (grass = 0)', None, F(0), None),
                      ('road partly vegetated, grass only (trees = 0)', None, None, F(0)),
                      ('road without vegetation', F(0), F(0), F(0))]
SURF_BOUNDARY_OTHER = [('non-road surface fully vegetated (rurvegcover = 1)', F(1)),
                       ('non-road surface without vegetation (rurvegcover = 0)', F(0))]
ALB_BOUNDARY = [('road fully vegetated', F(1)), ('road fully vegetated', F(1)), ('road without vegetation', F(0))]


def boundary_surf_state(st, road, n, rng):
    """st: a state of props/c18.surf_state; -> (kind, state with the vegetation fractions moved to a boundary)"""
    st = dict(st)
    if road:
        kind, vc, g, t = SURF_BOUNDARY_ROAD[n % len(SURF_BOUNDARY_ROAD)]
        part = F(rng.randint(5, 95), 100)
        if vc is None:
            g, t = (F(0), part) if t is None else (part, F(0))
            vc = g + t
        st.update(vc=vc, g=g, t=t)
    else:
        kind, vc = SURF_BOUNDARY_OTHER[n % len(SURF_BOUNDARY_OTHER)]
        st.update(vc=vc)
    return kind, st


def boundary_triples(triples, quick):
    """the (month, start, end) triples on which the boundary family is run: quick a third of the 1728, thorough all"""
    return [t for t in triples if not quick or sum(t) % 3 == 0]


# live members: (label, attributes in an order in which every intermediate assignment is legal)
def live_boundary_members(quick):
    full_gt = [('grasscover', 0.25), ('treecover', 0.25)]                       # blddensity 0.5 (file): 0.5 / (1 - 0.5) = 1.0
    full_t = [('grasscover', 0.0), ('blddensity', 0.6), ('treecover', 0.4)]      # 0.4 / (1 - 0.6) = 1.0, all trees
    full_g = [('treecover', 0.0), ('grasscover', 0.5)]                           # all grass
    trees = [('grasscover', 0.0), ('treecover', 0.2)]
    out = [
        ('road fully vegetated (grasscover 0.25 + treecover 0.25 + blddensity 0.5 = 1), January, season 4..10', full_gt,
         dict(month=1, day=12, nday=1, vegstart=4, vegend=10)),
        ('road fully vegetated (0.25 + 0.25 + 0.5), July, season 4..10', full_gt,
         dict(month=7, day=12, nday=1, vegstart=4, vegend=10)),
        ('road fully vegetated, trees only (treecover 0.4 = vegcover, grasscover 0, blddensity 0.6), November, season 4..10',
         full_t, dict(month=11, day=3, nday=1, vegstart=4, vegend=10)),
        ('road fully vegetated, trees only (0 + 0.4 + 0.6), 1 April, season 4..10', full_t,
         dict(month=4, day=1, nday=1, vegstart=4, vegend=10)),
        ('grasscover 0 with treecover 0.2, July, season 4..10', trees, dict(month=7, day=20, nday=1, vegstart=4, vegend=10)),
        ('road fully vegetated (0.25 + 0.25 + 0.5) and rurvegcover 1, 31 Mar -> 1 Apr, season 4..10',
         full_gt + [('rurvegcover', 1.0)], dict(month=3, day=31, nday=2, vegstart=4, vegend=10)),
        ('rurvegcover 0, road fully vegetated, grass only (grasscover 0.5, treecover 0), 31 Oct -> 1 Nov, season 4..10',
         full_g + [('rurvegcover', 0.0)], dict(month=10, day=31, nday=2, vegstart=4, vegend=10)),
        ('rurvegcover 1, grasscover 0 with treecover 0.2, December, season 11..12', trees + [('rurvegcover', 1.0)],
         dict(month=12, day=5, nday=1, vegstart=11, vegend=12)),
    ]
    if not quick:
        out += [
            ('road fully vegetated, grass only, February, season 3..9', full_g, dict(month=2, day=10, nday=1, vegstart=3, vegend=9)),
            ('road fully vegetated, grass only, June, season 6..6', full_g, dict(month=6, day=10, nday=1, vegstart=6, vegend=6)),
            ('grasscover 0 with treecover 0.2, December, season 4..10', trees, dict(month=12, day=1, nday=1, vegstart=4, vegend=10)),
            ('rurvegcover 0, October, season 10..3 (empty)', [('rurvegcover', 0.0)] + full_gt,
             dict(month=10, day=12, nday=1, vegstart=10, vegend=3)),
            ('no urban vegetation at all (grasscover 0, treecover 0) and rurvegcover 1, July', [('grasscover', 0.0), ('treecover', 0.0),
                                                                                             ('rurvegcover', 1.0)],
             dict(month=7, day=1, nday=1, vegstart=4, vegend=10)),
            ('road fully vegetated (grasscover 0.3 + treecover 0.2 + blddensity 0.5), 30 Sep -> 1 Oct, season 1..9',
             [('grasscover', 0.3), ('treecover', 0.2)], dict(month=9, day=30, nday=2, vegstart=1, vegend=9)),
        ]
    return out


class AlbedoTwin(object):
    """Per sunlit solarcalcs call of a live run: the same call repeated by a freshly constructed SolarCalcs whose
    parameter object states ANOTHER vegetation albedo. Outside the season (calendar month from the start date and
    the number of steps - never the clock) every result of the reflection model must be the same ('the vegetation
    albedo has no effect'); inside, with vegetation on the road, it must differ (the reflection model takes the
    vegetation into account, as the surface-flux model does). Install BEFORE a w3_util.SeasonWatch is constructed."""

    def __init__(self):
        import core
        core.repo_python_path()
        import uwg.solarcalcs as SC
        self.SC = SC
        self.orig = SC.SolarCalcs.solarcalcs
        self.cfg = None
        self.problems, self.counts = [], {}

    @staticmethod
    def snap(sol):
        u = sol.UCM
        return {'road.solRec': u.road.solRec, 'wall.solRec': tuple(b.wall.solRec for b in sol.BEM),
                'roof.solRec': tuple(b.roof.solRec for b in sol.BEM), 'rural.solRec': sol.rural.solRec,
                'SolRecRoad': u.SolRecRoad, 'SolRecWall': u.SolRecWall}

    def begin(self, m):
        self.cfg = dict(vs=m.vegstart, ve=m.vegend, month0=m.month, day0=m.day, dt=m.dtsim, k=0, first=len(self.problems))

    def new_problems(self):
        return self.problems[self.cfg['first']:]

    def __enter__(self):
        import copy
        import w3_util as W
        orig, SC, w = self.orig, self.SC, self

        def twin_wrap(self):
            out = orig(self)
            c = w.cfg
            if c is None:
                return out
            c['k'] += 1
            if self.dir + self.dif > 0:
                tm, td = W.calendar_date(c['month0'], c['day0'], c['k'] * c['dt'])
                ins = c['vs'] <= tm <= c['ve']
                a = w.snap(self)
                heat = (self.UCM.treeSensHeat, self.UCM.treeLatHeat)
                par2 = copy.copy(self.parameter)
                other = 0.6 if self.parameter.vegAlbedo < 0.45 else 0.1
                par2.vegAlbedo = other
                twin = SC.SolarCalcs(self.UCM, self.BEM, self.simTime, self.RSM, self.forc, par2, self.rural)
                orig(twin)
                b = w.snap(twin)
                orig(self)                                  # (the state of the run as the run's own call left it)
                if w.snap(self) != a or (self.UCM.treeSensHeat, self.UCM.treeLatHeat) != heat:
                    raise RuntimeError('x3_util.AlbedoTwin: repeating the run\'s own solarcalcs call did not restore its results')
                vc = self.UCM.road.vegcoverage
                key = '%s/road vegcoverage %s' % ('in-season' if ins else 'off-season',
                                                  '= 1' if vc == 1 else '> 1' if vc > 1 else '= 0' if vc == 0 else 'in (0, 1)')
                w.counts[key] = w.counts.get(key, 0) + 1
                diff = [k_ for k_ in a if a[k_] != b[k_]]
                where = 'step %d of a run started %d/%d (dt %s s): calendar date %d/%d, hour %.2f, configured season %d..%d; ' \
                        'road.vegcoverage %r (grass %r, trees %r), road albedo %r' % (
                            c['k'], c['month0'], c['day0'], c['dt'], tm, td, (c['k'] * c['dt'] % 86400) / 3600., c['vs'], c['ve'],
                            vc, getattr(self.UCM.road, 'grasscoverage', None), getattr(self.UCM.road, 'treecoverage', None),
                            self.UCM.road.albedo)
                if not ins and diff and len(w.problems) < 4:
                    k0 = diff[0]
                    w.problems.append('outside the season the reflection model depends on the vegetation albedo: with albveg %r '
                                      '-> %r %s changes from %r to %r (also: %s); %s' % (
                                          self.parameter.vegAlbedo, other, k0, a[k0], b[k0], ', '.join(diff[1:]) or '-', where))
                if ins and vc > 0 and self.roadSol > 0 and not diff and len(w.problems) < 4:
                    w.problems.append('inside the season the reflection model ignores the vegetation on the road: albveg %r -> %r '
                                      'changes nothing (road.solRec %r); %s' % (self.parameter.vegAlbedo, other, a['road.solRec'], where))
            return out
        SC.SolarCalcs.solarcalcs = twin_wrap
        return self

    def __exit__(self, *a):
        self.SC.SolarCalcs.solarcalcs = self.orig
        self.cfg = None
        return False


def live_boundary_runs(chk, members, n_full=1):
    """the members under AlbedoTwin + w3_util.SeasonWatch; the first n_full with the full physics, the others with
    w3_util.light_physics. -> (twin, watch, done, [(label, attrs, [msgs])], notes)"""
    import core
    import uwgutil as U
    import w3_util as W
    work = chk.work()
    found, notes, done = [], [], 0
    with AlbedoTwin() as tw:
        with W.SeasonWatch() as w:
            for n, (label, attrs, run) in enumerate(members):
                try:
                    m = U.new_model(outdir=work, outname='x3_boundary.epw', dtsim=300, **run)
                    for k, v in attrs:
                        setattr(m, k, v)
                    with core.quiet():
                        m.generate()
                        w.begin(m)
                        tw.begin(m)
                        if n < n_full:
                            m.simulate()
                        else:
                            with W.light_physics(m):
                                m.simulate()
                    done += 1
                except Exception as e:  # noqa: BLE001 - the model's own refusal / fail-stop is not a verdict here
                    if type(e) is not Exception and not isinstance(e, (IndexError, ValueError, AssertionError)):
                        raise
                    notes.append('%s: %s: %s' % (label, type(e).__name__, str(e)[:100]))
                    if w.cfg is None or tw.cfg is None:
                        w.cfg = tw.cfg = None
                        continue
                msgs = tw.new_problems() + w.new_problems()
                if msgs:
                    found.append((label, dict(attrs, **run), msgs))
                w.cfg = tw.cfg = None
    return tw, w, done, found, notes


# ------------------------------------------------------------------------------------------------ C04
# Fractional hour-dividing time steps. SimParam accepts dt iff `3600 % dt == 0` in doubles, i.e. iff 3600 / dt is an
# integer EXACTLY: every accepted fractional step is a dyadic rational (3600 / n with n = 32 k ...: 112.5, 56.25, 37.5,
# 22.5, 12.5, 7.5, 4.5, 2.5, 1.5, 0.5 ...) and every instant k * dt <= 86400 is exact in doubles - the calendar below
# is exact. (UWG.dtsim is an int: these steps reach SimParam only when it is constructed directly.)
FRACTIONAL_FIXED = [0.5, 2.5, 7.5, 22.5, 112.5]
FRACTIONAL_ALL = [3600.0 / n for n in range(1, 7201) if 3600.0 / n != int(3600.0 / n) and 3600 % (3600.0 / n) == 0]
_MD = [31, 28, 31, 30, 31, 30, 31, 31, 30, 31, 30, 31]
_DATE = [(m + 1, d + 1) for m in range(12) for d in range(_MD[m])]          # day of the year (0-based) -> (month, day)


def fractional_members(rng, quick):
    """(dt, month, day, seconds to run): quick the five fixed steps + two drawn from the 40 accepted fractional steps
    >= 0.5 s, each over the first midnight (a month change for every second member) and an hour beyond; thorough: all
    of them, two days."""
    dts = FRACTIONAL_FIXED + rng.sample([d for d in FRACTIONAL_ALL if d not in FRACTIONAL_FIXED], 2) if quick else \
        sorted(FRACTIONAL_ALL)
    ends = [(1, 31), (2, 28), (4, 30), (6, 30), (9, 30), (11, 30), (12, 30)]
    out = []
    for n, dt in enumerate(dts):
        M, D = ends[rng.randrange(len(ends))] if n % 2 == 0 else _DATE[rng.randrange(0, 363)]
        out.append((dt, M, D, 86400 + 3600 if quick else 2 * 86400 + 3600))
    return out


def fractional_run(SimParam, dt, M, D, seconds):
    """the real SimParam(dt, 3600, M, D, days) advanced over `seconds`; every state compared with the calendar
    start + k * dt (non-leap year). -> (steps judged, None or a dict describing the first wrong state)"""
    days = int(math.ceil(seconds / 86400.0))
    try:
        sp = SimParam(dt, 3600, M, D, days)
    except Exception as e:  # noqa: BLE001
        return 0, {'k': 0, 'observed': 'SimParam(%r, 3600, %d, %d, %d) raises %s: %s' % (dt, M, D, days, type(e).__name__, str(e)[:80]),
                   'expected': 'accepted: 3600 / %r = %r steps per hour' % (dt, 3600 / dt)}
    doy = sum(_MD[:M - 1]) + D - 1
    nsteps = int(seconds / dt)
    upd = sp.update_date
    for k in range(1, nsteps + 1):
        try:
            upd()
        except Exception as e:  # noqa: BLE001
            t = k * dt
            return k, {'k': k, 'observed': 'update_date raises %s: %s (secDay %r before the exception handler)' % (
                type(e).__name__, str(e)[:80], sp.secDay),
                'expected': _expected(doy, t)}
        t = k * dt                                   # exact: dt is dyadic, t <= 2 days
        j = doy + int(t // 86400)
        s = t - 86400 * int(t // 86400)
        if j >= 365:
            break
        mo, dd = _DATE[j]
        if sp.secDay != s or sp.hourDay != int(s // 3600) or sp.month != mo or int(sp.day) != dd or sp.julian != j:
            return k, {'k': k, 'observed': {'month': sp.month, 'day': sp.day, 'julian': sp.julian, 'secDay': sp.secDay,
                                            'hourDay': sp.hourDay}, 'expected': _expected(doy, t)}
    return nsteps, None


def _expected(doy, t):
    j = doy + int(t // 86400)
    s = t - 86400 * int(t // 86400)
    mo, dd = _DATE[j % 365]
    return {'month': mo, 'day': dd, 'julian': j, 'secDay': s, 'hourDay': int(s // 3600)}
