"""Round-3 helpers (C19 object graph of the reference library; C06 stock family over all routes).

C19: the property says the shipped binary is *exactly* what the reader produces. Attribute VALUES are compared
by the existing ties; what they cannot see is the OBJECT GRAPH: which archetypes hold one and the same mutable
sub-object (Element, Material, layer list, schedule week, day row). Unpickling reproduces the sharing that was
frozen into the binary, the reader produces the sharing its code creates today - so the graph is part of "what
the reader produces", and it is observable: a step / an edit made through one archetype reaches every archetype
that shares the touched object.

  graph_differences   simultaneous first-visit walk of two libraries (objects named by the path of their first
                      visit = canonical numbering), values and sharing compared at once
  alias_partition     who shares what, by role (elements, materials, layer lists, buildings, weeks, day rows)
  reach_ops / reach_sets   a family of edits and real steps applied to ONE archetype; the set of cells of the
                      16 x 3 x 16 matrix whose content changed
  reader_binary       the file the reader itself writes (its own serialisation code, redirected to a scratch dir)
"""
import contextlib
import io
import os
import pickle

SCHED = ('elec', 'gas', 'light', 'occ', 'cool', 'heat', 'swh')
ROLES = ('wall', 'roof', 'mass')
LAYER_LISTS = ('layer_thickness_lst', 'layerThermalCond', 'layerVolHeat', 'layerTemp', 'material_lst')


def cells():
    for i in range(16):
        for j in range(3):
            for k in range(16):
                yield (i, j, k)


# ------------------------------------------------------------------------------------------ object graph
def _leaf(o):
    if isinstance(o, float):
        return 'f' + o.hex()
    return '%s:%r' % (type(o).__name__, o)


def _is_node(o):
    return isinstance(o, (list, dict, set)) or hasattr(o, '__dict__')


def _children(o, path):
    """ordered (path, child) pairs of a container / instance"""
    if isinstance(o, (list, tuple)):
        return [('%s[%d]' % (path, n), v) for n, v in enumerate(o)]
    if isinstance(o, dict):
        return [('%s[%r]' % (path, k), o[k]) for k in sorted(o, key=repr)]
    if isinstance(o, (set, frozenset)):
        return [('%s{%d}' % (path, n), v) for n, v in enumerate(sorted(o, key=repr))]
    return [('%s.%s' % (path, k), v) for k, v in sorted(vars(o).items())]


def graph_differences(a, b, root='lib', limit=6, na='shipped', nb='reader'):
    """Walk two object graphs side by side (depth first, attributes in sorted order, lists in index order). Every
    mutable object (instance, list, dict) is named by the path at which it is FIRST reached - the canonical
    numbering of the graph. The graphs are equal iff at every position the two sides hold equal leaves, or objects
    of the same class, same shape, and the same first-visit name (i.e. "new here" on both sides, or "the object
    already met at P" on both sides).
    -> (list of differences [{path, kind, <na>, <nb>}], stats {nodes, shared_positions, leaves})"""
    seen_a, seen_b = {}, {}
    keep = []                      # keeps visited objects alive: ids stay unique
    diffs = []
    stats = {'nodes': 0, 'shared_positions': 0, 'leaves': 0}
    stack = [(root, a, b)]
    while stack:
        path, x, y = stack.pop()
        nx, ny = _is_node(x), _is_node(y)
        if not nx and not ny and not isinstance(x, tuple) and not isinstance(y, tuple):
            stats['leaves'] += 1
            if type(x) is not type(y) or _leaf(x) != _leaf(y):
                diffs.append({'path': path, 'kind': 'value', na: _leaf(x), nb: _leaf(y)})
            continue
        if type(x) is not type(y):
            diffs.append({'path': path, 'kind': 'type', na: type(x).__name__, nb: type(y).__name__})
            continue
        if isinstance(x, tuple):   # immutable container: sharing is not observable, content is
            if len(x) != len(y):
                diffs.append({'path': path, 'kind': 'shape', na: len(x), nb: len(y)})
                continue
            for (p, u), (_, v) in reversed(list(zip(_children(x, path), _children(y, path)))):
                stack.append((p, u, v))
            continue
        fa, fb = seen_a.get(id(x)), seen_b.get(id(y))
        if fa is not None or fb is not None:
            stats['shared_positions'] += 1
            if fa != fb:
                diffs.append({'path': path, 'kind': 'sharing',
                              na: 'the object first met at %s' % fa if fa else 'an object of its own (first met here)',
                              nb: 'the object first met at %s' % fb if fb else 'an object of its own (first met here)'})
            if fa is None:
                seen_a[id(x)] = path
                keep.append(x)
            if fb is None:
                seen_b[id(y)] = path
                keep.append(y)
            continue               # content was (or could not be) compared at the first visit
        seen_a[id(x)] = path
        seen_b[id(y)] = path
        keep.append(x)
        keep.append(y)
        stats['nodes'] += 1
        cx, cy = _children(x, path), _children(y, path)
        if [p for p, _ in cx] != [p for p, _ in cy]:
            diffs.append({'path': path, 'kind': 'shape', na: [p[len(path):] for p, _ in cx][:40],
                          nb: [p[len(path):] for p, _ in cy][:40]})
            continue
        for (p, u), (_, v) in reversed(list(zip(cx, cy))):
            stack.append((p, u, v))
        if len(diffs) >= 200:
            break
    return diffs[:max(limit, 0)] if limit else diffs, dict(stats, differences=len(diffs))


def alias_partition(bem, sch):
    """who holds what: {group: {id: [slot, ...]}} with slots named by cell and role.
    groups: building, element (wall / roof / mass of any cell), material (entries of material_lst), layerlist
    (the five per-layer lists of an Element), week (the seven weekly schedules of a SchDef), dayrow (their rows)"""
    g = {n: {} for n in ('building', 'element', 'material', 'layerlist', 'week', 'dayrow')}
    keep = []
    for c in cells():
        b, s = bem[c[0]][c[1]][c[2]], sch[c[0]][c[1]][c[2]]
        g['building'].setdefault(id(b.building), []).append((c, 'building'))
        for r in ROLES:
            el = getattr(b, r)
            g['element'].setdefault(id(el), []).append((c, r))
            for nm in LAYER_LISTS:
                lst = getattr(el, nm, None)
                if isinstance(lst, list):
                    g['layerlist'].setdefault(id(lst), []).append((c, r, nm))
            for n, m in enumerate(el.material_lst):
                g['material'].setdefault(id(m), []).append((c, r, n))
        for nm in SCHED:
            w = getattr(s, nm)
            keep.append(w)
            g['week'].setdefault(id(w), []).append((c, nm))
            for d, row in enumerate(w):
                g['dayrow'].setdefault(id(row), []).append((c, nm, d))
    return g


def partition_summary(g):
    """{group: {'objects': n, 'slots': n, 'held_more_than_once': n, 'largest': n}}"""
    out = {}
    for name, by in g.items():
        sizes = [len(set(v)) for v in by.values()]
        out[name] = {'objects': len(by), 'slots': sum(len(v) for v in by.values()),
                     'held_by_several_slots': sum(1 for s in sizes if s > 1), 'largest_class': max(sizes or [0])}
    return out


def partition_difference(ga, gb, na='shipped', nb='reader'):
    """first slot whose sharing class differs, per group -> [{group, slot, <na>: class, <nb>: class}]"""
    out = []
    for name in ga:
        ca = {}
        for v in ga[name].values():
            fs = tuple(sorted(set(v)))
            for s in fs:
                ca[s] = fs
        cb = {}
        for v in gb[name].values():
            fs = tuple(sorted(set(v)))
            for s in fs:
                cb[s] = fs
        for s in sorted(set(ca) | set(cb)):
            if ca.get(s) != cb.get(s):
                def show(cl):
                    if cl is None:
                        return 'slot absent'
                    return {'shared_by_slots': len(cl), 'cells': len({x[0] for x in cl}),
                            'first': [list(map(str, x)) for x in cl[:4]]}
                out.append({'group': name, 'slot': list(map(str, s)), na: show(ca.get(s)), nb: show(cb.get(s))})
                break
    return out


# ------------------------------------------------------------------------------------------ reach sets
def cell_digests(lib):
    """value-level digest of everything reachable from each cell of one matrix (C pickler: complete and fast)"""
    return {c: pickle.dumps(lib[c[0]][c[1]][c[2]], pickle.HIGHEST_PROTOCOL) for c in cells()}


def op_side(op):
    """0: the operation goes through the BEMDef of the cell, 1: through its SchDef"""
    head = op[1].split(':')[0]
    return 1 if head in ('replace-row', 'inplace-hour', 'replace-week') or op[1].startswith('set:schdef.') else 0


def reach_ops(rng, bem, sch, n_random, n_sched_types=16):
    """A family of operations on ONE archetype, as (cell, op name, argument): in-place edits and attribute
    replacements of every kind of mutable sub-object, the edits `_compute_BEM` itself makes on the selected reference
    objects (glzr / shgc / albroof / vegroof / albwall / flr_h overrides, frac), and real steps (the
    `mass.Conduction` call of urbflux). Cells: one representative of every construction family of the library
    (wall name, mass name, roof name) + random cells; every BEMDef-side op kind on every representative, the schedule
    op kinds once per building type picked (at most `n_sched_types` types)."""
    fam = {}
    for c in cells():
        b = bem[c[0]][c[1]][c[2]]
        fam.setdefault((b.wall.name, b.mass.name, b.roof.name), []).append(c)
    picks = [rng.choice(v) for _, v in sorted(fam.items())]
    allc = list(cells())
    while len(picks) < len(fam) + n_random:
        picks.append(rng.choice(allc))
    kinds = []
    for r in ROLES:
        kinds += [('step:%s.Conduction' % r, r), ('inplace:%s.layerTemp[0]' % r, r),
                  ('replace:%s.layerTemp' % r, r), ('set:%s.albedo' % r, r), ('set:%s.vegcoverage' % r, r),
                  ('inplace:%s.layer_thickness_lst[0]' % r, r), ('set:%s.material_lst[0].thermalcond' % r, r)]
    kinds += [('set:building.glazing_ratio', None), ('set:building.shgc', None), ('set:building.floor_height', None),
              ('set:building.cop', None), ('set:bemdef.frac', None)]
    for nm in SCHED:
        kinds += [('replace-row:%s[0]' % nm, nm), ('replace-row:%s[2]' % nm, nm), ('inplace-hour:%s[1][8]' % nm, nm),
                  ('replace-week:%s' % nm, nm)]
    kinds += [('set:schdef.q_elec', None)]
    ops = []
    types_done = set()
    for n, c in enumerate(picks):
        for kind, arg in kinds:
            # the weekly schedules belong to the building type: schedule operations once per type picked
            if op_side((c, kind, arg)) == 1 and (c[0] in types_done or len(types_done) >= n_sched_types):
                continue
            ops.append((c, kind, arg))
        types_done.add(c[0])
    return ops, {str(k): len(v) for k, v in sorted(fam.items())}


def apply_op(bem, sch, op, serial):
    """apply one operation to cell `c` of a library; the new value depends on `serial` only (same in both libs)"""
    c, kind, arg = op
    b, s = bem[c[0]][c[1]][c[2]], sch[c[0]][c[1]][c[2]]
    v = 0.001 * (serial % 500) + 0.0005            # in (0, 0.5): legal for albedo, fractions, ...
    head = kind.split(':')[0]
    if head == 'step':
        el = getattr(b, arg)
        flux = 5.0 + serial % 40
        el.layerTemp = el.Conduction(300., flux, 1., 0., flux)
    elif kind.startswith('inplace:') and kind.endswith('.layerTemp[0]'):
        getattr(b, arg).layerTemp[0] += 1.0 + v
    elif kind.startswith('replace:') and kind.endswith('.layerTemp'):
        el = getattr(b, arg)
        el.layerTemp = [t + 0.5 + v for t in el.layerTemp]
    elif kind.endswith('.albedo'):
        getattr(b, arg).albedo = 0.4 + v
    elif kind.endswith('.vegcoverage'):
        getattr(b, arg).vegcoverage = 0.3 + v
    elif kind.endswith('.layer_thickness_lst[0]'):
        getattr(b, arg).layer_thickness_lst[0] += 0.01 + v / 10
    elif kind.endswith('.material_lst[0].thermalcond'):
        m = getattr(b, arg).material_lst[0]
        m.thermalcond = m.thermalcond + 0.1 + v
    elif kind == 'set:building.glazing_ratio':
        b.building.glazing_ratio = 0.2 + v
    elif kind == 'set:building.shgc':
        b.building.shgc = 0.2 + v
    elif kind == 'set:building.floor_height':
        b.building.floor_height = 3.0 + v
    elif kind == 'set:building.cop':
        b.building.cop = 2.0 + v
    elif kind == 'set:bemdef.frac':
        b.frac = 0.25 + v
    elif head == 'replace-row':
        d = int(kind[-2])
        getattr(s, arg)[d] = [v] * 24 if arg not in ('cool', 'heat') else [20.0 + v] * 24
    elif head == 'inplace-hour':
        getattr(s, arg)[1][8] = v if arg not in ('cool', 'heat') else 21.0 + v
    elif head == 'replace-week':
        setattr(s, arg, [[v] * 24 for _ in range(3)] if arg not in ('cool', 'heat') else
                [[22.0 + v] * 24 for _ in range(3)])
    elif kind == 'set:schdef.q_elec':
        s.q_elec = 7.0 + v
    else:
        raise ValueError(kind)


def reach_sets(ops, libs):
    """apply the same operation sequence to every library in `libs` ({name: (bem, sch)}); after each operation the
    set of cells whose content changed. -> [(op, {name: sorted cells | 'err ...'})]"""
    dig = {n: [cell_digests(lib[0]), cell_digests(lib[1])] for n, lib in libs.items()}
    out = []
    for serial, op in enumerate(ops):
        row = {}
        side = op_side(op)
        for n, lib in libs.items():
            try:
                apply_op(lib[0], lib[1], op, serial)
            except Exception as e:      # noqa: BLE001
                row[n] = 'err %s: %s' % (type(e).__name__, str(e)[:120])
                continue
            new = cell_digests(lib[side])
            row[n] = sorted(c for c in new if new[c] != dig[n][side][c])
            dig[n][side] = new
        out.append((op, row))
    return out


# ------------------------------------------------------------------------------------------ the reader's own file
def reader_binary(readDOE_mod, outdir):
    """Run the reader WITH its serialisation switched on, the output redirected to `outdir` (the module constant
    DIR_CURR is only used to place refdata/readDOE.pkl; the tables are found through DIR_DOE_PATH, fixed at
    import). -> (path of the file written, (refBEM, Schedule) returned by the same call, how)"""
    os.makedirs(os.path.join(outdir, 'refdata'), exist_ok=True)
    path = os.path.join(outdir, 'refdata', 'readDOE.pkl')
    if hasattr(readDOE_mod, 'DIR_CURR') and hasattr(readDOE_mod, 'DIR_DOE_PATH'):
        old = readDOE_mod.DIR_CURR
        readDOE_mod.DIR_CURR = outdir
        try:
            with contextlib.redirect_stdout(io.StringIO()):
                lib = readDOE_mod.readDOE(serialize_output=True)
        finally:
            readDOE_mod.DIR_CURR = old
        if os.path.exists(path):
            return path, lib, 'readDOE(serialize_output=True), output directory redirected'
    with contextlib.redirect_stdout(io.StringIO()):
        lib = readDOE_mod.readDOE(serialize_output=False)
    with open(path, 'wb') as f:
        pickle.dump(lib[0], f, 1)
        pickle.dump(lib[1], f, 1)
    return path, lib, 'readDOE(serialize_output=False) + pickle.dump(.., 1) twice (the two dumps of the reader)'


def first_byte_difference(a, b):
    n = min(len(a), len(b))
    if a[:n] == b[:n]:
        return n if len(a) != len(b) else None
    lo, hi = 0, n
    while hi - lo > 1:                 # first differing offset by bisection on prefixes
        mid = (lo + hi) // 2
        if a[:mid] == b[:mid]:
            lo = mid
        else:
            hi = mid
    return lo


# ------------------------------------------------------------------------------------------ simulate with a given binary
def sim_with_library(args):
    """(pool worker) 1-day simulation of a stock with the reference library read from `lib_path` (None: the shipped
    file), optionally after a customisation of OTHER archetypes of the freshly loaded library (`edits`: operations
    of `apply_op`). -> ('ok', hourly records) | ('err', text)"""
    repo, lib_path, stock, zone, epw, month, day, edits = args
    import core
    import uwgutil as U
    os.environ['UWG_REPO'] = repo
    core.REPO = repo
    u = U.uwg_mod()
    import tempfile
    orig = u.UWG.__dict__['load_refDOE']
    loader = u.UWG.load_refDOE
    path = lib_path or u.UWG.REFDOE_PATH

    def patched(refDOE_path=path):
        bem, sch = loader(path)
        for serial, op in enumerate(edits):
            apply_op(bem, sch, op, serial)
        return bem, sch
    u.UWG.load_refDOE = staticmethod(patched)
    try:
        with core.quiet():
            m = U.new_model(epw=epw, outdir=(os.environ.get('VERIF_WORK_TMP') or tempfile.gettempdir()), outname='c19g_%d.epw' % os.getpid(),
                            nday=1, dtsim=300, month=month, day=day, bld=stock, zone=zone)
            m.generate()
            m.simulate()
        return ('ok', U.records(m))
    except Exception as e:      # noqa: BLE001
        return ('err', '%s: %s' % (type(e).__name__, str(e)[:200]))
    finally:
        setattr(u.UWG, 'load_refDOE', orig)


def twin_stocks(rng, bem, n):
    """stocks of several archetypes that a library may or may not let share state: eras of one type, types of one
    construction family, mixed families. -> [(label, [(type, era, frac)], zone index)]"""
    from uwg.utilities import REF_BLDTYPE, REF_BUILTERA
    fam = {}
    for i in range(16):
        b = bem[i][0][0]
        fam.setdefault((b.wall.name, b.mass.name), []).append(i)
    out = []
    kinds = ['two eras of one type', 'three eras of one type', 'two types of one construction family',
             'types of different construction families', 'one type, all eras, unequal shares']
    for n_ in range(n):
        kind = kinds[n_ % len(kinds)]
        k = rng.randrange(16)
        i = rng.randrange(16)
        if kind == 'two eras of one type':
            e = rng.sample(range(3), 2)
            st = [(REF_BLDTYPE[i], REF_BUILTERA[e[0]], 0.5), (REF_BLDTYPE[i], REF_BUILTERA[e[1]], 0.5)]
        elif kind == 'three eras of one type':
            st = [(REF_BLDTYPE[i], REF_BUILTERA[e], f) for e, f in zip(range(3), (0.25, 0.25, 0.5))]
        elif kind == 'two types of one construction family':
            big = [v for v in fam.values() if len(v) > 1] or list(fam.values())
            v = rng.choice(big)
            a, b_ = (rng.sample(v, 2) if len(v) > 1 else (v[0], v[0]))
            e = rng.randrange(3)
            st = [(REF_BLDTYPE[a], REF_BUILTERA[e], 0.5), (REF_BLDTYPE[b_], REF_BUILTERA[(e + (a == b_)) % 3], 0.5)]
        elif kind == 'types of different construction families':
            a, b_ = rng.sample(range(16), 2)
            st = [(REF_BLDTYPE[a], REF_BUILTERA[rng.randrange(3)], 0.5),
                  (REF_BLDTYPE[b_], REF_BUILTERA[rng.randrange(3)], 0.5)]
        else:
            st = [(REF_BLDTYPE[i], REF_BUILTERA[e], f) for e, f in zip(range(3), (0.6, 0.3, 0.1))]
        out.append((kind, st, k))
    return out


# ------------------------------------------------------------------------------------------ C06: the stock family
ERAS = ('pre80', 'pst80', 'new')


def int_parts(rng, n, total):
    """n positive integers adding up to `total`"""
    cuts = sorted(rng.sample(range(1, total), n - 1)) if n > 1 else []
    return [b - a for a, b in zip([0] + cuts, cuts + [total])]


def stock_rows(rng, types, n, total=1000, zeros=0, repeats=False):
    """n rows of (type, era, k/1000), the k adding up to `total`; `zeros` of them with fraction 0; distinct (type, era)
    pairs while there are any left (48), repeated pairs beyond that or when `repeats`"""
    pairs = [(t, e) for t in sorted(types) for e in ERAS]
    rng.shuffle(pairs)
    chosen = [pairs[i % len(pairs)] for i in range(n)] if not repeats else [rng.choice(pairs[:max(2, n // 3)])
                                                                             for _ in range(n)]
    ks = int_parts(rng, n - zeros, total) + [0] * zeros
    rng.shuffle(ks)
    return [(t, e, k / 1000 if k != 1000 else 1.0) for (t, e), k in zip(chosen, ks)]


def stock_family(rng, types, quick):
    """Every kind of stock the `bld` setter accepts (and a few it refuses): -> [(label, rows, expectation)] with
    expectation 'accept' / 'reject' where the setter's documented rule (|sum - 1| < 1e-2, each fraction in [0, 1]) is
    clear of rounding, None at the boundary (there the routes only have to agree).
      rows:       1, 2, 3, 5, 8, 15, 16, 17, 18, 24, 30, 32, 33, 47, 48 distinct (type, era) rows; 50 and 64 rows with
                  repeated (type, era) pairs (their fractions add up in _compute_BEM)
      sums:       exactly one; within the tolerance but not one (0.6 + 0.395, 3 x 0.333, 3 x 0.335, a single 0.991,
                  1.0 + 0.009, random thousandths adding up to 0.991 .. 1.009, also over 17+ rows); one ulp off
                  (10 x 0.1, 3 x 1/3, normalised random floats); at and beyond the tolerance (0.99, 1.01, 0.9899,
                  1.0101, 0.98, 1.02, 0.5, 2.0, 0.0, no rows at all)
      fractions:  zero fractions (first, last, half of the rows), 1e-05, sixteen significant digits"""
    ty = sorted(types)
    a, b, c = rng.sample(ty, 3)
    e = lambda: rng.choice(ERAS)      # noqa: E731
    fam = [('one row, fraction 1.0', [(a, e(), 1.0)], 'accept'),
           ('one row, fraction 1 (int)', [(b, e(), 1)], 'accept')]
    sizes = [2, 3, 5, 8, 15, 16, 17, 18, 24, 30, 32, 33, 47, 48]
    if quick:
        sizes = sorted(set(rng.sample(sizes[:5], 2) + [16, 17] + rng.sample(sizes[8:], 3) + [48]))
    for n in sizes:
        fam.append(('%d rows, distinct (type, era), sum 1' % n, stock_rows(rng, types, n), 'accept'))
    for n in ([50] if quick else [50, 64]):
        fam.append(('%d rows, repeated (type, era) pairs, sum 1' % n, stock_rows(rng, types, n, repeats=n > 50), 'accept'))
    e1, e2, e3 = e(), e(), e()
    fam += [('sum 0.995 (0.6 + 0.395)', [(a, e1, 0.6), (b, e2, 0.395)], 'accept'),
            ('sum 0.999 (3 x 0.333)', [(a, e1, 0.333), (b, e2, 0.333), (c, e3, 0.333)], 'accept'),
            ('sum 1.005 (3 x 0.335)', [(a, e1, 0.335), (b, e2, 0.335), (c, e3, 0.335)], 'accept'),
            ('sum 0.991 (one row)', [(c, e1, 0.991)], 'accept'),
            ('sum 1.009 (1.0 + 0.009)', [(a, e1, 1.0), (b, e2, 0.009)], 'accept'),
            ('sum 1.0049 (0.5 + 0.5049)', [(a, e1, 0.5), (c, e2, 0.5049)], 'accept')]
    for _ in range(3 if quick else 12):
        tot = rng.choice([x for x in range(991, 1010) if x != 1000])
        n = rng.choice([2, 3, 4, 6, 17, 20, 31])
        fam.append(('%d rows, sum %.3f' % (n, tot / 1000), stock_rows(rng, types, n, total=tot), 'accept'))
    fam += [('zero fraction last', [(a, e1, 1.0), (b, e2, 0.0)], 'accept'),
            ('zero fractions first', [(a, e1, 0.0), (b, e2, 0), (c, e3, 1.0)], 'accept'),
            ('20 rows, half of them zero', stock_rows(rng, types, 20, zeros=10), 'accept'),
            ('10 x 0.1 (float sum one ulp below 1)', [(t, e1, 0.1) for t in rng.sample(ty, 10)], 'accept'),
            ('0.7 + 0.2 + 0.1 (float sum one ulp below 1)', [(a, e1, 0.7), (b, e2, 0.2), (c, e3, 0.1)], 'accept'),
            ('3 x 1/3', [(a, e1, 1 / 3), (b, e2, 1 / 3), (c, e3, 1 / 3)], 'accept'),
            ('1e-05 + 0.99999', [(a, e1, 1e-05), (b, e2, 0.99999)], 'accept')]
    for _ in range(2 if quick else 8):
        n = rng.choice([3, 4, 5, 7])
        r = [rng.random() for _ in range(n)]
        tot = sum(r)
        fam.append(('%d normalised random floats' % n, [(t, e(), x / tot) for t, x in zip(rng.sample(ty, n), r)], 'accept'))
    fam += [('sum 0.99 (0.5 + 0.49): at the tolerance', [(a, e1, 0.5), (b, e2, 0.49)], None),
            ('sum 1.01 (0.5 + 0.51): at the tolerance', [(a, e1, 0.5), (b, e2, 0.51)], None),
            ('sum 0.9901', [(a, e1, 0.5), (b, e2, 0.4901)], 'accept'),
            ('sum 1.0099', [(a, e1, 0.5), (b, e2, 0.5099)], 'accept'),
            ('sum 0.9899', [(a, e1, 0.5), (b, e2, 0.4899)], 'reject'),
            ('sum 1.0101', [(a, e1, 0.5), (b, e2, 0.5101)], 'reject'),
            ('sum 0.98', [(a, e1, 0.5), (b, e2, 0.48)], 'reject'),
            ('sum 1.02', [(a, e1, 0.5), (b, e2, 0.52)], 'reject'),
            ('sum 0.5 (one row)', [(a, e1, 0.5)], 'reject'),
            ('sum 2.0 (two rows of 1.0)', [(a, e1, 1.0), (b, e2, 1.0)], 'reject'),
            ('sum 0 (one row of 0.0)', [(a, e1, 0.0)], 'reject'),
            ('no rows', [], 'reject'),
            ('17 rows, sum 0.98', stock_rows(rng, types, 17, total=980), 'reject')]
    return fam


BLOCK_LAYOUTS = ('in PARAMETER_LIST order', 'last lines, final newline', 'last lines, no final newline',
                 'last, followed by a comment line', 'last, followed by a blank line and a comment',
                 'first entry of the file', 'rows with trailing comma / note cells')
