"""C16, second part: where the inputs of RSMDef.diffusion_equation come from.

Generators, real-code adapters (exact rationals through fracexec, plain floats for the float-level
oracle and the live run), protocol lines and oracles for
  RSMDef.dissipation_bougeault, RSMDef.length_bougeault, RSMDef.diffusion_coefficient, RSMDef.vdm
and the grid part of RSMDef.__init__.  Used by props/c16.py.
"""
import importlib
import os
import sys
import types
from fractions import Fraction as F

import core
import fracexec
import v4_util as V4
import w4_util as W4
from fracexec import frac_str, frac_list

EPS = F(1, 10 ** 10)
NS = types.SimpleNamespace
if hasattr(sys, 'set_int_max_str_digits'):
    sys.set_int_max_str_digits(0)       # exact profiles after a vdm step have thousands of digits


# ----------------------------------------------------------------------------- small helpers
def rq(rng, lo, hi, den=None):
    den = den or rng.choice([1, 2, 4, 5, 10, 20, 100])
    return F(rng.randint(int(lo * den), int(hi * den)), den)


def pos(rng, lo, hi, den=None):
    v = rq(rng, lo, hi, den)
    return v if v > 0 else F(1)


def rsm_class(pkg=None):
    return importlib.import_module(fracexec.PKG + '.RSMDef').RSMDef


def guarded(f):
    try:
        return f()
    except IndexError:
        return 'err index'
    except ZeroDivisionError:
        return 'err zerodiv'
    except AssertionError:
        return 'err assert'
    except ValueError:
        return 'err value'
    except AttributeError:
        return 'err attr'


def z_meso_path():
    p = os.path.join(core.REPO, 'uwg', 'refdata', 'z_meso.txt')
    return p if os.path.exists(p) else '/repo/uwg/refdata/z_meso.txt'


def real_param(**kw):
    d = dict(r=F(287), cp=F(1004), g=F('9.81'), vk=F('0.4'), dayBLHeight=F(1000),
             nightBLHeight=F(80), refHeight=F(150), tempHeight=F(2), windHeight=F(10))
    d.update(kw)
    return d


def gen_param(rng):
    """Physical constants; r/cp and cp/r are kept non-integral (the exponents of pow / ** in
    vdm are then non-integral for fracexec as they are in reality)."""
    if rng.random() < 0.6:
        return real_param()
    while True:
        r = F(rng.randint(200, 400))
        cp = F(rng.randint(900, 1100))
        if (r / cp).denominator != 1 and (cp / r).denominator != 1:
            break
    return real_param(r=r, cp=cp, g=rq(rng, 9, 10, 100), vk=rq(rng, 0.3, 0.5, 100),
                      dayBLHeight=F(rng.choice([500, 700, 1000, 1500])))


# ----------------------------------------------------------------------------- grids
def gen_meso(rng, n):
    """n+1 interface heights shaped like z_meso.txt: 0, 4, 8.4, ... (stretching, capped)."""
    zm = [F(0)]
    d = pos(rng, 1, 6, 10)
    k = rq(rng, 1, 1.2, 100)
    for _ in range(n):
        zm.append(zm[-1] + d)
        d = min(d * k, F(250))
        d = F(round(d * 1000), 1000)
    return zm


def grid_of(zm):
    """What RSMDef.__init__ builds (used for generator inputs only; the real constructor is tied
    to the model separately)."""
    z = [F(1, 2) * (zm[i] + zm[i + 1]) for i in range(len(zm) - 1)]
    dz = [zm[i + 1] - zm[i] for i in range(len(zm) - 1)]
    return z, dz


def grid_ok(nz, z, dz):
    """The hypotheses `GridOK nz z dz` of Props/C16Coef.lean."""
    if len(z) <= nz or len(dz) < nz:
        return False
    return all(z[nz] - z[i] - dz[i] / 2 >= 0 and z[i] + dz[i] / 2 >= 0 and
               (z[i] + z[i + 1]) / 2 >= 0 for i in range(nz))


PT_KINDS = ['uniform', 'stable', 'stable', 'unstable', 'mixed', 'mixed', 'plateau', 'plateau',
            'tiny', 'step']


def gen_pt(rng, n, kind):
    T = rq(rng, 270, 310, 10)
    if kind == 'uniform':
        return [T] * n
    if kind == 'stable':
        out, s = [T], rng.choice([F(1, 100), F(1, 20), F(1, 5), F(1)])
        for _ in range(n - 1):
            out.append(out[-1] + s * rng.randint(1, 8))
        return out
    if kind == 'unstable':
        out, s = [T], rng.choice([F(1, 100), F(1, 20), F(1, 5)])
        for _ in range(n - 1):
            out.append(out[-1] - s * rng.randint(1, 8))
        return out
    if kind == 'plateau':
        # rises in small steps, each followed by a run of equal values (bbb == 0 there)
        out, s = [T], rng.choice([F(1, 50), F(1, 20), F(1, 10)])
        while len(out) < n:
            out.append(out[-1] + s * rng.randint(1, 3))
            for _ in range(rng.randint(1, 3)):
                out.append(out[-1])
        return out[:n]
    if kind == 'tiny':
        # gradients below the is_near_zero threshold but not zero
        out = [T]
        for _ in range(n - 1):
            out.append(out[-1] + F(rng.randint(-3, 9), 10 ** 12))
        return out
    if kind == 'step':
        k = rng.randint(1, max(1, n - 1))
        return [T] * k + [T + rq(rng, -5, 5, 10)] * (n - k)
    out = [T]
    for _ in range(n - 1):
        out.append(out[-1] + rq(rng, -1, 1.5, 20))
    return out


def up_integrals(g, nz, dz, pt, iz):
    """Running buoyancy integral of the upward scan (used ONLY to steer te into the rarely hit
    windows; not an oracle)."""
    out, zup = [], F(0)
    beta = g / pt[iz]
    for izz in range(iz, nz - 1):
        dzt = (dz[izz + 1] + dz[izz]) / 2
        zup = zup - beta * pt[iz] * dzt + beta * (pt[izz + 1] + pt[izz]) * dzt / 2
        out.append(zup)
    return out


# ----------------------------------------------------------------------------- dissipation
def gen_dissip(rng, kind=None):
    nz = rng.randint(1, 24)
    zm = gen_meso(rng, nz + 1 + rng.choice([0, 0, 2, 10]))
    z, dz = grid_of(zm)
    ptk = rng.choice(PT_KINDS)
    pt = gen_pt(rng, nz, ptk)
    g = F('9.81')
    tek = kind or rng.choice(['floor', 'random', 'random', 'steer-flat', 'steer-flat',
                              'steer-prev', 'zero', 'zerodiv', 'malformed'])
    te = [F(1, 100)] * nz
    if tek == 'random':
        te = [pos(rng, 0.01, 3, 100) for _ in range(nz)]
    elif tek in ('steer-flat', 'steer-prev'):
        te = []
        for iz in range(nz):
            ups = [F(0)] + up_integrals(g, nz, dz, pt, iz)
            cands = [k for k in range(1, len(ups)) if ups[k] > ups[k - 1] and ups[k - 1] >= 0 and
                     (tek == 'steer-prev' or pt[iz + k] == pt[iz + k - 1])]
            if cands:
                k = rng.choice(cands)
                te.append(ups[k - 1] if tek == 'steer-prev' else (ups[k - 1] + ups[k]) / 2)
            else:
                te.append(pos(rng, 0.01, 1, 100))
    elif tek == 'zero':
        te = [F(0)] * nz
    elif tek == 'zerodiv' and nz >= 2:
        # pt[iz] == pt[izz], tiny positive gradient, te inside the (tiny) window:
        # the bbb ~ 0 branch divides by beta*(pt[izz]-pt[iz]) = 0
        pt = [pt[0]] * nz
        pt[1] = pt[0] + F(1, 10 ** 12)
        te = [up_integrals(g, nz, dz, pt, 0)[0] / 2] + [F(1, 100)] * (nz - 1)
    cs = dict(g=g, nz=nz, z=z, dz=dz, te=te, pt=pt, kind=tek, ptk=ptk)
    if tek == 'malformed':
        how = rng.choice(['short-z', 'short-dz', 'short-te', 'short-pt', 'zero-pt', 'g0', 'nz0',
                          'neg-pt', 'z-exact'])
        cs['kind'] = how
        if how == 'short-z':
            cs['z'] = z[:rng.choice([nz, nz, max(0, nz - 1), 0])]
        elif how == 'short-dz':
            cs['dz'] = dz[:rng.randrange(0, nz)]
        elif how == 'short-te':
            cs['te'] = te[:rng.randrange(0, nz)]
        elif how == 'short-pt':
            cs['pt'] = pt[:rng.randrange(0, nz)]
        elif how == 'zero-pt':
            cs['pt'] = list(pt)
            cs['pt'][rng.randrange(nz)] = F(0)
        elif how == 'g0':
            cs['g'] = F(0)
            cs['pt'] = gen_pt(rng, nz, 'stable')
        elif how == 'nz0':
            cs['nz'] = 0
        elif how == 'neg-pt':
            cs['pt'] = [-v for v in pt]
        elif how == 'z-exact':
            cs['z'] = z[:nz + 1]
            cs['dz'] = dz[:nz]
    return cs


def line_dissip(cs):
    return 'dissip g=%s nz=%d z=%s dz=%s te=%s pt=%s' % (
        frac_str(cs['g']), cs['nz'], frac_list(cs['z']), frac_list(cs['dz']), frac_list(cs['te']),
        frac_list(cs['pt']))


def impl_dissip(cs):
    R = rsm_class()
    return guarded(lambda: R.dissipation_bougeault(
        cs['g'], cs['nz'], list(cs['z']), list(cs['dz']), list(cs['te']), list(cs['pt'])))


def fmt_dissip(r):
    return r if isinstance(r, str) else 'ok dlu=%s dld=%s' % (frac_list(r[0]), frac_list(r[1]))


# ----------------------------------------------------------------------------- lengths
def gen_lengths(rng):
    nz = rng.randint(0, 24)
    zm = gen_meso(rng, nz + 1 + rng.choice([0, 0, 3]))
    z, _ = grid_of(zm)
    kind = rng.choice(['valid', 'valid', 'valid', 'long-dld', 'neg', 'short-dld', 'short-dlu',
                       'short-z', 'zero'])
    dld = [pos(rng, 0.5, 400, 10) for _ in range(nz)]
    dlu = [pos(rng, 0.5, 400, 10) for _ in range(nz)]
    if kind == 'long-dld':
        dld += [pos(rng, 1, 9, 10) for _ in range(rng.randint(1, 3))]
        dlu += [pos(rng, 1, 9, 10) for _ in range(rng.randint(0, 2))]
    elif kind == 'neg' and nz:
        i = rng.randrange(nz)
        if rng.random() < 0.5:
            dlu[i] = -dlu[i]
        else:
            dld[i] = -dld[i]
        if rng.random() < 0.3:          # both negative: the product is positive again
            dlu[i], dld[i] = -abs(dlu[i]), -abs(dld[i])
    elif kind == 'short-dld' and nz:
        dld = dld[:rng.randrange(nz)]
    elif kind == 'short-dlu' and nz:
        dlu = dlu[:rng.randrange(nz)]
    elif kind == 'short-z':
        z = z[:rng.choice([nz, max(0, nz - 1), 0])]
    elif kind == 'zero' and nz:
        dlu[rng.randrange(nz)] = F(0)
    return dict(nz=nz, dld=dld, dlu=dlu, z=z, kind=kind)


def line_lengths(cs):
    return 'lengths nz=%d dld=%s dlu=%s z=%s' % (cs['nz'], frac_list(cs['dld']),
                                                 frac_list(cs['dlu']), frac_list(cs['z']))


def impl_lengths(cs):
    R = rsm_class()
    return guarded(lambda: R.length_bougeault(cs['nz'], list(cs['dld']), list(cs['dlu']),
                                              list(cs['z'])))


def fmt_lengths(r):
    return r if isinstance(r, str) else 'ok dld=%s dls=%s dlk=%s' % tuple(frac_list(x) for x in r)


# ----------------------------------------------------------------------------- coefficient
COEF_KINDS = ['unstable', 'unstable', 'stable', 'stable', 'neutral', 'threshold', 'heat0', 'calm',
              'calm-stable', 'tall', 'logzero', 'z0zero', 'short-th', 'short-z', 'nz0', 'nz1',
              'rho0', 'vk0', 'g0', 'daybl0', 'neg-wind']


def gen_coef(rng, kind=None, ptk=None):
    kind = kind or rng.choice(COEF_KINDS + ['unstable', 'stable'] * 12)
    nz = rng.randint(2, 24)
    zm = gen_meso(rng, nz + 1 + rng.choice([0, 0, 2, 30]))
    z, dz = grid_of(zm)
    ptk = ptk or rng.choice(PT_KINDS)
    th = gen_pt(rng, nz, ptk)
    P = gen_param(rng)
    h = pos(rng, 0.1, 8, 10)
    heat = rq(rng, 1, 400, 10)
    uref = pos(rng, 0.5, 12, 10)
    rho = pos(rng, 1.0, 1.3, 100)
    if kind == 'stable':
        heat = -rq(rng, 0.1, 80, 10)
    elif kind == 'neutral':
        heat = rng.choice([F(1, 1000), F(1, 200), -F(1, 1000)])
    elif kind == 'threshold':
        heat = rng.choice([F(1, 100), F(1, 100) + F(1, 10 ** 9), F(1, 100) - F(1, 10 ** 9)])
    elif kind == 'heat0':
        heat = F(0)
    elif kind == 'calm':
        uref = F(0)
    elif kind == 'calm-stable':
        uref, heat = F(0), -rq(rng, 1, 50, 10)
    elif kind == 'tall':
        h = rng.choice([F(20), F(25), F(40)])
    elif kind == 'logzero':
        h = F(50, 3)                        # (10 - h/2) / (h/10) == 1, log == 0
    elif kind == 'z0zero':
        h = F(0)
    elif kind == 'rho0':
        rho = F(0)
    elif kind == 'vk0':
        P['vk'] = F(0)
    elif kind == 'g0':
        P['g'] = F(0)
    elif kind == 'daybl0':
        P['dayBLHeight'] = F(0)
    elif kind == 'neg-wind':
        uref = -uref
    cs = dict(P=P, rho=rho, z=z, dz=dz, z0=h / 10, disp=h / 2, trur=th[0], heat=heat, nz=nz,
              uref=uref, th=th, kind=kind, ptk=ptk)
    if kind == 'short-th':
        cs['th'] = th[:rng.randrange(0, nz)]
    elif kind == 'short-z':
        cs['z'] = z[:rng.choice([nz, nz - 1, 1])]
    elif kind == 'nz0':
        cs['nz'] = 0
    elif kind == 'nz1':
        cs['nz'] = 1
    return cs


def fmt_param(P):
    return 'r=%s cp=%s g=%s vk=%s daybl=%s' % (frac_str(P['r']), frac_str(P['cp']), frac_str(P['g']),
                                              frac_str(P['vk']), frac_str(P['dayBLHeight']))


def line_coef(cs):
    return 'coef %s rho=%s z=%s dz=%s z0=%s disp=%s trur=%s heat=%s nz=%d uref=%s th=%s' % (
        fmt_param(cs['P']), frac_str(cs['rho']), frac_list(cs['z']), frac_list(cs['dz']),
        frac_str(cs['z0']), frac_str(cs['disp']), frac_str(cs['trur']), frac_str(cs['heat']),
        cs['nz'], frac_str(cs['uref']), frac_list(cs['th']))


class TeSpy(object):
    """Records the `te` profile that diffusion_coefficient hands to dissipation_bougeault."""

    def __init__(self, R):
        self.R = R
        self.te = []

    def __enter__(self):
        self.orig = self.R.__dict__['dissipation_bougeault']
        f = self.orig.__func__

        def spy(g, nz, z, dz, te, pt):
            self.te.append(list(te))
            return f(g, nz, z, dz, te, pt)
        self.R.dissipation_bougeault = staticmethod(spy)
        return self

    def __exit__(self, *a):
        self.R.dissipation_bougeault = self.orig
        return False


def impl_coef(cs, R=None, conv=lambda x: x):
    """diffusion_coefficient of the real class R (fractionised by default) on an object made with
    object.__new__; returns (Kt, ustar, te, self.dlu, self.dld) or an error string."""
    R = R or rsm_class()
    obj = object.__new__(R)
    P = NS(**{k: conv(v) for k, v in cs['P'].items()})
    c = lambda l: [conv(v) for v in l]

    def call():
        with TeSpy(R) as spy:
            kt, ustar = obj.diffusion_coefficient(
                conv(cs['rho']), c(cs['z']), c(cs['dz']), conv(cs['z0']), conv(cs['disp']),
                conv(cs['trur']), conv(cs['heat']), cs['nz'], conv(cs['uref']), c(cs['th']), P)
        return kt, ustar, spy.te[-1], obj.dlu, obj.dld
    return guarded(call)


def fmt_coef(r):
    if isinstance(r, str):
        return r
    return 'ok kt=%s ustar=%s te=%s dlu=%s dld=%s' % (
        frac_list(r[0]), frac_str(r[1]), frac_list(r[2]), frac_list(r[3]), frac_list(r[4]))


def oracle_coef(cs, r):
    """te >= 0.01 on every returned call; Kt >= 0 when the grid hypotheses hold (the stub sqrt is
    >= 0 on [0, inf), which is all `kt_nonneg` asks of the symbol)."""
    if isinstance(r, str):
        return None
    kt, _, te, _, _ = r
    nz = cs['nz']
    if len(te) != nz or len(kt) != nz + 1:
        return 'lengths: %d Kt values, %d te values for nz = %d' % (len(kt), len(te), nz)
    if any(t < F(1, 100) for t in te):
        return 'te below 0.01: min te = %s' % float(min(te))
    if grid_ok(nz, cs['z'], cs['dz']) and any(k < 0 for k in kt):
        i = min(range(len(kt)), key=lambda j: kt[j])
        return 'negative diffusion coefficient Kt[%d] = %s' % (i, float(kt[i]))
    if nz >= 1 and kt[nz] != kt[nz - 1]:
        return 'Kt[nz] != Kt[nz-1]'
    # kt_formula, with the shared stub for sqrt
    dlu, dld, z = r[3], r[4], cs['z']
    for i in range(nz):
        want = F(2, 5) * min(dlu[i], dld[i]) * fracexec.StubMath.sqrt(te[i])
        if kt[i] != want:
            return 'Kt[%d] = %s is not 0.4*min(dlu, dld)*sqrt(te) = %s' % (i, float(kt[i]), float(want))
        if dld[i] > (z[i] + z[i + 1]) / 2:
            return 'dld[%d] = %s exceeds the cap (z[iz]+z[iz+1])/2 = %s' % (
                i, float(dld[i]), float((z[i] + z[i + 1]) / 2))
    return None


def float_oracle_coef(cs):
    """The same oracle on the plain float code (real libm) for physically meaningful inputs."""
    core.repo_python_path()
    from uwg.RSMDef import RSMDef
    r = impl_coef(cs, R=RSMDef, conv=float)
    if isinstance(r, str):
        return 'float run raises %s' % r, None
    kt, _, te, dlu, dld = r
    if min(te) < 0.01:
        return 'float te below 0.01: %r' % min(te), r
    if not all(k >= 0 and k == k and abs(k) != float('inf') for k in kt):
        return 'float Kt negative or non-finite: %r' % min(kt), r
    import math
    z = [float(v) for v in cs['z']]
    for i in range(cs['nz']):
        want = 0.4 * min(dlu[i], dld[i]) * math.sqrt(te[i])
        if abs(kt[i] - want) > 1e-12 * max(1.0, abs(want)):
            return 'float Kt[%d] = %r is not 0.4*min(dlu, dld)*sqrt(te) = %r' % (i, kt[i], want), r
        if dld[i] > (z[i] + z[i + 1]) / 2 * (1 + 1e-12):
            return 'float dld[%d] = %r exceeds the cap %r' % (i, dld[i], (z[i] + z[i + 1]) / 2), r
    return None, r


# ----------------------------------------------------------------------------- vdm
STATE_KEYS = ['temp', 'pres', 'treal', 'dc', 'ds', 'wind']
ATTR = dict(temp='tempProf', pres='presProf', treal='tempRealProf', dc='densityProfC',
            ds='densityProfS', wind='windProf')


def gen_forc(rng, T=None):
    return dict(temp=(T or rq(rng, 270, 310, 10)) + rq(rng, -3, 3, 10),
                pres=pos(rng, 95000, 103000, 1), wind=pos(rng, 1, 12, 10))


def gen_vdm_object(rng, kind=None, nmax=9):
    """Attributes of an RSMDef object (as the constructor leaves them, or malformed). Exact
    profiles after a step have O(nzref * 10^3) digits, hence the cap on nzref."""
    kind = kind or rng.choice(['valid'] * 8 + ['nzref0', 'nzref1', 'nzref2', 'short-temp',
                                               'short-pres', 'short-treal', 'short-dc', 'short-ds',
                                               'short-wind', 'short-dz', 'zero-temp', 'cp0', 'r0',
                                               'fpres0', 'nzfor-big', 'tall', 'z0zero', 'dz0',
                                               'long-lists', 'heat0'])
    nzref = rng.randint(3, nmax)
    if kind in ('nzref0', 'nzref1', 'nzref2'):
        nzref = int(kind[-1])
    zm = gen_meso(rng, nzref + 1 + rng.choice([0, 1, 30]))
    z, dz = grid_of(zm)
    P = gen_param(rng)
    h = pos(rng, 0.1, 6, 10)
    if kind == 'tall':
        h = rng.choice([F(12), F(30), F(50, 3)])
    if kind == 'z0zero':
        h = F(0)
    ptk = rng.choice(PT_KINDS)
    L = max(nzref, 1)
    temp = gen_pt(rng, L, ptk)
    pres = [F(101325) - 12 * i * rng.randint(5, 9) for i in range(L)]
    st = dict(temp=temp, pres=pres, treal=[rq(rng, 270, 310, 10) for _ in range(L)],
              dc=[pos(rng, 1, 1.3, 100) for _ in range(L)],
              ds=[pos(rng, 1, 1.3, 100) for _ in range(L + 1)],
              wind=[pos(rng, 0.5, 9, 10) for _ in range(L)])
    nzfor = rng.randint(0, nzref)
    if kind.startswith('short-') and kind != 'short-dz':
        k = kind[6:]
        st[k] = st[k][:rng.randrange(0, len(st[k]))]
    elif kind == 'short-dz':
        dz = dz[:rng.randrange(0, nzref + 1)]
    elif kind == 'zero-temp':
        st['temp'][rng.randrange(1, L) if L > 1 else 0] = F(0)
    elif kind == 'cp0':
        P['cp'] = F(0)
    elif kind == 'r0':
        P['r'] = F(0)
    elif kind == 'nzfor-big':
        nzfor = nzref + rng.randint(1, 3)
    elif kind == 'dz0':
        dz[rng.randrange(0, min(len(dz), nzref + 1))] = F(0)
    elif kind == 'long-lists':
        for k in STATE_KEYS:
            st[k] = st[k] + [pos(rng, 1, 9, 10) for _ in range(rng.randint(0, 2))]
    # the other documented level numbers of the object (sensor level nz0, wind level nz10): anywhere in the column
    return dict(P=P, nzref=nzref, nzfor=nzfor, z=z, dz=dz, z0r=h / 10, disp=h / 2, st=st,
                kind=kind, ptk=ptk, nz0=rng.randint(1, max(1, nzref)), nz10=rng.randint(1, max(1, nzref)))


TINY_DT = [F(1, 10 ** k) for k in (3, 6, 9, 12, 15, 20)]
# every legal simulation time step (the 45 divisors of 3600 s), the shipped / common ones more often
STEP_DTS = list(V4.DIVISORS) + [60, 300, 300, 300, 600, 3600]


def gen_step(rng, ob, T, tiny_dt=False, dt_fixed=None):
    """One vdm step. `tiny_dt` (or one step in six anyway): a step of 1e-3 .. 1e-20 s, so that the diffusion
    number Kt*dt/dz^2 handed to diffusion_equation is far below any absolute threshold (1e-10 and smaller)."""
    f = gen_forc(rng, T)
    if ob['kind'] == 'fpres0':
        f['pres'] = F(0)
    sens = rng.choice([rq(rng, 1, 300, 10), -rq(rng, 0.1, 60, 10), rq(rng, 1, 300, 10)])
    if ob['kind'] == 'heat0':
        sens = F(0)
    dt = F(rng.choice(STEP_DTS))
    if tiny_dt or rng.random() < 1.0 / 6:
        dt = rng.choice(TINY_DT)
    if dt_fixed is not None:
        dt = F(dt_fixed)
    return dict(forc=f, sens=sens, dt=dt)


def line_vdm(ob, st, step):
    f = step['forc']
    return ('vdm %s nzref=%d nzfor=%d dt=%s z=%s dz=%s z0r=%s disp=%s sens=%s ftemp=%s fpres=%s '
            'fwind=%s %s' % (
                fmt_param(ob['P']), ob['nzref'], ob['nzfor'], frac_str(step['dt']), frac_list(ob['z']),
                frac_list(ob['dz']), frac_str(ob['z0r']), frac_str(ob['disp']), frac_str(step['sens']),
                frac_str(f['temp']), frac_str(f['pres']), frac_str(f['wind']),
                ' '.join('%s=%s' % (k, frac_list(st[k])) for k in STATE_KEYS)))


def make_object(ob, R=None, conv=lambda x: x):
    R = R or rsm_class()
    obj = object.__new__(R)
    obj.z = [conv(v) for v in ob['z']]
    obj.dz = [conv(v) for v in ob['dz']]
    obj.z0r = conv(ob['z0r'])
    obj.disp = conv(ob['disp'])
    obj.nzref = ob['nzref']
    obj.nzfor = ob['nzfor']
    obj.nz0 = ob.get('nz0', 1)          # documented attributes vdm is not modelled to read
    obj.nz10 = ob.get('nz10', 1)
    obj.ublPres = None
    for k in STATE_KEYS:
        setattr(obj, ATTR[k], [conv(v) for v in ob['st'][k]])
    return obj


def snapshot(obj):
    return {k: list(getattr(obj, ATTR[k])) for k in STATE_KEYS}


def coarsen(obj, digits=6):
    """Between two steps of a history: round every profile entry IN PLACE (same list objects) to
    `digits` decimals, so that the exact rationals of a multi-step history stay small. The rounded
    state is simply the pre-state of the next step."""
    q = 10 ** digits
    for k in STATE_KEYS:
        l = getattr(obj, ATTR[k])
        for i, v in enumerate(l):
            l[i] = F(round(F(v) * q), q)


def run_step(obj, ob, step, conv=lambda x: x, circ=''):
    """One real vdm step on `obj`; returns (answer-or-error, te, kt). `circ`: circumstance that is no input of the
    step (the RSMDef object rendered with repr / str right before the step and again before its state is read; DEBUG
    logging on around the step)."""
    import u4_util as U4
    R = type(obj)
    P = NS(**{k: conv(v) for k, v in ob['P'].items()})
    forc = NS(**{k: conv(v) for k, v in step['forc'].items()})
    kts = []
    orig = R.__dict__['diffusion_equation']
    f = orig.__func__

    def spy_eq(nz, dt, co, da, daz, cd, dz):
        kts.append((list(co), list(da), list(daz), list(cd)))
        return f(nz, dt, co, da, daz, cd, dz)

    def call():
        if U4.rendered(circ):
            U4.observe(obj)
        with U4.under(circ):
            obj.vdm(forc, NS(sens=conv(step['sens'])), P, NS(dt=conv(step['dt'])))
        if U4.rendered(circ):
            U4.observe(obj)
        return snapshot(obj), obj.ublPres, list(obj.dlu), list(obj.dld)
    R.diffusion_equation = staticmethod(spy_eq)
    try:
        with TeSpy(R) as spy:
            r = guarded(call)
    finally:
        R.diffusion_equation = orig
    return r, (spy.te[-1] if spy.te else None), ((kts[0] + (len(kts),)) if kts else None)


def fmt_vdm(r):
    if isinstance(r, str):
        return r
    st, ubl, dlu, dld = r
    return 'ok %s ubl=%s dlu=%s dld=%s' % (
        ' '.join('%s=%s' % (k, frac_list(st[k])) for k in STATE_KEYS), frac_str(ubl),
        frac_list(dlu), frac_list(dld))


def vdm_hyps(ob, st, step):
    """The hypotheses of `vdm_step_admissible` (Props/C16Coef.lean) on a pre-state."""
    n, P, f = ob['nzref'], ob['P'], step['forc']
    return (n >= 2 and all(len(st[k]) == n for k in ('temp', 'pres', 'treal', 'dc')) and
            len(st['ds']) == n + 1 and len(ob['dz']) >= n + 1 and len(ob['z']) >= n + 1 and
            step['dt'] >= 0 and P['r'] > 0 and P['cp'] > 0 and P['g'] > 0 and f['temp'] > 0 and
            f['pres'] > 0 and all(v > 0 for v in st['temp'][1:]) and st['pres'][n - 1] > 0 and
            all(v > 0 for v in ob['dz'][:n + 1]) and grid_ok(n, ob['z'], ob['dz']))


def live_hyps(obj, forc, parameter, simTime):
    """`StepHyp` of Props/C16Coef.lean evaluated (in doubles) on a live RSMDef object right before
    a real vdm call. Returns the list of violated hypotheses."""
    n = obj.nzref
    bad = []

    def need(name, ok):
        if not ok:
            bad.append(name)
    need('2 <= nzref', n >= 2)
    need('r, cp > 0, g >= 0', parameter.r > 0 and parameter.cp > 0 and parameter.g >= 0)
    need('forc.temp > 0, forc.pres > 0', forc.temp > 0 and forc.pres > 0)
    need('list lengths', len(obj.tempProf) == n and len(obj.presProf) == n and
         len(obj.tempRealProf) == n and len(obj.densityProfC) == n and
         len(obj.densityProfS) == n + 1)
    need('tempProf[1:] > 0', all(v > 0 for v in obj.tempProf[1:]))
    need('presProf[nzref-1] > 0', n >= 1 and len(obj.presProf) >= n and obj.presProf[n - 1] > 0)
    need('dz[0..nzref] > 0', len(obj.dz) >= n + 1 and all(v > 0 for v in obj.dz[:n + 1]))
    need('GridOK nzref z dz', grid_ok(n, obj.z, obj.dz))
    need('dt >= 0', simTime.dt >= 0)
    return bad


def oracle_vdm(ob, pre, step, r, te, eqargs):
    """C16 through a whole vdm step, on the exact result of the real code."""
    if isinstance(r, str):
        return None
    st = r[0]
    n = ob['nzref']
    if te is not None and any(t < F(1, 100) for t in te):
        return 'te below 0.01: %s' % float(min(te))
    if not vdm_hyps(ob, pre, step) or eqargs is None:
        return None
    co, da, daz, cd = eqargs[:4]
    if len(cd) != n + 1 or any(k < 0 for k in cd):
        return 'diffusion_equation receives a negative / mis-sized cd: min %s' % float(min(cd))
    if any(v <= 0 for v in da[:n]) or any(v <= 0 for v in daz[:n + 1]):
        return 'diffusion_equation receives a non-positive density'
    new = st['temp']
    old = [step['forc']['temp']] + list(pre['temp'][1:])
    lo, hi = min(old[:n - 1]), max(old[:n - 1])
    if new[0] != step['forc']['temp']:
        return 'bottom level %s != forcing temperature %s' % (float(new[0]), float(old[0]))
    if new[n - 1] != new[n - 2]:
        return 'top two levels differ'
    if not all(lo <= v <= hi for v in new):
        return 'new potential temperature leaves [%s, %s] of the old profile' % (float(lo), float(hi))
    # the step as a whole, from the pre-state and the step's own dt (however the code calls its kernel): the profile
    # after vdm is the solution of the diffusion system for the WHOLE step; the interior heat content changes by
    # dt x the flux through the lowest interface.  Densities: those the object holds after the step (vdm updates
    # them before it solves); coefficients: those handed to the (first) call of diffusion_equation
    return V4.whole_step_msg(n, step['dt'], old, new, st['dc'], st['ds'], cd, ob['dz'])


# ----------------------------------------------------------------------------- constructor
def construct(P, height, T_init, P_init, path, R=None):
    R = R or rsm_class()
    return R(F(1), F(103), F(8), height, T_init, P_init, NS(**P), path)


def write_meso(path, zm):
    with open(path, 'w') as f:
        for v in zm:
            f.write('%s\n' % (('%d' % v) if v.denominator == 1 else ('%.6f' % float(v)).rstrip('0')))
    return path


def object_dict(obj, P):
    """Generator-side description of a constructed object (its actual attributes)."""
    return dict(P=P, nzref=obj.nzref, nzfor=obj.nzfor, z=list(obj.z), dz=list(obj.dz), z0r=obj.z0r,
                disp=obj.disp, st=snapshot(obj), kind='constructed', nz0=obj.nz0, nz10=obj.nz10)


def real_grid_facts():
    """Hypotheses of `gridOK_of_meso` / `GridOK` on the shipped z_meso.txt, in exact decimals and
    in doubles."""
    R = rsm_class()
    zm = R.load_z_meso(z_meso_path())
    obj = construct(real_param(), F(1, 10), F(300), F(101325), z_meso_path())
    z, dz = obj.z, obj.dz
    facts = {
        'levels': len(zm), 'cells': len(z), 'nzref(h_ref=150)': obj.nzref,
        'z_meso[0] >= 0': zm[0] >= 0,
        'z_meso strictly increasing': all(a < b for a, b in zip(zm, zm[1:])),
        'dz > 0': all(v > 0 for v in dz),
        'z = midpoints, dz = differences (exact)':
            (z, dz) == grid_of(zm),
        'GridOK nz for every nz < cells (exact)': all(grid_ok(n, z, dz) for n in range(len(z))),
    }
    core.repo_python_path()
    from uwg.RSMDef import RSMDef
    fo = RSMDef(1., 103., 8., 0.1, 300., 101325., NS(**{k: float(v) for k, v in real_param().items()}),
                z_meso_path())
    facts['GridOK nzref (doubles)'] = grid_ok(fo.nzref, fo.z, fo.dz)
    facts['GridOK nz for every nz < cells (doubles)'] = all(
        grid_ok(n, fo.z, fo.dz) for n in range(len(fo.z)))
    facts['min dlu start (doubles)'] = min(fo.z[fo.nzref] - fo.z[i] - fo.dz[i] / 2
                                           for i in range(fo.nzref))
    return facts, zm, obj


# ----------------------------------------------------------------------------- branch labels
def line_labels():
    """Source lines of RSMDef.py that mark the branches we want to see covered."""
    path = os.path.join(core.REPO, 'uwg', 'RSMDef.py')
    src = open(path).read().replace('\r\n', '\n').split('\n')
    want = [('up-sqrt', '_t1 = ('), ('up-flat', 'tl = (te[iz] - zup_inf)'),
            ('dn-flat', 'tl = (te[iz] - zdo_sup)'), ('unstable', 'wstar = ('),
            ('stable', 'te[iz] = max(ustar ** 2., 0.01)')]
    out = {}
    for i, l in enumerate(src):
        for lab, pat in want:
            if pat in l and lab not in out.values():
                out[i + 1] = lab
        if l.strip() == 'tl = (' and 'dn-sqrt' not in out.values():
            out[i + 1] = 'dn-sqrt'
    return path, out


class Branches(object):
    """Line tracer restricted to RSMDef.py: which of the labelled branches ran."""

    def __init__(self):
        self.path, self.labels = line_labels()
        self.hit = set()

    def _local(self, frame, event, arg):
        if event == 'line':
            lab = self.labels.get(frame.f_lineno)
            if lab:
                self.hit.add(lab)
        return self._local

    def _global(self, frame, event, arg):
        if frame.f_code.co_filename == self.path:
            return self._local
        return None

    def run(self, f):
        self.hit = set()
        old = sys.gettrace()
        sys.settrace(self._global)
        try:
            return f()
        finally:
            sys.settrace(old)

    def tag(self):
        return '+'.join(sorted(self.hit)) or 'no-branch'


# ----------------------------------------------------------------------------- the check
def run_coef(chk):
    """Ties, oracles and the grid check for the coefficient side of C16 (called by c16.run)."""
    quick = chk.tier == 'quick'
    rng = chk.rng
    br = Branches()

    # ---- hypotheses of kt_nonneg / gridOK_of_meso on the shipped grid
    facts, zm_real, _ = real_grid_facts()
    chk.measurements['z_meso_grid_hypotheses'] = {k: (v if isinstance(v, (bool, int)) else float(v))
                                                  for k, v in facts.items()}
    failed = [k for k, v in facts.items() if v is False]
    if failed:
        chk.violation('impl-violation', 'grid hypotheses of kt_nonneg on uwg/refdata/z_meso.txt',
                      case={'z_meso': [str(v) for v in zm_real]}, observed=failed,
                      expected='z_meso[0] >= 0, strictly increasing, GridOK for every nz')
    chk.direct('grid-hypotheses(z_meso.txt)', len(facts), len(facts),
               'hypotheses of Uwg.C16.gridOK_of_meso / GridOK evaluated on the shipped z_meso.txt '
               '(exact decimals and doubles): z_meso[0] >= 0, strictly increasing, dz > 0, '
               'z[nz]-z[iz]-dz[iz]/2 >= 0, z[iz]+dz[iz]/2 >= 0, (z[iz]+z[iz+1])/2 >= 0 for all '
               'iz < nz < number of cells', mismatches=len(failed),
               branches={k: 1 for k in facts})

    # ---- dissipation_bougeault
    cases = [gen_dissip(rng) for _ in range(160 if quick else 2500)]
    cases += [gen_dissip(rng, kind=k) for k in ('floor', 'steer-flat', 'steer-prev', 'zero',
                                                'zerodiv') for _ in range(4)]
    res, tags = [], {}
    for cs in cases:
        r = br.run(lambda: impl_dissip(cs))
        res.append(r)
        tags[line_dissip(cs)] = cs['kind'] + '|' + br.tag()
    chk.correspond(
        'RSMDef.dissipation_bougeault~dissipation', 'C16',
        [(line_dissip(cs), fmt_dissip(r)) for cs, r in zip(cases, res)],
        rule='fractionised RSMDef.dissipation_bougeault vs Lean `Rsm.dissipation` (both scans with '
             'their is_near_zero tests, max(1., .), sqrt(max(0., .)), exceptions in Python order) on '
             'z_meso-like grids with nz = 1..24 and uniform / stable / unstable / mixed / plateau '
             '(bbb == 0) / tiny-gradient (|bbb| < 1e-10) / step profiles; te at the floor, random, '
             'steered into the bbb ~ 0 window, equal to the previous integral (is_near_zero(te - '
             'zup_inf)), zero, or inside the window that divides by beta*(pt[izz]-pt[iz]) = 0; '
             'malformed lists; classes are <te kind>|<branches of the real code that ran> '
             '(line trace of RSMDef.py); exact equality of both length profiles or the error class',
        classify=lambda line, impl: tags.get(line, '?'))
    bad = 0
    for cs, r in zip(cases, res):
        if isinstance(r, str) or not grid_ok(cs['nz'], cs['z'], cs['dz']):
            continue
        if any(v < 0 for v in r[0]) or any(v < 0 for v in r[1]):
            bad += 1
            if bad <= 2:
                chk.violation('impl-violation', 'dlu, dld >= 0 on RSMDef.dissipation_bougeault',
                              case=case_json(cs), observed='min dlu %s, min dld %s' % (
                                  float(min(r[0])), float(min(r[1]))),
                              expected='each length is its non-negative start value or >= 1')
    chk.direct('length-oracle(RSMDef.dissipation_bougeault)', len(cases),
               sum(1 for r in res if not isinstance(r, str)),
               'dlu[iz], dld[iz] >= 0 on the exact result of the real dissipation_bougeault '
               'whenever the grid satisfies GridOK', mismatches=bad)

    # ---- length_bougeault
    cases = [gen_lengths(rng) for _ in range(100 if quick else 1500)]
    res = [impl_lengths(cs) for cs in cases]
    lk = {line_lengths(cs): cs['kind'] for cs in cases}
    chk.correspond(
        'RSMDef.length_bougeault~lengthBougeault', 'C16',
        [(line_lengths(cs), fmt_lengths(r)) for cs, r in zip(cases, res)],
        rule='fractionised RSMDef.length_bougeault vs Lean `Rsm.lengthBougeault` (dlg, dld = '
             'min(dld, dlg) in place, dls = sqrt(dlu*dld) with ValueError, dlk = min(dlu, dld)), '
             'nz = 0..24, dld longer than nz (tail kept), negative products, short lists; exact',
        classify=lambda line, impl: lk.get(line, '?'))

    # ---- diffusion_coefficient
    cases = [gen_coef(rng) for _ in range(150 if quick else 2500)]
    cases += [gen_coef(rng, kind=k, ptk=pk) for k in ('unstable', 'stable')
              for pk in ('uniform', 'stable', 'plateau', 'tiny', 'unstable')]
    cases += [gen_coef(rng, kind=k) for k in COEF_KINDS]
    res, tags = [], {}
    for cs in cases:
        r = br.run(lambda: impl_coef(cs))
        res.append(r)
        tags[line_coef(cs)] = cs['kind'] + '|' + br.tag()
    chk.correspond(
        'RSMDef.diffusion_coefficient~diffusionCoefficient', 'C16',
        [(line_coef(cs), fmt_coef(r)) for cs, r in zip(cases, res)],
        rule='fractionised RSMDef.diffusion_coefficient (object made with object.__new__, te '
             'captured at the call of dissipation_bougeault) vs Lean `Rsm.diffusionCoefficient`: '
             'Kt, ustar, te, self.dlu, self.dld; unstable (heatRur > 1e-2) and stable / neutral '
             'branch, heatRur at and around the threshold, heatRur == 0 and calm wind '
             '(ZeroDivisionError), tall obstacles (log ValueError), log == 0, zero constants, short '
             'lists, nz = 0, 1; classes are <kind>|<branches of the real code that ran>; exact',
        classify=lambda line, impl: tags.get(line, '?'))
    bad = 0
    for cs, r in zip(cases, res):
        msg = oracle_coef(cs, r)
        if msg:
            bad += 1
            if bad <= 3:
                chk.violation('impl-violation', 'Kt >= 0, te >= 0.01 on RSMDef.diffusion_coefficient',
                              case=case_json(cs), observed=msg,
                              expected='every Kt[iz] >= 0 (grid satisfying GridOK), every te[iz] >= 0.01, '
                                       'Kt[iz] == 0.4*min(self.dlu[iz], self.dld[iz])*sqrt(te[iz]), '
                                       'self.dld[iz] <= (z[iz]+z[iz+1])/2, Kt[nz] == Kt[nz-1]')
    chk.direct('kt-te-oracle(RSMDef.diffusion_coefficient)', len(cases),
               sum(1 for r in res if not isinstance(r, str)),
               'Uwg.C16.kt_nonneg / te_pos / kt_formula evaluated on the exact result of the real '
               'diffusion_coefficient (the stub sqrt is >= 0 on [0, inf): stub_sqrt_nonneg)',
               mismatches=bad)
    fcases = [cs for cs in cases if cs['kind'] in ('unstable', 'stable', 'neutral', 'threshold')]
    bad = 0
    for cs in fcases:
        msg, r = float_oracle_coef(cs)
        if msg:
            bad += 1
            if bad <= 2:
                chk.violation('impl-violation', 'float-level Kt >= 0, te >= 0.01 (real libm)',
                              case=case_json(cs), observed=msg,
                              expected='min Kt >= 0, finite, min te >= 0.01 in the plain float run')
    chk.direct('kt-te-float-oracle(RSMDef.diffusion_coefficient)', len(fcases), len(fcases),
               'the same inputs through the plain float code with the real libm: Kt >= 0 and finite, '
               'te >= 0.01, Kt = 0.4*min(dlu, dld)*sqrt(te) and dld <= cap within 1e-12 relative',
               mismatches=bad)

    # ---- RSMDef.__init__ grid + whole vdm steps (histories on ONE object)
    pairs, vk, nviol, nor = [], {}, [0], [0]
    gpairs = []
    dts_seen, swept = {}, []

    def history(ob, obj, nsteps, tag, tiny_dt=False, dts=None):
        T = ob['st']['temp'][0] if ob['st']['temp'] else F(300)
        for s in range(nsteps):
            pre = snapshot(obj)
            step = gen_step(rng, ob, T, tiny_dt, dt_fixed=dts[s] if dts else None)
            dts_seen[float(step['dt'])] = dts_seen.get(float(step['dt']), 0) + 1
            if step['dt'] < 1:
                tag = tag.split('/dt<1s')[0] + '/dt<1s'
            line = line_vdm(ob, pre, step)
            import u4_util as U4
            r, te, eq = run_step(obj, ob, step, circ=U4.circ_pick(rng))
            pairs.append((line, fmt_vdm(r)))
            hy = vdm_hyps(ob, pre, step)
            vk[line] = '%s|step%d|%s' % (tag, s, 'hyps' if hy else 'nohyps')
            nor[0] += 1
            msg = oracle_vdm(ob, pre, step, r, te, eq)
            if msg:
                nviol[0] += 1
                if nviol[0] <= 3:
                    chk.violation('impl-violation', 'C16 through a whole RSMDef.vdm step',
                                  case={'object': case_json(ob), 'pre': case_json(pre),
                                        'step': case_json(step)}, observed=msg,
                                  expected='te >= 0.01; under the hypotheses of vdm_step_admissible: '
                                           'cd >= 0, densities > 0, new tempProf within [min, max] of '
                                           'the old one, bottom = forc.temp, top two equal')
            if isinstance(r, str):
                return False
            coarsen(obj)
        return True

    for _ in range(36 if quick else 200):
        ob = gen_vdm_object(rng, nmax=9 if quick else 12)
        history(ob, make_object(ob), 3, ob['kind'])
    for k in ('valid', 'heat0', 'nzref2', 'tall'):
        ob = gen_vdm_object(rng, kind=k, nmax=8)
        history(ob, make_object(ob), 2, ob['kind'])
    for _ in range(5 if quick else 40):
        ob = gen_vdm_object(rng, kind='valid', nmax=8)
        history(ob, make_object(ob), 2, 'valid', tiny_dt=True)
    # every legal simulation time step: ONE object stepped once at each of the 45 divisors of 3600 s, in shuffled order
    for _ in range(1 if quick else 4):
        ob = gen_vdm_object(rng, kind='valid', nmax=5 if quick else 9)
        order = list(V4.DIVISORS)
        rng.shuffle(order)
        swept.append(history(ob, make_object(ob), len(order), 'valid/all-45-time-steps', dts=order))
    # through the real constructor: shipped grid (several inversion heights) and generated grids
    P = real_param(refHeight=F(150))
    # sensor heights: h_temp at the centre of the first level (2 m, every shipped file), below it, between levels,
    # on a 10 m / 30 m mast (nz0 = 1, 1, 2, 3, 5 on the shipped grid); h_wind likewise
    sensors = [(F(2), F(10)), (F(6), F(10)), (F(10), F(2)), (F(3, 2), F(30)), (F(30), F(6))]
    builds = [(real_param(refHeight=F(h), tempHeight=sensors[i % 5][0], windHeight=sensors[i % 5][1]), z_meso_path())
              for i, h in enumerate((20, 150, 150) if quick else (10, 20, 45, 80, 150, 150, 200, 150, 80, 45))]
    for i in range(3 if quick else 20):
        n = rng.randint(5, 12)
        zm = gen_meso(rng, n + rng.randint(2, 6))
        path = write_meso(os.path.join(chk.work(), 'z_meso_%d.txt' % i), zm)
        href = (zm[n - 1] + zm[n]) / 2 + rng.choice([F(0), F(1, 100), -F(1, 100)])
        zc = [(zm[k] + zm[k + 1]) / 2 for k in range(4)]
        builds.append((real_param(refHeight=href, nightBLHeight=zm[2],
                                  tempHeight=[F(2), zc[0], (zc[0] + zc[1]) / 2, zc[2], zc[1] + F(1, 100)][i % 5],
                                  windHeight=zm[1]), path))
    for P, path in builds:
        obj = guarded(lambda: construct(P, pos(rng, 0.1, 3, 10), rq(rng, 280, 305, 10),
                                        F(rng.randint(99000, 102000)), path))
        if isinstance(obj, str):
            continue
        gpairs.append(('grid zm=%s' % frac_list(obj.z_meso),
                       'ok z=%s dz=%s' % (frac_list(obj.z), frac_list(obj.dz))))
        ob = object_dict(obj, P)
        history(ob, obj, 1 if (quick and obj.nzref > 12) else 2,
                'constructed/' + ('z_meso.txt' if path == z_meso_path() else 'generated'))
    chk.correspond(
        'RSMDef.__init__(grid)~mesoGrid', 'C16', gpairs,
        rule='z, dz of objects built by the real (fractionised) constructor from the shipped '
             'z_meso.txt and from generated z_meso files vs Lean `Rsm.mesoGrid`; exact')
    chk.correspond(
        'RSMDef.vdm~vdm', 'C16', pairs,
        rule='whole vdm steps of the fractionised real code vs Lean `Rsm.vdm` (pressure, real '
             'temperature, density profiles, diffusion_coefficient, diffusion_equation, wind '
             'profile with its caught ValueError, average pressure): histories of up to 3 steps on '
             'ONE object (made with object.__new__ - sensor / wind level numbers nz0, nz10 anywhere in 1..nzref - or '
             'by the real constructor on z_meso.txt / on generated grids with the sensor height h_temp at, below '
             'and above the centre of the first level: nz0 = 1, 2, 3, 5), new forcing each step (dt = any of the 45 legal '
             'simulation time steps 1..3600 s - one object is stepped once at EVERY one of them - and one step in six - in some histories '
             'every step - with dt = 1e-3 .. 1e-20 s, i.e. a diffusion number Kt*dt/dz^2 far below 1e-10), '
             'profiles rounded in place to 6 decimals '
             'between steps; three steps of five under a circumstance that is no input (the RSMDef object rendered '
             'with repr / str right before the step and again before its state is read, DEBUG logging on, both); compared: tempProf, presProf, tempRealProf, densityProfC, '
             'densityProfS, windProf, ublPres, self.dlu, self.dld after every step; malformed '
             'objects (nzref = 0, 1, 2, short lists, zero temperature / constants / spacing, '
             'nzfor > nzref, tall obstacles); exact',
        classify=lambda line, impl: vk.get(line, '?'))
    chk.direct('vdm-oracle(RSMDef.vdm)', nor[0], sum(1 for p in pairs if not p[1].startswith('err')),
               'te >= 0.01 on every step; under the hypotheses of Uwg.C16.vdm_step_admissible: cd '
               '>= 0 and densities > 0 at the call of diffusion_equation (spied), new potential '
               'temperature within [min, max] of the old profile, bottom = forc.temp, top two '
               'levels equal; and the step as a WHOLE, written from the pre-state and the step\'s own dt: for every '
               'interior level da dz (new - old) = dt x (flux in - flux out) with the fluxes of the NEW profile (i.e. '
               'the profile after vdm is the exact solution of the implicit system for the whole time step, however '
               'often the kernel is called), hence interior heat gain = dt x flux through the lowest interface - on the '
               'exact results of the real vdm; time steps met: every divisor of 3600 s', mismatches=nviol[0],
               branches={'dt=%g' % k: v for k, v in sorted(dts_seen.items()) if k >= 1})
    missing_dt = [d for d in V4.DIVISORS if float(d) not in dts_seen]
    if missing_dt and all(swept) and not nviol[0]:
        raise core.Infra('vdm tie: legal time steps never stepped: %s' % missing_dt)
    chk.assumptions.append(
        'the symbols sqrt / log / rpow are total functions in the model; CPython returns a complex '
        'number for a negative base under `**` with a non-integral exponent (then max() raises '
        'TypeError) and math.pow raises ValueError: outside the model; the theorems use the '
        'symbols on positive arguments only. r/cp and cp/r are non-integral in every generated case')
    chk.notes.append('diffusion_coefficient computes the Monin-Obukhov length before the stability '
                     'test: rural.sens == 0.0 exactly raises ZeroDivisionError (modelled, tie class '
                     'heat0); uref == 0 in the unstable branch raises ZeroDivisionError in phi_m '
                     '(uwg.py clamps forc.wind to windMin before vdm is called)')


# ----------------------------------------------------------------------------- every legal time step, in doubles
def _sens_of_hour(h):
    """rural sensible heat flux of a synthetic day: stable nights (negative), unstable days; never exactly 0"""
    import math
    return -27.5 + 260.0 * max(0.0, math.sin(math.pi * (h - 6) / 12.0))


def float_step_msg(obj, forc, dt, pre, cd):
    """C16 on one real (double precision) vdm step of length dt, from the pre-state alone"""
    n = obj.nzref
    x = list(obj.tempProf)
    start = [forc.temp] + list(pre[1:])
    scale = max(abs(v) for v in start + x)
    tol = 1e-9 * scale
    lo, hi = min(start[:n - 1]), max(start[:n - 1])
    if len(x) != n or not all(v == v and abs(v) != float('inf') for v in x):
        return 'non-finite or mis-sized temperature profile'
    if x[0] != forc.temp:
        return 'lowest level %r is not the measured rural air temperature %r' % (x[0], forc.temp)
    if abs(x[n - 1] - x[n - 2]) > tol:
        return 'top two levels differ: %r vs %r' % (x[n - 1], x[n - 2])
    if cd is not None and min(cd) >= 0 and not all(lo - tol <= v <= hi + tol for v in x):
        i = [not (lo - tol <= v <= hi + tol) for v in x].index(True)
        return 'level %d = %r outside [%r, %r] of the profile the step started from' % (i, x[i], lo, hi)
    if cd is None:
        return 'vdm returned without computing diffusion coefficients'
    return V4.whole_step_msg(n, dt, start, x, obj.densityProfC, obj.densityProfS, cd, obj.dz, rel=1e-9)


def run_all_timesteps(chk):
    """Float level, plain package: the RSMDef objects of really generated models (and objects built by the real
    constructor with fewer / more levels) stepped by the real vdm at EVERY legal simulation time step, forcing taken
    from the rows of the rural file; the C16 statement for the whole step after every call.  Also: one object through
    all 45 time steps in a row (both directions), and objects of different sizes stepped alternately in both orders
    against twins stepped alone (bit for bit)."""
    import copy
    import uwgutil as U
    quick = chk.tier == 'quick'
    rng = chk.rng
    core.repo_python_path()
    from uwg.RSMDef import RSMDef
    o_coef = RSMDef.__dict__['diffusion_coefficient']
    o_eq = RSMDef.__dict__['diffusion_equation']
    got = {}

    def spy_coef(self, *a, **k):
        if got.get('interrupt') == 'diffusion_coefficient':
            raise got['with']('interrupted by the harness')
        r = o_coef(self, *a, **k)
        got['cd'] = list(r[0])
        return r

    def spy_eq(*a, **k):
        got['calls'] = got.get('calls', 0) + 1
        if got.get('interrupt') == 'diffusion_equation':
            raise got['with']('interrupted by the harness')
        return o_eq.__func__(*a, **k)
    models = [dict(month=1, day=1), dict(month=7, day=14, h_temp=10.0, h_obs=5.0, h_wind=30.0)]
    if not quick:
        models += [dict(month=4, day=30, h_temp=3.5, h_obs=1.0), dict(month=10, day=1, h_temp=30.0, h_obs=0.01)]
    objs = []
    for kw in models:
        m = U.new_model(nday=2, dtsim=300, **kw)
        with core.quiet():
            m.generate()
        rows = [NS(temp=m.forcIP.temp[i], pres=m.forcIP.pres[i], wind=max(m.forcIP.wind[i], m.geoParam.windMin))
                for i in range(len(m.forcIP.temp))]
        tag = 'h_temp %s, h_obs %s' % (m.h_temp, m.h_obs)
        objs.append(('RSM of a generated model (%s, %d levels)' % (tag, m.RSM.nzref), m.RSM, m.geoParam, rows))
        objs.append(('USM of a generated model (%s, %d levels)' % (tag, m.USM.nzref), m.USM, m.geoParam, rows))
        for href in ((90.0, 600.0) if kw is models[0] else (250.0,)):
            gp = copy.copy(m.geoParam)
            gp.refHeight = href
            o = RSMDef(m.lat, m.lon, m.gmt, m.h_obs, m.weather.staTemp[0], m.weather.staPres[0], gp, m.Z_MESO_PATH)
            objs.append(('RSMDef(refHeight %g m: %d levels)' % (href, o.nzref), o, gp, rows))
    # (e) rural columns built by the real constructor from FINER mesoscale height files handed over through its public
    # `z_meso_path` argument (what `UWG.Z_MESO_PATH` feeds it): 76 .. 601 levels, on both sides of 256 / 257 / 258
    fine_objs = []
    m0 = m
    for label, spacing, fine_top, href, nlev in (W4.FINE_MESO[:3] if quick else W4.FINE_MESO):
        path = os.path.join(chk.work(), 'z_meso_fine_%s_%s.txt' % (spacing, href))
        W4.write_z_meso(path, spacing, fine_top)
        gp = copy.copy(m0.geoParam)
        gp.refHeight = href
        o = RSMDef(m0.lat, m0.lon, m0.gmt, m0.h_obs, m0.weather.staTemp[0], m0.weather.staPres[0], gp, path)
        fine_objs.append(('RSMDef(z_meso_path = a file with %s: %d levels)' % (label, o.nzref), o, gp, rows))
    bad, br, nsteps = [], {}, [0]

    def step(o, gp, rows, dt, s, what, case):
        forc = rows[(7 * s + 3) % len(rows)]
        sens = _sens_of_hour((5 * s + 1) % 24) * (1.0 if s % 3 else 0.37)
        pre = list(o.tempProf)
        got.clear()
        o.vdm(forc, NS(sens=sens), gp, NS(dt=dt))
        nsteps[0] += 1
        msg = float_step_msg(o, forc, dt, pre, got.get('cd'))
        if msg and len(bad) < 3:
            bad.append((dict(case, **{'time step dt (s)': dt, 'step of this object': s, 'object': what,
                                      'forcing': {'temp': forc.temp, 'pres': forc.pres, 'wind': forc.wind},
                                      'rural sensible heat flux': sens,
                                      'profile before (lowest 6 levels)': pre[:6],
                                      'profile after (lowest 6 levels)': list(o.tempProf[:6]),
                                      'calls of diffusion_equation in this step': got.get('calls')}), msg))
        return msg
    RSMDef.diffusion_coefficient = spy_coef
    RSMDef.diffusion_equation = staticmethod(spy_eq)
    try:
        # (a) every object x every legal time step, a fresh copy each
        per = 3 if quick else 12
        for what, o0, gp, rows in objs:
            for dt in V4.DIVISORS:
                o = copy.deepcopy(o0)
                for s in range(per):
                    step(o, gp, rows, float(dt) if s % 2 == 0 else dt, s, what, {'family': 'fresh object per time step'})
                br['dt=%d' % dt] = br.get('dt=%d' % dt, 0) + per
        # (b) ONE object through all 45 time steps, ascending, descending, shuffled
        for what, o0, gp, rows in objs[:2 if quick else len(objs)]:
            o = copy.deepcopy(o0)
            order = list(V4.DIVISORS) + list(reversed(V4.DIVISORS)) + rng.sample(V4.DIVISORS, 45)
            for s, dt in enumerate(order):
                step(o, gp, rows, float(dt), s, what, {'family': 'one object through all 45 time steps (up, down, shuffled)'})
            br['history:135 steps on one object'] = br.get('history:135 steps on one object', 0) + 1
        # (c) objects with fewer / more levels stepped alternately, both orders, vs twins stepped alone
        sized = sorted(objs, key=lambda t: t[1].nzref)
        pairs_ = [(sized[0], sized[-1]), (sized[-1], sized[0])]
        if not quick:
            pairs_ += [(sized[1], sized[-2]), (sized[-2], sized[1]), (sized[0], sized[len(sized) // 2])]
        for (wa, a0, gpa, ra), (wb, b0, gpb, rb) in pairs_:
            a, b, a1, b1 = (copy.deepcopy(x) for x in (a0, b0, a0, b0))
            dts = [rng.choice(V4.DIVISORS) for _ in range(8)]
            for s, dt in enumerate(dts):
                step(a, gpa, ra, float(dt), s, wa, {'family': 'two objects of different size stepped alternately', 'other': wb})
                step(b, gpb, rb, float(dt), s, wb, {'family': 'two objects of different size stepped alternately', 'other': wa})
            for s, dt in enumerate(dts):
                step(b1, gpb, rb, float(dt), s, wb, {'family': 'twin stepped alone'})
            for s, dt in enumerate(dts):
                step(a1, gpa, ra, float(dt), s, wa, {'family': 'twin stepped alone'})
            key = 'alternating:%d+%d levels' % (a0.nzref, b0.nzref)
            br[key] = br.get(key, 0) + 1
            for o, o1, w in ((a, a1, wa), (b, b1, wb)):
                if (list(o.tempProf), list(o.windProf), list(o.presProf)) != (list(o1.tempProf), list(o1.windProf), list(o1.presProf)) \
                        and len(bad) < 3:
                    lv = [p != q for p, q in zip(o.tempProf, o1.tempProf)]
                    bad.append(({'family': 'two objects of different size stepped alternately vs alone', 'objects': [wa, wb],
                                 'time steps': dts}, '%s: after 8 steps its profiles differ from those of an identical '
                                 'object stepped alone with the same inputs (first differing level of tempProf: %s)' % (
                                     w, lv.index(True) if True in lv else 'none - windProf / presProf differ')))
        # (d) an interrupted step: KeyboardInterrupt / SystemExit / GeneratorExit (BaseException, not Exception) raised
        # inside vdm - before the coefficients are computed, or right before the solve -, caught by the caller, then the
        # normal sequence: must equal a twin that was never interrupted (bit for bit) and satisfy the statement
        for n_int, (what, o0, gp, rows) in enumerate(objs[:3 if quick else len(objs)]):
            for exc, where in ((KeyboardInterrupt, 'diffusion_equation'), (SystemExit, 'diffusion_coefficient'),
                               (GeneratorExit, 'diffusion_equation')):
                o, twin = copy.deepcopy(o0), copy.deepcopy(o0)
                dts = [rng.choice(V4.DIVISORS) for _ in range(4)]
                for s, dt in enumerate(dts):
                    if s == 1 + n_int % 2:
                        forc = rows[(7 * s + 3) % len(rows)]
                        got.clear()
                        got.update(interrupt=where)
                        got['with'] = exc
                        try:
                            o.vdm(forc, NS(sens=41.5), gp, NS(dt=float(dt)))
                        except BaseException as e:  # noqa: BLE001
                            if not isinstance(e, exc):
                                raise
                    case = {'family': 'step interrupted by %s inside %s, caught, then the normal sequence' % (exc.__name__, where)}
                    step(o, gp, rows, float(dt), s, what, case)
                    step(twin, gp, rows, float(dt), s, what, {'family': 'twin never interrupted'})
                key = 'interrupted:%s in %s' % (exc.__name__, where)
                br[key] = br.get(key, 0) + 1
                if (list(o.tempProf), list(o.windProf), list(o.presProf), list(o.densityProfC)) != \
                        (list(twin.tempProf), list(twin.windProf), list(twin.presProf), list(twin.densityProfC)) and len(bad) < 3:
                    bad.append((dict(case, object=what, **{'time steps': dts}),
                                'after the interrupted call was caught and the steps repeated normally, the profiles differ '
                                'from those of an identical object that was never interrupted'))
        # (e) the columns from finer height files: a few steps at a few legal time steps each, one object throughout
        for what, o0, gp, rows in fine_objs:
            o = copy.deepcopy(o0)
            for s, dt in enumerate((300, 300, 60, 900, 3600, 225) if quick else (300, 300, 60, 900, 3600, 225, 1, 80, 1800, 300, 300, 300)):
                step(o, gp, rows, float(dt), s, what, {'family': 'finer mesoscale height file through z_meso_path'})
            key = 'fine-z_meso:%d levels' % o0.nzref
            br[key] = br.get(key, 0) + 1
    finally:
        RSMDef.diffusion_coefficient = o_coef
        RSMDef.diffusion_equation = o_eq
    for case, msg in bad:
        chk.violation('impl-violation', 'C16 through whole vdm steps at every legal time step (doubles)', case=case,
                      observed=msg,
                      expected='lowest level = measured temperature; top two levels equal; no new extreme; for every '
                               'interior level da dz (new - old) = dt (flux in - flux out) with the fluxes of the new '
                               'profile, dt = the time step of the simulation (1e-9 relative): the profile is the '
                               'solution of the diffusion system for the WHOLE step and the interior heat content changes '
                               'by dt x the flux through the lowest interface')
    chk.direct('vdm-whole-step-oracle(doubles, all 45 legal time steps)', nsteps[0], nsteps[0],
               'plain float RSMDef.vdm on the RSM / USM objects of really generated models (shipped heights; sensor at 10 m '
               'above obstacles of 5 m; thorough: two more) and on objects built by the real constructor with fewer / more '
               'levels (refHeight 90 / 250 / 600 m: %s), forcing = rows of the rural file, rural heat flux of a synthetic day '
               '(stable and unstable): (a) a fresh copy of every object stepped %d times at EACH of the 45 divisors of '
               '3600 s (dt handed over as float and as int), (b) one object through all 45 time steps ascending, '
               'descending and shuffled, (c) objects of different size stepped alternately in both orders, bit-identical '
               'to twins stepped alone, (d) a step interrupted by KeyboardInterrupt / SystemExit / GeneratorExit raised inside '
               'vdm (before the coefficients / right before the solve), caught, then the normal sequence: bit-identical to a '
               'twin never interrupted, (e) rural columns built by the real constructor from FINER mesoscale height files '
               'through its public z_meso_path argument (1 m / 0.5 m / 2 m / 0.25 m levels: %s levels - both sides of 256 / '
               '257 / 258), one object through several legal time steps. After every call, from the pre-state and the step\'s own dt only: bottom, top, '
               'bounds, and level by level da dz (new - old) = dt x (flux in - flux out) of the new profile (1e-9), i.e. '
               'exact solution for the whole step and conservation with respect to the time step'
               % (sorted(set(o.nzref for _, o, _, _ in objs)), per, sorted(set(o.nzref for _, o, _, _ in fine_objs))),
               mismatches=len(bad), branches=br)


def case_json(cs):
    def j(v):
        if isinstance(v, F):
            return str(v)
        if isinstance(v, list):
            return [j(x) for x in v]
        if isinstance(v, dict):
            return {k: j(x) for k, x in v.items()}
        return v
    return {k: j(v) for k, v in cs.items()}


def case_unjson(d):
    def u(v):
        if isinstance(v, str):
            try:
                return F(v)
            except ValueError:
                return v
        if isinstance(v, list):
            return [u(x) for x in v]
        if isinstance(v, dict):
            return {k: (x if k in ('kind', 'ptk', 'nz', 'nzref', 'nzfor') else u(x))
                    for k, x in v.items()}
        return v
    return u(d)


def replay_case(raw):
    """Replay of the violations recorded by run_coef. Returns None when the case is not ours,
    else (ok, text)."""
    if not isinstance(raw, dict):
        return None
    fracexec.load()
    if 'object' in raw:
        ob, pre, step = (case_unjson(raw[k]) for k in ('object', 'pre', 'step'))
        ob = dict(ob, st=pre)
        obj = make_object(ob)
        r, te, eq = run_step(obj, ob, step)
        msg = oracle_vdm(ob, pre, step, r, te, eq)
        return msg is None, 'vdm step: %s' % (msg or 'property holds on this input')
    if 'heat' in raw and 'th' in raw:
        cs = case_unjson(raw)
        msg = oracle_coef(cs, impl_coef(cs))
        fmsg = None
        if cs.get('kind') in ('unstable', 'stable', 'neutral', 'threshold'):
            fmsg, _ = float_oracle_coef(cs)
        return not (msg or fmsg), 'diffusion_coefficient: %s' % (msg or fmsg or
                                                                 'property holds on this input')
    if 'te' in raw and 'pt' in raw:
        cs = case_unjson(raw)
        r = impl_dissip(cs)
        bad = (not isinstance(r, str) and grid_ok(cs['nz'], cs['z'], cs['dz']) and
               (any(v < 0 for v in r[0]) or any(v < 0 for v in r[1])))
        return not bad, 'dissipation_bougeault: %s' % ('negative length scale' if bad else
                                                      'property holds on this input')
    return None
