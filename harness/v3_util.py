"""Shared helpers of the fifth strengthening round (checks C11, C12, C13, C18).

Three families that no earlier round explored:

  * documented element state that is 0 / default in every generated model but that callers may set - here the water
    film `Element.waterStorage` (the package's own tests set `rural.waterStorage = 0.005`), together with the
    orientation flag, vegetated walls / roofs and the bookkeeping attributes SurfFlux leaves behind: `FILMS` (the
    members), `film_param` (a Param stand-in carrying the package's constants, which the film branch needs for qsat),
    `set_film`, `film_eg`, `stored_heat`. Used by C11 (energy oracle) and C18 (season / partition oracle);
  * re-use of an exported kernel object for more than one call (`SolarCalcs` driven over several suns): every call
    of the re-used object against a FRESH object built on the inputs as they are at that call: `solar_surfaces`,
    `first_surface_difference`. Used by C13;
  * the REAL float step loop of `simulate()` with the REAL `SolarCalcs` and everything after the solar update
    stubbed, observed BETWEEN the solar update and the rest of the step, for sub-minute and off-minute time steps:
    `sun_driver_run`, `true_instant`, `SUBMINUTE`, `OFFMINUTE`. Used by C12.
"""
import contextlib
import io
import math
import sys
from fractions import Fraction as F
from types import SimpleNamespace as NS

# ------------------------------------------------------------------------------------------ water film family
# (label, depth in m as decimal text).  wgmax (the package's cap) is 0.005; `is_near_zero` treats |x| < 1e-10 as 0.
FILMS = (('dry', '0'),
         ('below the is_near_zero tolerance (counts as dry)', '1e-20'),
         ('just above the tolerance, 3e-10 m', '3e-10'),
         ('thin 0.0004 m', '0.0004'),
         ('0.0021 m', '0.0021'),
         ('0.005 m as tests/test_element.py sets it (= wgmax)', '0.005'),
         ('0.02 m, above wgmax', '0.02'))
WET = tuple(f for f in FILMS if F(f[1]) >= F(1, 10 ** 10))

# the physical constants UWG hands to Param (uwg/uwg.py class attributes), as the decimals written there
PHYS = dict(cp='1004', r='287', rv='461.5', lv='2.26e6', waterDens='1000', lvtt='2.5008e6', tt='273.16',
            estt='611.14', cl='4.218e3', cpv='1846.1', wgmax='0.005')


def conv_of(mode):
    """exact: Fractions as they are; float: plain floats"""
    return (lambda x: x) if mode == 'exact' else float


def film_param(conv, vegStart, vegEnd, vegAlbedo, grassFLat, treeFLat, colburn=None):
    """what Element.SurfFlux reads from the Param object, with the constants of the package (the film branch
    evaluates qsat and so needs all of them)"""
    p = NS(vegStart=vegStart, vegEnd=vegEnd, vegAlbedo=conv(vegAlbedo), grassFLat=conv(grassFLat),
           treeFLat=conv(treeFLat))
    for k, v in PHYS.items():
        setattr(p, k, conv(F(v)))
    if colburn is not None:
        p.colburn = conv(F(colburn))
    else:               # exact runs: a rational stand-in (the package's value is an irrational power)
        p.colburn = (0.713 / 0.621) ** (2 / 3.) if isinstance(conv(F(1)), float) else F(11, 10)
    return p


def film_eg(el_qsat, aero, t0, pres, dens, hum, par):
    """evaporation rate [m/s] of the film as the package states it (uwg eq. for `eg`), from the element's own qsat"""
    qt = el_qsat([t0], [pres], par)[0]
    return aero * par.colburn * dens * (qt - hum) / par.waterDens / par.cp


def set_film(el, conv, depth):
    """a caller sets the film the way the package's own tests do: plain attribute assignment after construction"""
    el.waterStorage = conv(F(depth)) if F(depth) != 0 else 0
    return el


def stored_heat(d, c, temps, upto=None):
    n = len(d) if upto is None else upto
    return sum(F(c[j]) * F(d[j]) * F(temps[j]) for j in range(n))


# ------------------------------------------------------------------------------------------ SolarCalcs re-use
def solar_surfaces(sc):
    """everything a solarcalcs() call hands to the surfaces and to the canyon, read off the objects the SolarCalcs
    instance works on"""
    u = sc.UCM
    return dict(road=u.road.solRec, rural=sc.rural.solRec,
                roofs=tuple(b.roof.solRec for b in sc.BEM), walls=tuple(b.wall.solRec for b in sc.BEM),
                SolRecRoof=getattr(u, 'SolRecRoof', None), SolRecRoad=getattr(u, 'SolRecRoad', None),
                SolRecWall=getattr(u, 'SolRecWall', None), treeSens=getattr(u, 'treeSensHeat', None),
                treeLat=getattr(u, 'treeLatHeat', None))


def first_surface_difference(a, b):
    for k in ('walls', 'roofs', 'road', 'rural', 'SolRecRoof', 'SolRecRoad', 'SolRecWall', 'treeSens', 'treeLat'):
        if a[k] != b[k]:
            return k
    return None


# ------------------------------------------------------------------------------------------ the sun inside the loop
DIVISORS = [d for d in range(1, 3601) if 3600 % d == 0]
SUBMINUTE = [d for d in DIVISORS if d <= 30]                       # 17 of them: 60 // dt >= 2
OFFMINUTE = [d for d in DIVISORS if d > 30 and 60 % d and d % 60]  # 40, 45, 48, 50, 72, 75, 80, 90, 100, ...
MDAYS = [31, 28, 31, 30, 31, 30, 31, 31, 30, 31, 30, 31]


def true_instant(month0, day0, it, dt):
    """(month, day, second of the day) reached `it` steps of `dt` s after 00:00 of month0/day0, from an independent
    365-day calendar (not from the model's clock)"""
    tot = it * dt
    doy = sum(MDAYS[:month0 - 1]) + day0 - 1 + tot // 86400
    doy %= 365
    m = 0
    while doy >= MDAYS[m]:
        doy -= MDAYS[m]
        m += 1
    return m + 1, doy + 1, tot % 86400


class _Enough(BaseException):
    """raised by the observer to abandon a run once its budget of observed steps is used up"""


class SunRun(object):
    def __init__(self):
        self.steps = 0            # steps observed
        self.sunlit = 0           # ... of which the rural row in force reports sun
        self.angle_calls = 0      # solarangles calls seen
        self.constructed = 0      # SolarCalcs objects constructed by the loop
        self.calls = 0            # solarcalcs() calls
        self.problems = []        # (kind, step dict, observed, expected)
        self.error = None
        self.abandoned = False
        self.records = 0
        self.skipped = 0          # steps at which the loop did not construct / call exactly one SolarCalcs


def sun_driver_run(model, month0, day0, site, zen_of, budget=None, max_problems=3, ref=None, tol=None):
    """The REAL `model.simulate()` (float arithmetic, the package's own step loop and clock) with the REAL SolarCalcs;
    everything the loop calls AFTER the solar update is replaced by no-ops from outside (urbflux, UCModel, ublmodel,
    vdm, psychrometrics), and `rural.SurfFlux` - the first physics call after the solar update - is the observation
    point. At every step, BETWEEN the solar update and the rest of the step:

      * the radiation `model.solar` (documented: "SolarCalcs object for current timestep solar calculation") worked
        with is the radiation of the forcing in force at this step;
      * if that row reports sun: the zenith in use (`model.solar.zenith`) is bit-identical to the routine evaluated
        stand-alone (`zen_of(month, day, sec)`) for the header site at the TRUE instant of the step - start date +
        it x dt from an independent calendar, not the model's clock - and (if `ref`) agrees with the independent
        transcription of the formula to `tol` in cos;
      * (counted, not judged: whether the loop constructed exactly one SolarCalcs and called it once at the step)
      * the rural site's received short-wave is direct-normal x cos(that zenith), clipped at 0, + diffuse (bit for
        bit), and so is every roof's.

    `budget`: number of sunlit steps after which the run is abandoned (quick tier, sub-minute steps)."""
    import uwg.uwg as U
    from uwg.solarcalcs import SolarCalcs as RealSC
    run = SunRun()
    dt = int(model.simTime.dt)
    state = {'new': 0, 'calls': 0, 'last': None}

    class Rec(RealSC):
        def __init__(self, *a, **k):
            RealSC.__init__(self, *a, **k)
            state['new'] += 1
            state['last'] = self
            run.constructed += 1

        def solarcalcs(self):
            state['calls'] += 1
            run.calls += 1
            return RealSC.solarcalcs(self)

        def solarangles(self):
            run.angle_calls += 1
            return RealSC.solarangles(self)

    def problem(kind, at, observed, expected):
        if len(run.problems) < max_problems:
            run.problems.append((kind, at, observed, expected))

    def observe(forc, parameter, simTime, *a, **k):
        fl = sys._getframe(1).f_locals
        it = fl.get('it')
        run.steps += 1
        st = model.simTime
        mo, dy, sec = true_instant(month0, day0, it, dt)
        at = {'step': it, 'true_instant(month, day, second)': [mo, dy, sec],
              'model_clock(month, day, secDay)': [st.month, int(st.day), st.secDay]}
        if state['new'] != 1 or state['calls'] != 1 or model.solar is not state['last']:
            run.skipped += 1          # (information, not a verdict: the property speaks about the position in use)
        state['new'] = state['calls'] = 0
        sol = model.solar
        sun = (forc.dir + forc.dif) > 0.
        if (sol.dir, sol.dif) != (forc.dir, forc.dif):
            problem('the solar object in use worked with the radiation of another step', at, (sol.dir, sol.dif),
                    (forc.dir, forc.dif))
        if sun:
            run.sunlit += 1
            z = zen_of(mo, dy, sec)
            zin = getattr(sol, 'zenith', None)
            if zin != z:
                problem('the sun position in use is not that of the current time step', at,
                        'zenith in use %r rad%s' % (zin, '' if zin is None or z is None else
                                                    ' (%.4f deg from the position of this step)' % math.degrees(abs(zin - z))),
                        'zenith of the routine itself for the header site %r at the true instant: %r rad' % (site, z))
            elif ref is not None and abs(math.cos(zin) - ref(mo, dy, sec, *site)) > tol:
                problem('cos(zenith) in use vs the independent transcription of the formula', at, math.cos(zin),
                        ref(mo, dy, sec, *site))
            if z is not None:
                want = max(math.cos(z) * forc.dir, 0.0) + forc.dif
                got = [('rural site', model.rural.solRec)] + [('roof of BEM[%d]' % j, b.roof.solRec)
                                                              for j, b in enumerate(model.BEM)]
                for nm, g in got:
                    if g != want:
                        problem('horizontal irradiance is not direct-normal x cos(zenith of this step) + diffuse', at,
                                '%s receives %r W/m2 (direct-normal %r, diffuse %r)' % (nm, g, forc.dir, forc.dif),
                                '%r W/m2 with the zenith of this step (%r rad)' % (want, z))
                        break
            if budget is not None and run.sunlit >= budget:
                run.abandoned = True
                raise _Enough()
        else:
            if model.rural.solRec != 0 or any(b.roof.solRec != 0 or b.wall.solRec != 0 for b in model.BEM):
                problem('surfaces keep short-wave of an earlier step although the row in force reports no sun', at,
                        'rural %r, roofs %r' % (model.rural.solRec, [b.roof.solRec for b in model.BEM]), 'all zero')

    def _urbflux(UCM, UBL, BEM, forc, geoParam, simTime, RSM):
        return UCM, UBL, BEM

    def _psy(*a):
        run.records += 1
        return 0., 0., 0., 0., 0., 0.

    def _noop(*a, **k):
        return None

    saved = {k: getattr(U, k) for k in ('SolarCalcs', 'urbflux', 'psychrometrics')}
    inst = [(model.UCM, 'UCModel', _noop), (model.UBL, 'ublmodel', _noop), (model.rural, 'SurfFlux', observe),
            (model.RSM, 'vdm', _noop)]
    try:
        U.SolarCalcs, U.urbflux, U.psychrometrics = Rec, _urbflux, _psy
        for o, name, fn in inst:
            setattr(o, name, fn)
        with contextlib.redirect_stdout(io.StringIO()):
            try:
                model.simulate()
            except _Enough:
                pass
            except Exception as e:  # noqa: BLE001 - classified by the caller
                run.error = '%s: %s' % (type(e).__name__, str(e)[:160])
    finally:
        for k, v in saved.items():
            setattr(U, k, v)
        for o, name, _fn in inst:
            try:
                delattr(o, name)
            except AttributeError:
                pass
    return run
