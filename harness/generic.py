"""Families of *circumstances* that must not matter to any property: who looks at the objects, what the logging
level is, whether the interpreter strips asserts, whether the call comes through the command line, whether another
model lives in the process, whether the caller keeps using the data it handed in. Each check applies them to ITS OWN
oracle (a scenario that builds a model, runs it and returns an observable); the helpers here only create the
circumstance and compare.

All helpers work on the package of the tree under test (core.REPO)."""
import contextlib
import copy
import hashlib
import io
import json
import logging
import os
import subprocess
import sys
import textwrap

import core
import uwgutil as U

PY = sys.executable or '/venv/bin/python'


# ------------------------------------------------------------------------------------------- looking at objects
LIBRARY_ATTRS = ('_refBEM', '_refSchedule', 'refBEM', 'refSchedule')


def uwg_objects(root, limit=4000, library=False):
    """every object of a uwg class reachable from `root` (attributes, list / tuple / dict members), root first;
    the 2 x 768 objects of the reference library are left out unless library=True"""
    seen, order, stack = set(), [], [root]
    while stack and len(order) < limit:
        o = stack.pop()
        if id(o) in seen:
            continue
        seen.add(id(o))
        mod = getattr(type(o), '__module__', '') or ''
        if mod == 'uwg' or mod.startswith('uwg.'):
            order.append(o)
            try:
                stack.extend(v for k, v in vars(o).items() if library or k not in LIBRARY_ATTRS)
            except TypeError:
                pass
        elif isinstance(o, (list, tuple)):
            stack.extend(o[:64])
        elif isinstance(o, dict):
            stack.extend(list(o.values())[:64])
    return order


def poke(root):
    """What a debugger pane, a notebook cell, a log statement or print() does: repr / str / ToString of the model
    and of every uwg object reachable from it. Exceptions of a repr are ignored (an unfinished object may not be
    printable); what must not happen is a change of state. Returns the number of objects rendered."""
    n = 0
    for o in uwg_objects(root):
        for f in (repr, str):
            try:
                f(o)
            except Exception:  # noqa
                pass
        ts = getattr(o, 'ToString', None)
        if callable(ts):
            try:
                ts()
            except Exception:  # noqa
                pass
        n += 1
    return n


@contextlib.contextmanager
def debug_logging():
    """DEBUG level on the root logger and on every `uwg` logger, with a handler that formats every record (so that
    lazily evaluated arguments ARE evaluated), as an application or a test helper might configure it."""
    buf = io.StringIO()
    h = logging.StreamHandler(buf)
    h.setLevel(logging.DEBUG)
    h.setFormatter(logging.Formatter('%(name)s %(levelname)s %(message)s'))
    root = logging.getLogger()
    names = [n for n in list(logging.root.manager.loggerDict) if n == 'uwg' or n.startswith('uwg.')] + ['uwg']
    saved = [(root, root.level, root.disabled)] + [(logging.getLogger(n), logging.getLogger(n).level,
                                                   logging.getLogger(n).disabled) for n in names]
    root.addHandler(h)
    disabled_below = logging.root.manager.disable      # an earlier logging.disable(...) would silence everything
    logging.disable(logging.NOTSET)
    try:
        for lg, _, _ in saved:
            lg.setLevel(logging.DEBUG)
            lg.disabled = False
        yield buf
    finally:
        logging.disable(disabled_below)
        root.removeHandler(h)
        for lg, lvl, dis in saved:
            lg.setLevel(lvl)
            lg.disabled = dis


def poke_during(model, every=41):
    """make `simulate()` of this model render the whole model every `every`-th time step (instance-level wrapper
    around UCM.UCModel, removed by the returned function)"""
    ucm = getattr(model, 'UCM', None)
    if ucm is None:
        return lambda: None
    orig = ucm.UCModel
    state = {'n': 0}

    def wrapped(*a, **k):
        r = orig(*a, **k)
        state['n'] += 1
        if state['n'] % every == 0:
            poke(model)
        return r
    ucm.UCModel = wrapped

    def undo():
        try:
            del ucm.UCModel
        except AttributeError:
            pass
    return undo


def run_plain(make):
    """generate; simulate; write_epw of make() -> (records, file bytes hash)"""
    m = make()
    with core.quiet():
        m.generate()
        m.simulate()
        m.write_epw()
    return m, U.records(m), file_hash(m.new_epw_path)


def run_observed(make, during=True, logging_on=True):
    """the same run while somebody looks: DEBUG logging on, the model rendered after construction, after generate(),
    during simulate() and before write_epw()"""
    ctx = debug_logging() if logging_on else contextlib.nullcontext()
    with ctx:
        m = make()
        poke(m)
        with core.quiet():
            m.generate()
        poke(m)
        undo = poke_during(m) if during else (lambda: None)
        try:
            with core.quiet():
                m.simulate()
        finally:
            undo()
        poke(m)
        with core.quiet():
            m.write_epw()
    return m, U.records(m), file_hash(m.new_epw_path)


def file_hash(path):
    return hashlib.sha256(open(path, 'rb').read()).hexdigest()


def first_diff(a, b):
    for i, (x, y) in enumerate(zip(a, b)):
        if x != y:
            return i, x, y
    return (min(len(a), len(b)), None, None) if len(a) != len(b) else None


# ------------------------------------------------------------------------------------------- child interpreters
def child(code, optimize=False, env=None, timeout=900, args=()):
    """run `code` in a fresh interpreter of the tree under test (python -O when optimize): (rc, stdout, stderr).
    The code sees REPO first on sys.path and the harness directory after it."""
    e = dict(os.environ)
    e['PYTHONPATH'] = os.pathsep.join([core.REPO, os.path.dirname(os.path.abspath(__file__))])
    e['PYTHONDONTWRITEBYTECODE'] = '1'
    e.pop('PYTHONOPTIMIZE', None)
    e.update(env or {})
    cmd = [PY] + (['-O'] if optimize else []) + ['-c', textwrap.dedent(code)] + list(args)
    p = subprocess.run(cmd, capture_output=True, text=True, timeout=timeout, env=e, cwd=core.REPO)
    return p.returncode, p.stdout, p.stderr


def child_json(code, **kw):
    """child() whose code prints one JSON document on its last stdout line"""
    rc, out, err = child(code, **kw)
    last = [l for l in out.split('\n') if l.strip()]
    try:
        return rc, json.loads(last[-1]) if last else None, err
    except ValueError:
        return rc, None, err + '\n(stdout: %s)' % out[-400:]


CHILD_PRELUDE = '''
import sys, os, io, json, contextlib, hashlib
import uwg
from uwg import UWG
def quiet():
    return contextlib.redirect_stdout(io.StringIO())
def fhash(p):
    return hashlib.sha256(open(p, 'rb').read()).hexdigest()
def recs(m):
    out = []
    for n in range(len(m.UCMData)):
        u, w = m.UCMData[n], m.WeatherData[n]
        out.append(None if u is None or w is None else [repr(u.canTemp), repr(u.canHum), repr(u.canRHum), repr(u.Tdp), repr(w.wind), repr(w.temp)])
    return out
'''


# ------------------------------------------------------------------------------------------- command line
def cli(args, timeout=900, optimize=False, env=None):
    """`python -m uwg <args>` of the tree under test: (rc, stdout, stderr)"""
    e = dict(os.environ)
    e['PYTHONPATH'] = core.REPO
    e['PYTHONDONTWRITEBYTECODE'] = '1'
    e.pop('PYTHONOPTIMIZE', None)
    e.update(env or {})
    cmd = [PY] + (['-O'] if optimize else []) + ['-m', 'uwg'] + list(args)
    p = subprocess.run(cmd, capture_output=True, text=True, timeout=timeout, env=e, cwd=core.REPO)
    return p.returncode, p.stdout, p.stderr


def cli_simulate_model(model_dict, epw_path, outdir, name='cli_out.epw', extra=()):
    """write the dictionary as JSON and run `uwg simulate model <json> <epw> --new-epw-dir --new-epw-name`;
    returns (rc, path of the written file or None, stderr)"""
    os.makedirs(outdir, exist_ok=True)
    jp = os.path.join(outdir, 'cli_model.json')
    with open(jp, 'w') as f:
        json.dump(model_dict, f)
    out = os.path.join(outdir, name)
    if os.path.exists(out):
        os.remove(out)
    rc, so, se = cli(['simulate', 'model', jp, epw_path, '--new-epw-dir', outdir, '--new-epw-name', name] + list(extra))
    return rc, (out if os.path.exists(out) else None), se


def cli_simulate_param(uwg_path, epw_path, outdir, name='cli_out.epw', extra=()):
    os.makedirs(outdir, exist_ok=True)
    out = os.path.join(outdir, name)
    if os.path.exists(out):
        os.remove(out)
    rc, so, se = cli(['simulate', 'param', uwg_path, epw_path, '--new-epw-dir', outdir, '--new-epw-name', name] + list(extra))
    return rc, (out if os.path.exists(out) else None), se


# ------------------------------------------------------------------------------------------- caller-owned data
def snapshot(x):
    """a deep, comparison-friendly copy of plain data (dict / list / tuple / numbers / str / None)"""
    return copy.deepcopy(x)


def plain_equal(a, b):
    """== for plain data that also tells int from float and list from tuple (json round trips care)"""
    if type(a) is not type(b):
        return False
    if isinstance(a, dict):
        return list(a.keys()) == list(b.keys()) and all(plain_equal(a[k], b[k]) for k in a)
    if isinstance(a, (list, tuple)):
        return len(a) == len(b) and all(plain_equal(x, y) for x, y in zip(a, b))
    if isinstance(a, float) and a != a:
        return b != b
    return a == b


def where_differs(a, b, path=''):
    if type(a) is not type(b):
        return '%s: %s vs %s' % (path or '<root>', type(a).__name__, type(b).__name__)
    if isinstance(a, dict):
        for k in list(a.keys()) + [k for k in b if k not in a]:
            if k not in a or k not in b:
                return '%s: key %r %s' % (path or '<root>', k, 'removed' if k in a else 'added')
            w = where_differs(a[k], b[k], '%s[%r]' % (path, k))
            if w:
                return w
        return None
    if isinstance(a, (list, tuple)):
        if len(a) != len(b):
            return '%s: length %d vs %d' % (path or '<root>', len(a), len(b))
        for i, (x, y) in enumerate(zip(a, b)):
            w = where_differs(x, y, '%s[%d]' % (path, i))
            if w:
                return w
        return None
    return None if plain_equal(a, b) else '%s: %r vs %r' % (path or '<root>', a, b)


# ------------------------------------------------------------------------------------------- process-level state
def class_level_digest():
    """digest of every module-level and class-level object of the package (mutable class constants, default tables):
    must be the same before and after any operation on any model. The lazily imported sub-modules are imported
    first, so that a later import is not mistaken for a change."""
    core.repo_python_path()
    import importlib
    for name in ('uwg.readDOE', 'uwg.cli', 'uwg.cli.simulate', 'uwg.cli.validate'):
        try:
            importlib.import_module(name)
        except Exception:  # noqa
            pass
    return U.package_globals_digest()
