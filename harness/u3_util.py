"""Shared helpers of the fourth strengthening round ("circumstances") for C11, C12, C13 and the EPW-header ties.

What is here (the checks state in their `rule` texts what they explore with it):

  * `render` / `kernel_objects`   what a debugger pane / print() / a log line does to kernel objects (also of the
                                  fractionised package `uwgfrac`, which generic.poke does not follow)
  * `state` / `class_digest`      plain, comparison-friendly copies of kernel objects and of class-level data
  * live monitors                 `ConductionMonitor` (C11: every Conduction call of a live run is pure, returns a new
                                  list and balances), `SunMonitor` (C12: the site handed to the sun-position routine is
                                  the LOCATION line of the rural file in force, the date of the sun is the date of the
                                  forcing row), `AbsorbMonitor` (C13: every canyon surface absorbs the complement of
                                  what the reflection scheme reflects; canyon budget)
  * `run_scenario`                one live run (dictionary route) under a chosen set of circumstances, in this process
                                  or - `child_scenario` - in a fresh interpreter (python -O), or through the command
                                  line executed INSIDE a monitored child (`cli_scenario`), so that the property's own
                                  oracle is evaluated on every route
  * CLI introspection             `cli_surface`: the commands / options the command line offers (declared click types),
                                  `option_members`: values to explore for an option the library route has no
                                  counterpart for
  * dictionary route              `element_dict_members`: hand-edited Element dictionaries (optional keys present /
                                  absent / null, numbers as int / float / numeric text, flags as bool / int / float /
                                  text) with the verdict of the unchanged tree; `planted_wall_data`: a UWG dictionary
                                  whose custom archetype has a light, planted facade (where the `horizontal` flag of a
                                  wall matters to the short-wave budget)
"""
import contextlib
import copy
import csv
import io
import json
import math
import os
import sys
import types
from fractions import Fraction

import core
import uwgutil as U

PREFIXES = ('uwg', 'uwgfrac')
NS = types.SimpleNamespace


# ===================================================================================== observers of kernel objects
def _is_pkg(o):
    mod = getattr(type(o), '__module__', '') or ''
    return any(mod == p or mod.startswith(p + '.') for p in PREFIXES)


def kernel_objects(root, limit=600):
    """every object of a uwg class (plain or fractionised package) reachable from root through attributes, list /
    tuple / dict members and SimpleNamespace stand-ins; root first"""
    seen, order, stack = set(), [], [root]
    while stack and len(order) < limit:
        o = stack.pop()
        if id(o) in seen:
            continue
        seen.add(id(o))
        if _is_pkg(o):
            order.append(o)
            try:
                stack.extend(vars(o).values())
            except TypeError:
                pass
        elif isinstance(o, NS):
            stack.extend(vars(o).values())
        elif isinstance(o, (list, tuple)):
            stack.extend(o[:64])
        elif isinstance(o, dict):
            stack.extend(list(o.values())[:64])
    return order


RENDERERS = ('repr', 'str', '%r', '%s', 'format', 'ToString', 'to_dict', 'copy', 'deepcopy', 'vars')


def render(root, how=RENDERERS):
    """What somebody who LOOKS at kernel objects does: repr / str / %-formatting / format() / ToString / to_dict of the
    object and of every uwg object reachable from it, a shallow and a deep copy (thrown away), a walk over vars().
    Exceptions of a renderer are ignored; what must not happen is a change of state. Returns the number of objects."""
    n = 0
    for o in kernel_objects(root):
        for h in how:
            try:
                if h == 'repr':
                    repr(o)
                elif h == 'str':
                    str(o)
                elif h == '%r':
                    '%r' % (o,)
                elif h == '%s':
                    '%s' % (o,)
                elif h == 'format':
                    '{} {!r}'.format(o, o)
                elif h == 'ToString':
                    f = getattr(o, 'ToString', None)
                    if callable(f):
                        f()
                elif h == 'to_dict':
                    f = getattr(o, 'to_dict', None)
                    if callable(f):
                        json.dumps(f(), default=str)
                elif h == 'copy':
                    copy.copy(o)
                elif h == 'deepcopy':
                    copy.deepcopy(o)
                elif h == 'vars':
                    for k, v in list(vars(o).items()):
                        str(k), type(v)
            except Exception:  # noqa: BLE001 - an unfinished object may not be printable
                pass
        n += 1
    return n


def state(o, depth=0, seen=None):
    """plain copy of a kernel object (attributes -> dict, lists copied, numbers kept with their type)"""
    seen = seen or ()
    if depth > 8 or id(o) in seen:
        return '<deep>'
    if o is None or isinstance(o, (bool, int, float, str, Fraction)):
        return o
    if isinstance(o, (list, tuple)):
        return [state(x, depth + 1, seen) for x in o]
    if isinstance(o, dict):
        return {str(k): state(v, depth + 1, seen) for k, v in o.items()}
    if _is_pkg(o) or isinstance(o, NS):
        return {'<%s>' % type(o).__name__: {k: state(v, depth + 1, seen + (id(o),)) for k, v in sorted(vars(o).items())
                                            if not callable(v)}}
    return '<%s>' % type(o).__name__


def same(a, b):
    """equality of two `state`s that tells int from float from Fraction"""
    if type(a) is not type(b):
        return False
    if isinstance(a, dict):
        return list(a.keys()) == list(b.keys()) and all(same(a[k], b[k]) for k in a)
    if isinstance(a, list):
        return len(a) == len(b) and all(same(x, y) for x, y in zip(a, b))
    if isinstance(a, float) and a != a:
        return b != b
    return a == b


def where(a, b, path=''):
    if type(a) is not type(b):
        return '%s: %s %r vs %s %r' % (path or '<root>', type(a).__name__, a, type(b).__name__, b)
    if isinstance(a, dict):
        for k in list(a.keys()) + [k for k in b if k not in a]:
            if k not in a or k not in b:
                return '%s: attribute %r %s' % (path or '<root>', k, 'removed' if k in a else 'added')
            w = where(a[k], b[k], '%s.%s' % (path, k))
            if w:
                return w
        return None
    if isinstance(a, list):
        if len(a) != len(b):
            return '%s: length %d vs %d' % (path or '<root>', len(a), len(b))
        for i, (x, y) in enumerate(zip(a, b)):
            w = where(x, y, '%s[%d]' % (path, i))
            if w:
                return w
        return None
    return None if same(a, b) else '%s: %r vs %r' % (path or '<root>', a, b)


def class_digest(prefix='uwg'):
    """digest of every module-level and class-level object of the package `prefix` (uwg or uwgfrac)"""
    acc = {}
    for name, mod in sorted(sys.modules.items()):
        if not (name == prefix or name.startswith(prefix + '.')) or mod is None:
            continue
        for k, v in sorted(vars(mod).items()):
            if k.startswith('__') or k in ('FRAC_', 'POW_', 'DIV_', 'TOFRAC_', 'MATH_', 'FLOATT_'):
                continue
            if isinstance(v, type):
                if (getattr(v, '__module__', '') or '').startswith(prefix):
                    acc['%s.%s' % (name, k)] = {a: b for a, b in vars(v).items()
                                                if not a.startswith('__') and not callable(b)
                                                and not isinstance(b, (property, staticmethod, classmethod))}
            elif not callable(v) and not isinstance(v, types.ModuleType):
                acc['%s.%s' % (name, k)] = v
    return U.fingerprint(acc), len(acc)


def class_level_names(prefix='uwg'):
    """{qualified name: repr} of the mutable class-level / module-level objects (to name the one that changed)"""
    out = {}
    for name, mod in sorted(sys.modules.items()):
        if not (name == prefix or name.startswith(prefix + '.')) or mod is None:
            continue
        for k, v in sorted(vars(mod).items()):
            if isinstance(v, type) and (getattr(v, '__module__', '') or '').startswith(prefix):
                for a, b in vars(v).items():
                    if not a.startswith('__') and isinstance(b, (dict, list, set)):
                        out['%s.%s.%s' % (name, k, a)] = repr(b)[:300]
            elif isinstance(v, (dict, list, set)) and not k.startswith('__'):
                out['%s.%s' % (name, k)] = repr(v)[:300]
    return out


# ===================================================================================== rural files
INOBIS = [0, 31, 59, 90, 120, 151, 181, 212, 243, 273, 304, 334]
MDAYS = [31, 28, 31, 30, 31, 30, 31, 31, 30, 31, 30, 31]


def load_rows(path):
    with open(path, 'r', newline='', errors='ignore') as f:
        return list(csv.reader(f))


def site_file(src_rows, lat, lon, tz, path, city=None):
    """copy of a rural file whose LOCATION line carries another site (cells 6, 7, 8 [and the city name])"""
    rows = [list(r) for r in src_rows]
    rows[0][6], rows[0][7], rows[0][8] = lat, lon, tz
    if city:
        rows[0][1] = city
    with open(path, 'w', newline='') as f:
        csv.writer(f, lineterminator='\n').writerows(rows)
    return path


# ===================================================================================== live monitors
class Patch(object):
    def __init__(self):
        self.saved = []

    def set(self, owner, name, value):
        self.saved.append((owner, name, getattr(owner, name)))
        setattr(owner, name, value)

    def __enter__(self):
        return self

    def __exit__(self, *a):
        for owner, name, old in reversed(self.saved):
            setattr(owner, name, old)
        return False


def _mod(name):
    U.uwg_mod()
    __import__(name)
    return sys.modules[name]


class _Monitor(object):
    limit = 4

    def __init__(self):
        self.problems = []
        self.nprob = 0
        self.counts = {}

    def note(self, msg, where_=None):
        self.nprob += 1
        if len(self.problems) < self.limit:
            self.problems.append(('%s: ' % where_ if where_ else '') + msg)

    def count(self, k, n=1):
        self.counts[k] = self.counts.get(k, 0) + n

    def result(self):
        return {'problems': self.problems, 'nprob': self.nprob, 'counts': self.counts}


class ConductionMonitor(_Monitor):
    """C11 on every Element.Conduction call of a live run: the call is a function of its inputs (the list behind
    layerTemp is the same object with the same numbers afterwards, no other attribute of the element changes), the
    returned list is a new object, and the stored heat of the returned profile differs from the one passed in by
    dt * (heat supplied at the two faces) (floats: 1e-9 of the stored heat)."""
    name = 'conduction'

    def __init__(self, patch, **kw):
        _Monitor.__init__(self)
        el = _mod('uwg.element').Element
        orig = el.Conduction
        mon = self

        def Conduction(self_, dt, flx1, bc, temp2, flx2):
            before_obj = self_.layerTemp
            before = list(before_obj)
            others = {k: (list(v) if isinstance(v, list) else v) for k, v in vars(self_).items() if k != 'layerTemp'}
            res = orig(self_, dt, flx1, bc, temp2, flx2)
            mon.judge(self_, before_obj, before, others, res, dt, flx1, bc, temp2, flx2)
            return res
        patch.set(el, 'Conduction', Conduction)

    def judge(self, el, before_obj, before, others, res, dt, flx1, bc, temp2, flx2):
        self.count('calls')
        nm = getattr(el, 'name', '?')
        if res is before_obj or res is el.layerTemp:
            self.note('Conduction returned the list object behind layerTemp (the step is committed into the caller\'s '
                      'list)', nm)
        if el.layerTemp is not before_obj or list(before_obj) != before:
            self.note('Conduction changed the temperatures it was given: %r -> %r' % (before[:3], list(before_obj)[:3]), nm)
        for k, v in others.items():
            cur = getattr(el, k, None)
            if (list(cur) if isinstance(cur, list) else cur) != v:
                self.note('Conduction changed attribute %s of the element' % k, nm)
                break
        d, c, k = el.layer_thickness_lst, el.layerVolHeat, el.layerThermalCond
        n = len(d)
        if len(res) != n or n < 2:
            return
        scale = sum(c[j] * d[j] * abs(before[j]) for j in range(n)) or 1.0
        if abs(bc - 1.) < 1e-9:
            self.count('flux-bc')
            lhs = sum(c[j] * d[j] * (res[j] - before[j]) for j in range(n))
            rhs = dt * (flx1 + flx2)
        else:
            self.count('deep-bc')
            if res[-1] != temp2:
                self.note('deep layer %r is not the deep temperature %r' % (res[-1], temp2), nm)
            g = 2. / (d[n - 2] / k[n - 2] + d[n - 1] / k[n - 1])
            deep = g * (0.5 * (res[n - 2] - res[n - 1]) + 0.5 * (before[n - 2] - before[n - 1]))
            lhs = sum(c[j] * d[j] * (res[j] - before[j]) for j in range(n - 1))
            rhs = dt * (flx1 - deep)
        if abs(lhs - rhs) > 1e-9 * scale:
            self.note('stored-heat change %r J/m2 vs heat supplied %r J/m2' % (lhs, rhs), nm)


def expected_row(month, day, sec):
    """index (0-based, data rows of an 8760-row file) of the rural row that covers the instant the clock shows after
    its update: rows are stamped with the hour they END, the row of hour h covers (h-1, h]"""
    doy0 = INOBIS[month - 1] + int(day) - 1
    s = int(round(sec))
    if s == 0:          # midnight reached: the clock already shows the next day, the row is hour 24 of the old one
        return doy0 * 24 - 1
    return doy0 * 24 + (-(-s // 3600)) - 1


class SunMonitor(_Monitor):
    """C12, the parts that hold on the unchanged tree, at every solarangles call of a live run:
      (a) the site handed to the sun-position routine (RSM.lat / lon / gmt) is cells 6, 7, 8 of the LOCATION line of
          the rural file in force, and the zenith is bit-identical to the same routine evaluated stand-alone for that
          site and the clock's month / day / second;
      (b) the date of the sun is the date of the rows: the forcing in force at the call (direct, diffuse, temperature,
          pressure, infra-red) is the rural row stamped with the clock's month / day and the hour that contains the
          clock's second (8760-row files)."""
    name = 'sun'

    def __init__(self, patch, epw=None, **kw):
        _Monitor.__init__(self)
        self.files = {}
        self.default = self.load(epw) if epw else None
        self.by_forc = {}
        self.first = None
        sc = _mod('uwg.solarcalcs').SolarCalcs
        self.SC = sc
        self.orig = sc.solarangles
        mon = self
        # an independent transcription of the formula the exact tie of C12 confirms (as coded, or NOAA once repaired):
        # chosen on a probe, used beside the stand-alone evaluation (which shares class-level state with the run)
        self.ref, self.tol = None, None
        try:
            from props import c12 as _c12
            probe = (6, 15, 36000, 42.37, -71.02, -5.0)
            tw = sc(NS(canAspect=1.0), None, NS(month=6, day=15, secDay=36000, inobis=list(INOBIS)),
                    NS(lat=probe[3], lon=probe[4], gmt=probe[5]), None, None, None)
            self.orig(tw)
            if abs(math.cos(tw.zenith) - _c12.ascoded_cosz(*probe)) < 1e-9:
                self.ref, self.tol = _c12.ascoded_cosz, 1e-9
            elif abs(math.cos(tw.zenith) - _c12.noaa_cosz(*probe)) < 2e-4:
                self.ref, self.tol = _c12.noaa_cosz, 2e-4
        except Exception:  # noqa: BLE001 - no transcription: the stand-alone evaluation remains
            pass

        def solarangles(self_):
            r = mon.orig(self_)
            mon.judge(self_)
            return r
        patch.set(sc, 'solarangles', solarangles)

    def load(self, path):
        path = os.path.abspath(path)
        if path not in self.files:
            rows = load_rows(path)
            self.files[path] = {'path': path, 'site': (float(rows[0][6]), float(rows[0][7]), float(rows[0][8])),
                                'rows': rows[8:]}
        return self.files[path]

    def register(self, model, epw):
        self.by_forc[id(model.forc)] = self.load(epw)

    def judge(self, s):
        f = self.by_forc.get(id(s.forc), self.default)
        if f is None:
            self.count('calls of unregistered models')
            return
        self.count('calls')
        st = s.simTime
        mo, dy, sec = st.month, int(st.day), st.secDay
        at = '%d/%d %ds' % (mo, dy, int(sec))
        if self.first is None:
            self.first = at
        site = (s.RSM.lat, s.RSM.lon, s.RSM.gmt)
        if site != f['site']:
            self.note('site handed to the sun-position routine (lat, lon, zone) = %r, LOCATION line of the rural file '
                      'in force (%s) = %r' % (site, os.path.basename(f['path']), f['site']), at)
            return
        twin = self.SC(NS(canAspect=s.UCM.canAspect), None, NS(month=mo, day=st.day, secDay=sec, inobis=list(INOBIS)),
                       NS(lat=f['site'][0], lon=f['site'][1], gmt=f['site'][2]), None, None, None)
        try:
            self.orig(twin)
            if twin.zenith != s.zenith:
                self.note('zenith used %r, the routine stand-alone for the header site and the clock gives %r'
                          % (s.zenith, twin.zenith), at)
        except Exception as e:  # noqa: BLE001
            self.note('stand-alone sun position failed: %r' % (e,), at)
        if self.ref is not None:
            c = self.ref(mo, dy, int(sec), *f['site'])
            if abs(math.cos(s.zenith) - c) > self.tol:
                self.note('cos(zenith) used %r; the formula of the routine for the header site %r and the clock gives %r'
                          % (math.cos(s.zenith), f['site'], c), at)
        i = expected_row(mo, dy, sec)
        if not (0 <= i < len(f['rows'])) or len(f['rows']) != 8760:
            self.count('rows not judged (leap / short file)')
            return
        row = f['rows'][i]
        try:
            want = (float(row[14]), float(row[15]), float(row[6]) + 273.15, float(row[9]), float(row[12]))
            stamp = (int(row[1]), int(row[2]), int(row[3]))
        except (ValueError, IndexError):
            return
        got = (s.forc.dir, s.forc.dif, s.forc.temp, s.forc.pres, s.forc.infra)
        if got != want:
            # which row is it then?
            other = None
            for j, r in enumerate(f['rows'] if self.nprob < self.limit else []):
                try:
                    if (float(r[14]), float(r[15]), float(r[6]) + 273.15, float(r[9]), float(r[12])) == got:
                        other = (int(r[1]), int(r[2]), int(r[3]))
                        break
                except (ValueError, IndexError):
                    continue
            self.note('sun position evaluated for %d/%d %.2f h but combined with the radiation of another row: forcing '
                      '(dir, dif, T, p, infra) = %r is %s; the row stamped %d/%d hour %d holds %r'
                      % (mo, dy, sec / 3600., got, 'the row stamped %d/%d hour %d' % other if other else 'no row of the file',
                         stamp[0], stamp[1], stamp[2], want), at)
        else:
            self.count('rows identified')


class AbsorbMonitor(_Monitor):
    """C13 on the canyon AS SIMULATED, after every urbflux() of a live run: what a surface absorbs is the complement
    of what the reflection scheme of solarcalcs reflects from it - every wall absorbs (1 - its albedo) x received, the
    road (1 - the road albedo the closure used this month) x received (1e-12 relative) - so that absorbed + reflected
    = received for every surface; and the canyon total (road + 2 h/w x stock-weighted walls) is collected against what
    enters through the canyon top (beam share + sky-view share of the diffuse part)."""
    name = 'absorb'

    def __init__(self, patch, **kw):
        _Monitor.__init__(self)
        self.last = None
        self.excess = []            # canyon totals with absorbed > entering: explained by the caller (Lean cR / cB)
        self.max_ratio = 0.0
        sc = _mod('uwg.solarcalcs').SolarCalcs
        um = _mod('uwg.uwg')
        orig_sc = sc.solarcalcs
        orig_urb = um.urbflux
        mon = self

        def solarcalcs(self_):
            r = orig_sc(self_)
            mon.last = self_
            return r

        def urbflux(UCM, UBL, BEM, forc, parameter, simTime, RSM):
            r = orig_urb(UCM, UBL, BEM, forc, parameter, simTime, RSM)
            mon.judge(r[0], r[2], parameter, simTime)
            return r
        patch.set(sc, 'solarcalcs', solarcalcs)
        patch.set(um, 'urbflux', urbflux)

    def judge(self, ucm, bem, par, st):
        s = self.last
        at = '%s/%s %ds' % (st.month, int(st.day), int(st.secDay))
        self.count('steps')
        inseason = not (st.month < par.vegStart or st.month > par.vegEnd)
        road = ucm.road
        ar = road.albedo * (1. - road.vegcoverage) + par.vegAlbedo * road.vegcoverage if inseason else road.albedo
        tol = 1e-12
        if abs(road.solAbs - (1. - ar) * road.solRec) > tol * max(1., abs(road.solRec)):
            self.note('road receives %r W/m2, the closure reflects with albedo %r, the road absorbs %r (not the '
                      'complement %r)' % (road.solRec, ar, road.solAbs, (1. - ar) * road.solRec), at)
        wabs = 0.
        for j, b in enumerate(bem):
            w = b.wall
            wabs += b.frac * w.solAbs
            if abs(w.solAbs - (1. - w.albedo) * w.solRec) > tol * max(1., abs(w.solRec)):
                self.note('wall of BEM[%d] (%s %s; horizontal=%r, vegcoverage=%r) receives %r W/m2, reflects %r (albedo '
                          '%r) and absorbs %r W/m2 - not the complement %r'
                          % (j, b.bldtype, b.builtera, w.horizontal, w.vegcoverage, w.solRec, w.albedo * w.solRec,
                             w.albedo, w.solAbs, (1. - w.albedo) * w.solRec), at)
            if w.solAbs < 0 or w.solRec < 0:
                self.note('negative short-wave on wall of BEM[%d]' % j, at)
        if s is None or not hasattr(s, 'horSol') or (s.dir + s.dif) <= 0.:
            self.count('dark steps')
            if road.solAbs != 0 or any(b.wall.solAbs != 0 for b in bem):
                self.note('no sun reported, yet short-wave is absorbed (road %r)' % road.solAbs, at)
            return
        self.count('sunlit steps')
        a = ucm.canAspect
        entering = s.horSol * (s.Kr_term + 2 * a * s.Kw_term) + s.dif * (ucm.roadConf + 2 * a * ucm.wallConf)
        absorbed = road.solAbs + 2 * a * wabs
        if entering > 0:
            self.max_ratio = max(self.max_ratio, absorbed / entering)
            if absorbed > entering * (1 + 1e-9) and s.Kr_term >= 0 and len(self.excess) < 50:
                self.excess.append({'at': at, 'absorbed': absorbed, 'entering': entering,
                                    'geo': [a, ucm.roadConf, ucm.wallConf], 'ar': ar, 'walb': ucm.alb_wall})

    def result(self):
        r = _Monitor.result(self)
        r['excess'] = self.excess
        r['max_ratio'] = self.max_ratio
        return r


MONITORS = {'conduction': ConductionMonitor, 'sun': SunMonitor, 'absorb': AbsorbMonitor}


def _s2_monitor(name, patch):
    import s2_util as S2
    return {'solar': S2.SolarMonitor, 'infra': S2.InfraMonitor}[name](patch)


# ===================================================================================== one live run, any circumstance
def records_list(m):
    return [None if r is None else list(r) for r in U.records(m)]


def run_scenario(data, epw, outdir, name='u3.epw', monitors=(), observe=False, debug=False, neighbour=None,
                 route='dict', poke_every=41, stages=('generate', 'simulate', 'write')):
    """generate; simulate; write_epw of UWG.from_dict(data) on the rural file `epw` with the named monitors installed.
    observe: the model is rendered after construction, after generate(), every `poke_every`-th step and at the end;
    debug: DEBUG logging with a formatting handler; neighbour: (data2, epw2) - another model is constructed, generated
    and simulated in this process between generate() and simulate() of the model under test.
    Returns a JSON-able dict: records, sha256 of the written file, verdict (exception class or None), monitor results,
    whether the caller's dictionary was left alone."""
    import generic as G
    uwg = U.uwg_mod()
    os.makedirs(outdir, exist_ok=True)
    out = {'error': None, 'records': None, 'hash': None, 'monitors': {}, 'caller_data': None}
    given = copy.deepcopy(data)
    handed = copy.deepcopy(data)
    ctx = G.debug_logging() if debug else contextlib.nullcontext()
    with Patch() as p, ctx:
        mons = {}
        for mn in monitors:
            mons[mn] = MONITORS[mn](p, epw=epw) if mn in MONITORS else _s2_monitor(mn, p)
        undo = lambda: None  # noqa: E731
        try:
            m = uwg.UWG.from_dict(handed, epw_path=epw, new_epw_dir=outdir, new_epw_name=name)
            if observe:
                G.poke(m)
            with core.quiet():
                m.generate()
            if 'sun' in mons:
                mons['sun'].register(m, epw)
            if observe:
                G.poke(m)
                undo = G.poke_during(m, every=poke_every)
            if neighbour is not None:
                d2, e2 = neighbour
                m2 = uwg.UWG.from_dict(copy.deepcopy(d2), epw_path=e2, new_epw_dir=outdir, new_epw_name='nb_' + name)
                with core.quiet():
                    m2.generate()
                    if 'sun' in mons:
                        mons['sun'].register(m2, e2)
                    m2.simulate()
                if observe:
                    G.poke(m2)
            if 'simulate' in stages:
                with core.quiet():
                    m.simulate()
                undo()
                if observe:
                    G.poke(m)
                out['records'] = records_list(m)
                if 'write' in stages:
                    with core.quiet():
                        m.write_epw()
                    out['hash'] = G.file_hash(m.new_epw_path)
            out['site'] = [getattr(m, 'lat', None), getattr(m, 'lon', None), getattr(m, 'gmt', None)]
        except Exception as e:  # noqa: BLE001 - the verdict is part of the observable
            undo()
            out['error'] = type(e).__name__
            out['error_msg'] = str(e)[:200]
        for mn, mo in mons.items():
            out['monitors'][mn] = mo.result() if hasattr(mo, 'result') else {
                'problems': [x for x in mo.problems if x][:4], 'nprob': len(mo.problems),
                'counts': {'n': getattr(mo, 'n', getattr(mo, 'n_sun', 0))}}
    out['caller_data'] = G.where_differs(given, handed)
    return out


CHILD_CODE = '''
import sys, json
import u3_util as U3
spec = json.load(open(sys.argv[1]))
fn = getattr(U3, spec.pop('fn'))
print(json.dumps(fn(**spec), default=str))
'''


def child_call(work, tag, fn, optimize=False, timeout=600, **spec):
    """run u3_util.<fn>(**spec) in a fresh interpreter of the tree under test (python -O when optimize)"""
    import generic as G
    os.makedirs(work, exist_ok=True)
    sp = os.path.join(work, 'spec_%s.json' % tag)
    with open(sp, 'w') as f:
        json.dump(dict(spec, fn=fn), f)
    rc, res, err = G.child_json(CHILD_CODE, optimize=optimize, args=(sp,), timeout=timeout,
                                env={'UWG_REPO': core.REPO})
    if res is None:
        raise core.Infra('child %s (%s) gave no result: rc=%s %s' % (tag, fn, rc, err[-400:]))
    return res


def cli_scenario(args, epw, monitors=(), outfile=None):
    """`uwg <args>` executed INSIDE this (child) process through click, with the named monitors installed: the
    property's own oracle evaluated on the command-line route. Returns exit status, monitor results, file hash."""
    import generic as G
    U.uwg_mod()
    from uwg.cli import main
    out = {'rc': None, 'monitors': {}, 'hash': None}
    with Patch() as p:
        mons = {mn: (MONITORS[mn](p, epw=epw) if mn in MONITORS else _s2_monitor(mn, p)) for mn in monitors}
        buf = io.StringIO()
        try:
            with contextlib.redirect_stdout(buf), contextlib.redirect_stderr(io.StringIO()):
                main.main(args=list(args), prog_name='uwg', standalone_mode=False)
            out['rc'] = 0
        except SystemExit as e:
            out['rc'] = e.code if isinstance(e.code, int) else (0 if e.code is None else 1)
        except Exception as e:  # noqa: BLE001 - click usage errors with standalone_mode=False
            out['rc'] = 2
            out['error'] = '%s: %s' % (type(e).__name__, str(e)[:200])
        for mn, mo in mons.items():
            out['monitors'][mn] = mo.result() if hasattr(mo, 'result') else {
                'problems': [x for x in mo.problems if x][:4], 'nprob': len(mo.problems), 'counts': {}}
    if outfile and os.path.exists(outfile):
        out['hash'] = G.file_hash(outfile)
    return out


# ===================================================================================== command-line surface
def cli_surface():
    """{command path: [(option names, declared type, range, is_flag, required)]} of everything `uwg` offers, read from
    the click objects of the tree under test (run it in a child: it imports the package's cli)."""
    U.uwg_mod()
    import click
    from uwg.cli import main
    out = {}

    def walk(cmd, path):
        params = []
        for prm in cmd.params:
            t = prm.type
            ent = {'kind': 'option' if isinstance(prm, click.Option) else 'argument',
                   'names': list(getattr(prm, 'opts', [])) + list(getattr(prm, 'secondary_opts', [])),
                   'type': type(t).__name__, 'is_flag': bool(getattr(prm, 'is_flag', False)),
                   'required': bool(prm.required), 'default': repr(getattr(prm, 'default', None))[:40]}
            if hasattr(t, 'min') or hasattr(t, 'max'):
                ent['range'] = [getattr(t, 'min', None), getattr(t, 'max', None)]
            if hasattr(t, 'choices'):
                ent['choices'] = list(t.choices)
            params.append(ent)
        out[' '.join(path)] = params
        for name, sub in sorted(getattr(cmd, 'commands', {}).items()):
            walk(sub, path + [name])
    walk(main, ['uwg'])
    return out


# options of the unchanged tree (command path -> option names); anything else the command line offers has no
# counterpart among the library calls and is explored as a family of its own (option_members)
CLI_OPTIONS = {
    'uwg': ['--version', '--help'],
    'uwg viz': [],
    'uwg simulate': [],
    'uwg simulate model': ['--new-epw-dir', '--new-epw-name'],
    'uwg simulate param': ['--new-epw-dir', '--new-epw-name'],
    'uwg validate': [],
    'uwg validate model': [],
    'uwg validate param': [],
}


def option_members(ent, rng=None):
    """values to try for an option the library has no counterpart for, from its declared click type"""
    name = ent['names'][0]
    if ent.get('is_flag'):
        return [[name]]
    if 'choices' in ent:
        return [[name, str(c)] for c in ent['choices'][:3]]
    if ent['type'] in ('IntRange', 'IntParamType', 'FloatRange', 'FloatParamType'):
        lo, hi = (ent.get('range') or [None, None])
        lo = 1 if lo is None else lo
        hi = lo + 11 if hi is None else hi
        vals = sorted({lo, hi, (lo + hi) // 2})
        return [[name, str(int(v))] for v in vals]
    return [[name, 'x']]


# ===================================================================================== dictionary route
REFUSED = 'refused'


def flag_spellings():
    """(value written for a boolean flag, what it means / REFUSED) - the verdicts of the unchanged tree
    (Element.__init__: int(value), then bool)"""
    return [(False, False), (True, True), (0, False), (1, True), (0.0, False), (1.0, True), (2, True), ('0', False),
            ('1', True), (' 0 ', False), ('00', False), ('false', REFUSED), ('False', REFUSED), ('true', REFUSED),
            ('no', REFUSED), ('', REFUSED), (None, REFUSED), ('0.0', REFUSED), ([], REFUSED)]


ELEMENT_KEYS = ('albedo', 'emissivity', 'layer_thickness_lst', 'material_lst', 'vegcoverage', 't_init', 'horizontal',
                'name')
ELEMENT_NUMERIC = ('albedo', 'emissivity', 'vegcoverage', 't_init')


def element_dict_members(base, rng, flags=True):
    """hand-edited variants of an Element dictionary `base` (as to_dict() writes it):
    [(label, dict, expected)] with expected = 'same' (must give the element of `base`), ('flag', bool) (must give the
    element of base with that orientation), REFUSED (the unchanged tree refuses it: KeyError / TypeError /
    ValueError / AssertionError), or None (verdict left open: accepted -> the oracles decide)."""
    out = []

    def mk(label, expected, **edit):
        d = copy.deepcopy(base)
        for k, v in edit.items():
            if v is _ABSENT:
                d.pop(k, None)
            else:
                d[k] = v
        out.append((label, d, expected))
    mk('as written', 'same')
    for k in ELEMENT_KEYS:
        mk('key %s absent' % k, REFUSED, **{k: _ABSENT})
        if k not in ('name',):
            mk('key %s null' % k, REFUSED, **{k: None})
    mk('key type absent', REFUSED, type=_ABSENT)
    mk('extra keys', 'same', comment='hand edited', layerTemp=[1.0], waterStorage=3, horizontal_=True)
    for k in ELEMENT_NUMERIC:
        v = base[k]
        if float(v) == int(v):
            mk('%s as int' % k, 'same', **{k: int(v)})
            mk('%s as float' % k, 'same', **{k: float(v)})
        mk('%s as numeric text' % k, REFUSED, **{k: repr(float(v))})
    mk('thicknesses as ints where integral', 'same',
       layer_thickness_lst=[int(x) if float(x) == int(x) else x for x in base['layer_thickness_lst']])
    mk('thickness as text', REFUSED, layer_thickness_lst=[str(x) for x in base['layer_thickness_lst']])
    mats = copy.deepcopy(base['material_lst'])
    for mm in mats:
        for kk in ('thermalcond', 'volheat'):
            if float(mm[kk]) == int(mm[kk]):
                mm[kk] = int(mm[kk])
    mk('material numbers as ints where integral', 'same', material_lst=mats)
    if flags:
        for v, meaning in flag_spellings():
            mk('horizontal written as %r' % (v,), REFUSED if meaning is REFUSED else ('flag', meaning), horizontal=v)
    return out


class _Absent(object):
    def __repr__(self):
        return '<absent>'


_ABSENT = _Absent()


def element_view(el):
    """the attributes of an Element that decide what it does in a simulation"""
    return {'albedo': el.albedo, 'emissivity': el.emissivity, 'd': list(el.layer_thickness_lst),
            'k': list(el.layerThermalCond), 'c': list(el.layerVolHeat), 'veg': el.vegcoverage, 't_init': el.t_init,
            'horizontal': el.horizontal, 'temps': list(el.layerTemp), 'waterStorage': el.waterStorage}


def planted_wall_data(month=6, day=21, wall_albedo=0.7, wall_veg=0.6, albveg=0.1, bldtype='largeoffice',
                      builtera='pst80', src=(3, 1, 0), geometry=(10, 0.5, 0.8), albroad=0.3, dtsim=300, zone='1A',
                      extra_bld=None):
    """UWG dictionary (JSON-able) with ONE custom archetype whose facade is light and planted (albedo high, vegetation
    cover > 0 - legal and without effect for a vertical element), vegetation albedo low, a month inside the season:
    the configuration in which the orientation flag of a wall decides whether the canyon budget closes."""
    uwg = U.uwg_mod()
    ref_bem, ref_sch = uwg.UWG.load_refDOE()
    i, j, k = src
    bem = ref_bem[i][j][k].to_dict()
    sch = ref_sch[i][j][k].to_dict()
    bem['bldtype'] = sch['bldtype'] = bldtype
    bem['builtera'] = sch['builtera'] = builtera
    bem['wall']['albedo'] = wall_albedo
    bem['wall']['vegcoverage'] = wall_veg
    bld = [(bldtype, builtera, 1.0)] if not extra_bld else [(bldtype, builtera, 1.0 - sum(f for _, _, f in extra_bld))] + list(extra_bld)
    h, dens, vth = geometry
    m = uwg.UWG.from_param_args(bldheight=h, blddensity=dens, vertohor=vth, grasscover=0.1, treecover=0.1, zone=zone,
                                month=month, day=day, nday=1, dtsim=dtsim, bld=bld, vegstart=4, vegend=10,
                                albveg=albveg, albroad=albroad)
    data = m.to_dict()
    data['ref_bem_vector'] = [bem]
    data['ref_sch_vector'] = [sch]
    return json.loads(json.dumps(data))


def default_data(**attrs):
    """the shipped Singapore parameter file as a JSON-able UWG dictionary (1 day, dtsim 300 unless overridden)"""
    m = U.new_model(nday=1, dtsim=300)
    for k, v in attrs.items():
        setattr(m, k, v)
    return json.loads(json.dumps(m.to_dict()))


def frac(x):
    return Fraction(repr(x)) if isinstance(x, float) else Fraction(x)


# ===================================================================================== dictionary route of an Element
REFUSAL_CLASSES = (KeyError, TypeError, ValueError, AssertionError, AttributeError)


def _values_equal(a, b):
    """== on element views that does not tell 1 from 1.0 (a hand-edited dictionary may hold ints)"""
    if isinstance(a, list) and isinstance(b, list):
        return len(a) == len(b) and all(_values_equal(x, y) for x, y in zip(a, b))
    if isinstance(a, bool) or isinstance(b, bool):
        return bool(a) == bool(b) and isinstance(a, (bool, int)) and isinstance(b, (bool, int))
    return a == b


def view_diff(a, b, skip=()):
    for k in a:
        if k in skip:
            continue
        if not _values_equal(a[k], b[k]):
            return '%s: %r vs %r' % (k, a[k], b[k])
    return None


def dict_route_problems(Element, base, rng, behave=None):
    """Hand-edited Element dictionaries (element_dict_members) through Element.from_dict.
    For every member: the verdict is the one of the unchanged tree (accepted / refused); an accepted member gives the
    element of the constructor route (same attributes, same behaviour `behave(element)`), with the orientation the
    written flag means; the result does not depend on which other Element dictionary was parsed before it (a
    contrasting one - every optional key different - is parsed in between); class-level data are left alone.
    Returns (problems [(label, dict, observed, expected)], branch counts)."""
    problems, br = [], {}
    ref = Element.from_dict(copy.deepcopy(base))
    ref_view = element_view(ref)
    ref_beh = behave(ref) if behave else None
    contrast = copy.deepcopy(base)
    contrast.update(horizontal=not bool(base['horizontal']), vegcoverage=0.9 if base['vegcoverage'] < 0.5 else 0.05,
                    t_init=310.5, name='contrasting element', albedo=0.55, emissivity=0.35)
    dg0 = class_digest(Element.__module__.split('.')[0])[0]
    names0 = class_level_names(Element.__module__.split('.')[0])

    def parse(d):
        given = copy.deepcopy(d)
        try:
            el = Element.from_dict(d)
        except REFUSAL_CLASSES as e:
            return 'refused(%s)' % type(e).__name__, None, None
        import generic as G
        return 'accepted', el, G.where_differs(given, d)

    for label, d, expected in element_dict_members(base, rng):
        shown = json.loads(json.dumps(d, default=repr))
        v1, el1, touched = parse(copy.deepcopy(d))
        Element.from_dict(copy.deepcopy(contrast))
        v2, el2, _ = parse(copy.deepcopy(d))
        Element.from_dict(copy.deepcopy(base))
        key = 'refused' if expected is REFUSED else 'accepted' if expected is not None else 'open'
        br[key] = br.get(key, 0) + 1
        pdiff = view_diff(element_view(el1), element_view(el2)) if (el1 is not None and el2 is not None) else None
        if v1.split('(')[0] != v2.split('(')[0] or pdiff:
            problems.append((label, shown, 'parsed first: %s; parsed again after an Element dictionary with other optional '
                             'values: %s%s' % (v1, v2, '' if not pdiff else ' but another element (%s)' % pdiff),
                             'an Element dictionary means the same whatever was parsed before it'))
            continue
        if touched:
            problems.append((label, shown, 'from_dict changed the caller\'s dictionary: ' + touched,
                             'the dictionary handed in is left alone'))
        if expected is REFUSED:
            if el1 is not None:
                problems.append((label, shown, 'accepted: ' + json.dumps(element_view(el1), default=str)[:200],
                                 'refused (the unchanged tree raises KeyError / TypeError / ValueError / AssertionError)'))
            continue
        if el1 is None:
            if expected is not None:
                problems.append((label, shown, v1, 'accepted'))
            continue
        want = dict(ref_view)
        if isinstance(expected, tuple) and expected[0] == 'flag':
            want['horizontal'] = expected[1]
        dv = view_diff(want, element_view(el1))
        if dv:
            problems.append((label, shown, 'element differs from the one of the constructor route: ' + dv,
                             'the element the dictionary describes (orientation = what the written flag means)'))
            continue
        if behave and want['horizontal'] == ref_view['horizontal']:
            b = behave(el1)
            if not _values_equal(b, ref_beh):
                problems.append((label, shown, 'behaves differently: %r vs %r' % (b, ref_beh), 'same behaviour'))
    if class_digest(Element.__module__.split('.')[0])[0] != dg0:
        names1 = class_level_names(Element.__module__.split('.')[0])
        ch = [k for k in names1 if names0.get(k) != names1[k]] + [k for k in names0 if k not in names1]
        problems.append(('class-level data', None, 'parsing Element dictionaries changed class-level / module-level data: %s'
                         % ', '.join('%s = %s' % (k, names1.get(k)) for k in ch[:3]),
                         'class-level data of the package are constants'))
    return problems, br


# ===================================================================================== the six circumstances, live
CIRCUMSTANCES = ('plain', 'unmonitored', 'observed', 'debug-logging', 'neighbour', 'python -O', 'cli', 'cli-monitored',
                 'caller-mutates-copy')


def live_circumstances(chk, data, epw, monitors, tag, neighbour=None, cli_monitors=None, skip=()):
    """ONE live scenario (dictionary route, 1 day) under every circumstance; returns (results, problems).
      plain            library calls with the monitors installed (reference observable)
      unmonitored      the same without monitors (the monitors are transparent)
      observed         model rendered after construction / generate / every 41st step / at the end      [1]
      debug-logging    DEBUG level with a formatting handler                                             [2]
      python -O        fresh interpreter with asserts stripped, monitors installed                       [3]
      cli              `python -m uwg simulate model` on the JSON of the dictionary (exit status, file)   [4]
      cli-monitored    the same command executed through click inside a monitored child                  [4]
      neighbour        another model generated and simulated between generate() and simulate()           [5]
      caller data      the dictionary handed to from_dict is left alone (every run)                      [6]
    problems: [(circumstance, observed, expected)]"""
    import generic as G
    work = os.path.join(chk.work(), tag)
    os.makedirs(work, exist_ok=True)
    cli_monitors = monitors if cli_monitors is None else cli_monitors
    mons = [m for m in monitors]
    dg0 = G.class_level_digest()
    res = {}
    res['plain'] = run_scenario(data, epw, work, 'plain.epw', mons)
    if 'unmonitored' not in skip:
        res['unmonitored'] = run_scenario(data, epw, work, 'bare.epw', ())
    res['observed'] = run_scenario(data, epw, work, 'obs.epw', mons, observe=True)
    res['debug-logging'] = run_scenario(data, epw, work, 'dbg.epw', mons, debug=True)
    if neighbour is not None:
        res['neighbour'] = run_scenario(data, epw, work, 'nb.epw', mons, neighbour=neighbour)
    dg1 = G.class_level_digest()
    if 'python -O' not in skip:
        res['python -O'] = child_call(work, 'opt', 'run_scenario', optimize=True, data=data, epw=epw, outdir=work,
                                      name='opt.epw', monitors=mons)
    jp = os.path.join(work, 'model.json')
    with open(jp, 'w') as f:
        json.dump(data, f)
    if 'cli' not in skip:
        rc, path, err = G.cli_simulate_model(data, epw, os.path.join(work, 'cli'), name='cli.epw')
        res['cli'] = {'error': None if rc == 0 else 'exit %s' % rc, 'rc': rc, 'records': None,
                      'hash': G.file_hash(path) if path else None, 'monitors': {}, 'caller_data': None,
                      'stderr': err[-300:]}
    if 'cli-monitored' not in skip:
        out = os.path.join(work, 'clim.epw')
        r = child_call(work, 'clim', 'cli_scenario',
                       args=['simulate', 'model', jp, epw, '--new-epw-dir', work, '--new-epw-name', 'clim.epw'],
                       epw=epw, monitors=list(cli_monitors), outfile=out)
        res['cli-monitored'] = {'error': None if r['rc'] == 0 else 'exit %s' % r['rc'], 'rc': r['rc'], 'records': None,
                                'hash': r['hash'], 'monitors': r['monitors'], 'caller_data': None}
    ref = res['plain']
    problems = []
    ref_verdict = ref['error']
    for k, r in res.items():
        v = r['error']
        if k.startswith('cli'):
            same_verdict = (v is None) == (ref_verdict is None)
        else:
            same_verdict = v == ref_verdict
        if not same_verdict:
            problems.append((k, 'verdict %s (%s)' % (v, r.get('error_msg', r.get('stderr', ''))[:160]),
                             'verdict of the plain library run: %s' % ref_verdict))
            continue
        if r.get('records') is not None and ref['records'] is not None and r['records'] != ref['records']:
            fd = G.first_diff(r['records'], ref['records'])
            problems.append((k, 'hourly records differ from the plain run, first at record %s: %r' % (fd[0], fd[1]),
                             '%r' % (fd[2],)))
        elif r.get('hash') != ref['hash'] and ref_verdict is None:
            problems.append((k, 'written file differs from the one of the plain run (sha256 %s)' % str(r.get('hash'))[:12],
                             str(ref['hash'])[:12]))
        for mn, mr in r.get('monitors', {}).items():
            for pr in mr.get('problems', [])[:2]:
                problems.append(('%s / monitor %s' % (k, mn), pr, 'the oracle of the property holds under this circumstance'))
            if k != 'plain' and mn in ref['monitors'] and mr.get('counts') != ref['monitors'][mn].get('counts') \
                    and not k.startswith('cli') and k != 'neighbour':
                problems.append(('%s / monitor %s' % (k, mn), 'monitor saw %s' % mr.get('counts'),
                                 'as in the plain run: %s' % ref['monitors'][mn].get('counts')))
        if r.get('caller_data'):
            problems.append((k, 'from_dict / generate / simulate changed the dictionary handed in: ' + r['caller_data'],
                             'the caller\'s dictionary is left alone'))
    if dg0 != dg1:
        problems.append(('class-level data', 'class-level / module-level data of the package changed during the runs',
                         'unchanged'))
    return res, problems


# ===================================================================================== kernel verdicts (python -O)
def _outcome(fn):
    try:
        r = fn()
    except BaseException as e:  # noqa: BLE001 - the class IS the observable
        return 'raises ' + type(e).__name__
    return 'returns ' + repr(r)


def kernel_verdicts(which, epw=None):
    """a handful of kernel calls of one property - ordinary ones and every refusal the unchanged tree expresses with
    `raise` or with the failure of an operation (not with `assert`, which python -O strips by design) -> [[label,
    outcome]]. Evaluated in this process, in a fresh interpreter and under python -O: same list everywhere."""
    uwg = U.uwg_mod()
    El, Mat = uwg.element.Element, uwg.material.Material
    out = []

    def add(label, fn):
        out.append([label, _outcome(fn)])

    def mk(n=4, horizontal=0):
        mats = [Mat(0.6918, 1555146.0, 'a'), Mat(1.311, 1874432.0, 'b'), Mat(0.049, 221752.0, 'c'), Mat(0.16, 651467.0, 'd')][:n]
        e = El(0.2, 0.9, [0.025, 0.05, 0.04, 0.0127][:n], mats, 0.3, 293., horizontal, 'e')
        e.layerTemp = [305.0, 301.5, 296.0, 294.25][:n]
        return e
    forc = NS(pres=101325., prec=0., deepTemp=295.)
    par = NS(vegStart=4, vegEnd=10, vegAlbedo=0.1, grassFLat=0.5, treeFLat=0.5, colburn=1., waterDens=1000., cp=1004.,
             lv=2500800., wgmax=0.005)
    if which == 'C11':
        add('Conduction flux boundary', lambda: mk().Conduction(300., 85., 1, 0., -12.5))
        add('Conduction deep boundary', lambda: mk().Conduction(300., 85., 2, 288., 0.))
        add('Conduction boundary kind 3', lambda: mk().Conduction(300., 85., 3, 288., 0.))
        add('Conduction boundary kind 1.5', lambda: mk().Conduction(300., 85., 1.5, 288., 0.))
        add('Conduction one layer', lambda: mk(1).Conduction(300., 85., 1, 0., 0.))
        add('Conduction dt 0', lambda: mk().Conduction(0., 85., 1, 0., 0.))

        def surf(bc=1., tref=299., hor=1):
            e = mk(horizontal=hor)
            e.solRec, e.infra = 500., -40.
            e.SurfFlux(forc, par, NS(month=6, dt=300.), 0.012, tref, 2.5, bc, 5.)
            return [e.solAbs, e.flux, e.layerTemp]
        add('SurfFlux wall', lambda: surf(hor=0))
        add('SurfFlux roof in season', lambda: surf())
        add('SurfFlux boundary kind 3', lambda: surf(bc=3.))
        add('SurfFlux reference temperature 0', lambda: surf(tref=0.))
        d = mk().to_dict()
        add('Element.from_dict round trip', lambda: element_view(El.from_dict(json.loads(json.dumps(d)))))
        add('Element.from_dict without horizontal', lambda: El.from_dict({k: v for k, v in d.items() if k != 'horizontal'}).horizontal)
        add('Element.from_dict horizontal "false"', lambda: El.from_dict(dict(d, horizontal='false')).horizontal)
        add('Element.from_dict horizontal "0"', lambda: El.from_dict(dict(d, horizontal='0')).horizontal)
    elif which == 'C13':
        road = El(0.1, 0.9, [0.5], [Mat(1., 1e6, 'm')], 0.2, 293., 1, 'road')

        def ucm(h=10., dens=0.5, vth=0.8):
            u = uwg.UCMDef(h, dens, vth, 0.1, 0., 0., 293., 0.01, 2., NS(windMin=1.), 0.25, 0.5, 0.2, road)
            return [u.canAspect, u.roadConf, u.wallConf, u.canWidth]
        add('UCMDef ordinary', ucm)
        add('UCMDef density 1', lambda: ucm(dens=1.))
        add('UCMDef facade ratio 0', lambda: ucm(vth=0.))
        add('UCMDef negative density', lambda: ucm(dens=-0.25))

        def solar(a=1.2, dir_=600., dif=100., month=6):
            u = NS(canAspect=a, roadConf=0.4, wallConf=0.25, alb_wall=0.2, treeCoverage=0.1, vegcover=0.2, road=road)
            bem = [NS(roof=NS(solRec=None), wall=NS(solRec=None))]
            sc = uwg.SolarCalcs(u, bem, NS(month=month, day=21, secDay=43200, inobis=list(INOBIS)),
                                NS(lat=1.37, lon=103.98, gmt=8.), NS(dir=dir_, dif=dif), par, NS(solRec=None))
            sc.solarcalcs()
            return [road.solRec, bem[0].wall.solRec, bem[0].roof.solRec]
        add('solarcalcs ordinary', solar)
        add('solarcalcs no sun', lambda: solar(dir_=0., dif=0.))
        add('solarcalcs aspect 0', lambda: solar(a=0.))
        add('solarcalcs month 13', lambda: solar(month=13))
        add('infracalcs', lambda: list(uwg.infracalcs(NS(roadConf=0.4, wallConf=0.25, roadShad=0.1), NS(infra=400.), 0.9, 0.9, 300., 295.)))
    else:
        def angles(month=6, day=21, sec=43200, lat=1.37, lon=103.98, gmt=8.):
            sc = uwg.SolarCalcs(NS(canAspect=1.2), None, NS(month=month, day=day, secDay=sec, inobis=list(INOBIS)),
                                NS(lat=lat, lon=lon, gmt=gmt), None, None, None)
            sc.solarangles()
            return [sc.zenith, sc.tanzen, sc.critOrient]
        add('solarangles ordinary', angles)
        add('solarangles southern site', lambda: angles(lat=-35., lon=150., gmt=10.))
        add('solarangles month 13', lambda: angles(month=13))
        add('solarangles aspect 0', lambda: uwg.SolarCalcs(NS(canAspect=0.), None, NS(month=6, day=21, secDay=43200, inobis=list(INOBIS)),
                                                          NS(lat=1., lon=1., gmt=0.), None, None, None).solarangles())
        add('generate without a rural file', lambda: uwg.UWG.from_param_args(bldheight=10, blddensity=0.5, vertohor=0.8, grasscover=0.1,
                                                                           treecover=0.1, zone='1A').generate())
        add('SimParam dt 7', lambda: repr(uwg.SimParam(7, 3600, 1, 1, 1)))
        add('SimParam dt 300', lambda: repr(uwg.SimParam(300, 3600, 6, 21, 1)))
        if epw:
            def site(p):
                m = uwg.UWG(p)
                m._read_epw()
                return [m.lat, m.lon, m.gmt, m.nSoil]
            add('_read_epw', lambda: site(epw))
    return out


# verdicts of the unchanged tree for the refusal members of kernel_verdicts (everything else returns)
KERNEL_REFUSALS = {
    'C11': {'Conduction boundary kind 3': 'Exception', 'Conduction boundary kind 1.5': 'Exception',
            'Conduction one layer': 'IndexError', 'Conduction dt 0': 'ZeroDivisionError',
            'SurfFlux boundary kind 3': 'Exception', 'SurfFlux reference temperature 0': 'ZeroDivisionError',
            'Element.from_dict without horizontal': 'KeyError', 'Element.from_dict horizontal "false"': 'ValueError'},
    'C12': {'solarangles month 13': 'IndexError', 'solarangles aspect 0': 'ZeroDivisionError',
            'generate without a rural file': 'Exception', 'SimParam dt 7': 'Exception'},
    'C13': {'UCMDef density 1': 'ZeroDivisionError', 'UCMDef facade ratio 0': 'ZeroDivisionError',
            'UCMDef negative density': 'ValueError', 'solarcalcs aspect 0': 'ZeroDivisionError',
            'solarcalcs month 13': 'IndexError'},
}


def kernel_verdict_problems(chk, which, epw=None):
    """[3] python -O at kernel level: the handful of calls of kernel_verdicts in this process and in a fresh interpreter
    with asserts stripped: identical outcomes (numbers bit for bit), and every refusal of the unchanged tree still a
    refusal of the same class in both. Returns (problems [(label, observed, expected)], number of calls)."""
    here = kernel_verdicts(which, epw=epw)
    opt = child_call(os.path.join(chk.work(), 'kv'), which, 'kernel_verdicts', optimize=True, which=which, epw=epw)
    table = KERNEL_REFUSALS[which]
    probs = []
    for (lab, a), (_, b) in zip(here, opt):
        want = ('raises ' + table[lab]) if lab in table else 'returns'
        for where_, got in (('library call', a), ('python -O', b)):
            if not got.startswith(want):
                probs.append(('%s (%s)' % (lab, where_), got[:200], want + (' ...' if want == 'returns' else '')))
        if a != b and a.startswith(want) and b.startswith(want):
            probs.append(('%s (python -O vs library call)' % lab, b[:200], a[:200]))
    return probs, len(here)
