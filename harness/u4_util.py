"""Fourth strengthening round (C14, C15, C16, C18, C19, C20): the six *circumstances* of harness/generic.py applied to
the live scenarios and to the kernel objects of a check, each time with the check's OWN property-level oracle.

A scenario is a JSON-able `spec` = {'label', 'epw', 'model': UWG dictionary (parameters + optional hand-edited
ref_bem_vector / ref_sch_vector), 'about'}: the same description is run in-process, in child interpreters (plain and
`python -O`) and through the command line. A check supplies `Hooks`:

  install(sink, ctx) -> undo   class-level wrappers around the kernels of the property that evaluate the property's
                               oracle at every call (`sink(kind, msg)`: one evaluation, msg = None when it holds)
  after_generate(m, spec, sink, ctx)   state oracles on the generated model (also called again after the model was
                               rendered); may fill ctx for the wrappers
  final(m, spec, sink, ctx)    state oracles on the simulated model
  kernels                      [(module, class, method, read-only positional arguments)]: the kernel routines whose
                               `self` and arguments are rendered right before and right after every n-th call

`live_battery` runs every scenario plain and then under each circumstance and demands (a) the oracle holds,
(b) records, written file and verdict equal those of the plain run, (c) rendering an object changes nothing, a kernel
leaves its read-only arguments alone, the caller's dictionary is untouched, class-level data keep their digest.

Circumstances (members counted in the tie's branches):
  plain                          the reference
  DEBUG-logging                  root + uwg loggers at DEBUG with a formatting handler (logging.disable undone)
  rendered                       repr / str / ToString of the model and of every reachable uwg object after
                                 construction, after generate(), every 41st step of simulate(), after simulate(),
                                 after write_epw()
  rendered+DEBUG-logging         both
  kernels-rendered               self and arguments of the property's kernel routines rendered right before and
                                 right after every 5th call; digest of each rendered object before = after;
                                 digest of the routine's read-only arguments before the call = after the call
  other-models-before            other models (leap-year rural file, southern site, other season / capacities /
                                 pavement, custom reference buildings with other optional keys) constructed,
                                 generated, simulated and written first, in the same process
  other-models-alive             main model generated; then the others constructed and generated (one simulated);
                                 then the main model simulated
  other-models-interleaved       others constructed first; main generated; others generated; main simulated
  child / child -O               the same scenario with the same oracle in a fresh interpreter / under python -O
  cli simulate model / param     python -m uwg simulate model <json> <epw>, and - where the scenario can be written as a
                                 .uwg parameter file - simulate param <uwg> <epw>: exit status and the written file
  caller's dictionary            the dictionary handed to UWG.from_dict compared with a deep snapshot after every run
  class-level digest             digest of all module- and class-level data of the package around the battery
"""
import concurrent.futures
import contextlib
import copy
import importlib
import json
import logging
import os
import sys

import core
import generic as G
import s1_util as S1
import uwgutil as U


# ------------------------------------------------------------------------------------------------ logging
@contextlib.contextmanager
def debug_on():
    """generic.debug_logging with `logging.disable(...)` of earlier ties undone for the duration (several live-run
    helpers of the checks call logging.disable(CRITICAL) and never take it back: DEBUG would stay off)."""
    saved = logging.root.manager.disable
    logging.disable(logging.NOTSET)
    try:
        with G.debug_logging() as buf:
            yield buf
    finally:
        logging.disable(saved)


# ------------------------------------------------------------------------------------------------ specs
def tests_file(*parts):
    for root in (core.REPO, '/repo'):
        p = os.path.join(root, 'tests', *parts)
        if os.path.exists(p):
            return p
    return None


SGP = ('resources/initialize_singapore.uwg', 'resources/SGP_Singapore.486980_IWEC.epw')


def toronto():
    return tests_file('parameters', 'initialize_toronto.uwg'), tests_file('epw', 'CAN_ON_Toronto.716240_CWEC.epw')


def model_dict(param=None, epw=None, customs=(), **attrs):
    """parameters of a model read from a shipped parameter file with `attrs` assigned, as the JSON document
    `UWG.to_dict()` gives; `customs`: hand-edited (BEMDef dictionary, SchDef dictionary) pairs added as they are"""
    param = param or U.rp(SGP[0])
    epw = epw or U.rp(SGP[1])
    u = U.uwg_mod()
    m = u.UWG.from_param_file(param, epw_path=epw)
    for k, v in attrs.items():
        setattr(m, k, v)
    d = m.to_dict()
    if customs:
        d['ref_bem_vector'] = [c[0] for c in customs]
        d['ref_sch_vector'] = [c[1] for c in customs]
    return json.loads(json.dumps(d))


def make_spec(label, epw=None, param=None, customs=(), about=None, **attrs):
    epw = epw or U.rp(SGP[1])
    ab = dict(about or {})
    ab.update({'parameter file': os.path.basename(param or SGP[0]), 'rural file': os.path.basename(epw),
               'assigned': {k: v for k, v in attrs.items()}})
    sp = {'label': label, 'epw': epw, 'model': model_dict(param, epw, customs, **attrs), 'about': ab}
    if not customs and not any(k in attrs for k in ('bld', 'schtraffic')):
        # the same model can be written as a .uwg parameter file (for `uwg simulate param`)
        sp['param_source'] = param or U.rp(SGP[0])
        sp['param_cells'] = {k: ('' if v is None else repr(v) if not isinstance(v, str) else v) for k, v in attrs.items()}
    return sp


def make(spec, outdir, name, data=None):
    u = U.uwg_mod()
    data = copy.deepcopy(spec['model']) if data is None else data
    return u.UWG.from_dict(data, epw_path=spec['epw'], new_epw_dir=outdir, new_epw_name=name)


def custom_dicts(u, S3, **kw):
    """(BEMDef dictionary, SchDef dictionary) of a custom reference building made with the real constructors, as
    JSON gives them back (to be hand-edited by the caller)"""
    bem, sch = S3.constructed_custom(u, **kw)
    return json.loads(json.dumps(bem.to_dict())), json.loads(json.dumps(sch.to_dict()))


# ------------------------------------------------------------------------------------------------ rural-file family
SITES = {
    # LOCATION cells 6..9 (latitude, longitude, time zone, elevation) - legal values never varied by the shipped files
    'south-1.37': {6: '-1.37', 7: '103.98', 8: '8.0', 9: '16.0'},
    'south-33.9-east': {6: '-33.95', 7: '151.18', 8: '10.0', 9: '6.0'},
    'south-34.6-west': {6: '-34.82', 7: '-58.53', 8: '-3.0', 9: '20.0'},
    'north-40-west-negative-tz': {6: '40.0', 7: '-105.2', 8: '-7.0', 9: '1650.0'},
    'equator-0.0': {6: '0.0', 7: '0.0', 8: '0.0', 9: '0.0'},
    'below-sea-level': {6: '31.5', 7: '35.5', 8: '2.0', 9: '-400.0'},
}


def site_file(src, dst, site, variant='base'):
    """copy of a rural file with the LOCATION cells of `site` (and a header / row variant of s1_util)"""
    rows = S1.apply_variant(S1.load_epw(src), variant)
    for cell, text in SITES[site].items():
        rows[0][cell] = text
    return S1.save_epw(rows, dst)


def variant_file(src, dst, variant):
    return S1.save_epw(S1.apply_variant(S1.load_epw(src), variant), dst)


def ground_file(src, dst, depths, props=None):
    rows = S1.load_epw(src)
    rows[3] = S1.ground_line(depths, props)
    return S1.save_epw(rows, dst)


# ------------------------------------------------------------------------------------------------ hooks
class Hooks(object):
    def __init__(self, install=None, after_generate=None, final=None, kernels=()):
        self.install = install
        self.after_generate = after_generate
        self.final = final
        self.kernels = list(kernels)


def _uwgish(o):
    mod = getattr(type(o), '__module__', '') or ''
    return mod == 'uwg' or mod.startswith('uwg.') or isinstance(o, (list, dict))


def first_attr_difference(a, b, path='', depth=0):
    """first attribute path at which two object graphs (before / after copies) differ"""
    if depth > 8:
        return None
    if type(a) is not type(b):
        return '%s: %s -> %s' % (path or '<object>', type(a).__name__, type(b).__name__)
    if isinstance(a, (list, tuple)):
        if len(a) != len(b):
            return '%s: length %d -> %d' % (path, len(a), len(b))
        for i, (x, y) in enumerate(zip(a, b)):
            w = first_attr_difference(x, y, '%s[%d]' % (path, i), depth + 1)
            if w:
                return w
        return None
    if isinstance(a, dict):
        for k in a:
            if k not in b:
                return '%s[%r] removed' % (path, k)
            w = first_attr_difference(a[k], b[k], '%s[%r]' % (path, k), depth + 1)
            if w:
                return w
        for k in b:
            if k not in a:
                return '%s[%r] added' % (path, k)
        return None
    if hasattr(a, '__dict__') and _uwgish(a):
        va, vb = vars(a), vars(b)
        for k in list(va) + [k for k in vb if k not in va]:
            if k == 'logger':
                continue
            if k not in va or k not in vb:
                return '%s.%s %s' % (path, k, 'removed' if k in va else 'added')
            w = first_attr_difference(va[k], vb[k], '%s.%s' % (path, k), depth + 1)
            if w:
                return w
        return None
    if isinstance(a, float):
        return None if (a == b or (a != a and b != b)) else '%s: %r -> %r' % (path, a, b)
    try:
        return None if a == b else '%s: %r -> %r' % (path, a, b)
    except Exception:  # noqa
        return None


def render_checked(objs, names, sink, when):
    """render every object of `objs` (generic.poke) and demand that none of them changed: digest before = after; the
    first attribute that changed is named"""
    for o, nm in zip(objs, names):
        if not _uwgish(o):
            continue
        before = U.fingerprint(o)
        keep = None
        try:
            keep = copy.deepcopy(o)
        except Exception:  # noqa
            pass
        G.poke(o)
        msg = None
        if U.fingerprint(o) != before:
            where = first_attr_difference(keep, o, nm) if keep is not None else None
            msg = 'rendering %s (repr / str / ToString of it and of every uwg object reachable from it) %s changed ' \
                  'it: %s' % (nm, when, where or 'state digest differs')
        sink('render:%s' % nm.split('.')[0].split('[')[0], msg)


@contextlib.contextmanager
def kernels_observed(hooks, sink, every=5):
    """class-level wrappers around the kernel routines named by the hooks: at every `every`-th call `self` and the
    positional arguments are rendered right before and right after the call (and must not change by that); the
    read-only arguments must carry the same digest after the call as before it"""
    undo = []
    for (modname, clsname, meth, readonly) in hooks.kernels:
        mod = importlib.import_module(modname)
        cls = getattr(mod, clsname)
        raw = cls.__dict__[meth]
        static = isinstance(raw, staticmethod)
        f = raw.__func__ if static else raw
        count = [0]

        def wrapped(*a, _f=f, _count=count, _nm='%s.%s' % (clsname, meth), _ro=readonly, _static=static, **k):
            _count[0] += 1
            if _count[0] % every != 1:
                return _f(*a, **k)
            names = ['%s.argument[%d]' % (_nm, i) for i in range(len(a))]
            if not _static:
                names[0] = _nm.split('.')[0]
            render_checked(a, names, sink, 'before the call of %s' % _nm)
            ro = [(i, U.fingerprint(a[i]), copy.deepcopy(a[i])) for i in _ro if i < len(a) and _uwgish(a[i])]
            r = _f(*a, **k)
            for i, dig, keep in ro:
                msg = None
                if U.fingerprint(a[i]) != dig:
                    msg = '%s modified its argument %d (%s), which the caller keeps using: %s' % (
                        _nm, i, type(a[i]).__name__, first_attr_difference(keep, a[i], 'argument') or 'digest differs')
                sink('caller-data:%s' % _nm, msg)
            render_checked(a, names, sink, 'after the call of %s' % _nm)
            return r
        setattr(cls, meth, staticmethod(wrapped) if static else wrapped)
        undo.append((cls, meth, raw))
    try:
        yield
    finally:
        for cls, meth, raw in undo:
            setattr(cls, meth, raw)


# ------------------------------------------------------------------------------------------------ one run
CIRCUMSTANCES = ['DEBUG-logging', 'rendered', 'rendered+DEBUG-logging', 'kernels-rendered', 'other-models-before',
                 'other-models-alive', 'other-models-interleaved']


def run_one(spec, hooks, outdir, name, circ='plain', others=()):
    """One run of a scenario under a circumstance with the check's oracle. -> JSON-able result"""
    res = {'circumstance': circ, 'violations': [], 'evaluations': {}, 'records': None, 'hash': None,
           'verdict': 'ok', 'caller_data': None}
    ctx = {'spec': spec}

    def sink(kind, msg):
        res['evaluations'][kind] = res['evaluations'].get(kind, 0) + 1
        if msg and len(res['violations']) < 3:
            res['violations'].append({'oracle': kind, 'observed': msg})

    look = 'rendered' in circ.split('+') or circ.startswith('rendered')
    log = 'DEBUG-logging' in circ
    kern = circ == 'kernels-rendered'
    data = copy.deepcopy(spec['model'])
    pristine = copy.deepcopy(data)
    alive = []

    def other_full(o, n, simulate=True):
        mo = make(o, outdir, 'other_%d_%s' % (n, name))
        with core.quiet():
            mo.generate()
            if simulate:
                mo.simulate()
                mo.write_epw()
        alive.append(mo)

    @contextlib.contextmanager
    def judged():
        undo = hooks.install(sink, ctx) if hooks.install else None
        try:
            if kern:
                with kernels_observed(hooks, sink):
                    yield
            else:
                yield
        finally:
            if undo:
                undo()

    def state_oracles(m, which):
        f = getattr(hooks, which)
        if f:
            f(m, spec, sink, ctx)

    m = None
    try:
        with contextlib.ExitStack() as stack:
            if log:
                stack.enter_context(debug_on())
            if circ == 'other-models-before':
                for n, o in enumerate(others):
                    other_full(o, n)
            if circ == 'other-models-interleaved':
                alive += [make(o, outdir, 'other_%d_%s' % (n, name)) for n, o in enumerate(others)]
            m = make(spec, outdir, name, data)
            if look:
                G.poke(m)
            with judged():
                with core.quiet():
                    m.generate()
            state_oracles(m, 'after_generate')
            if look:
                G.poke(m)
                state_oracles(m, 'after_generate')
            if circ == 'other-models-alive':
                for n, o in enumerate(others):
                    other_full(o, n, simulate=(n == 0))
            if circ == 'other-models-interleaved':
                for mo in alive:
                    with core.quiet():
                        mo.generate()
            with judged():
                undo_during = G.poke_during(m) if look else (lambda: None)
                try:
                    with core.quiet():
                        m.simulate()
                finally:
                    undo_during()
            if look:
                G.poke(m)
            state_oracles(m, 'final')
            with core.quiet():
                m.write_epw()
            if look:
                G.poke(m)
                state_oracles(m, 'final')
            if circ == 'other-models-interleaved':
                for mo in alive[:1]:
                    with core.quiet():
                        mo.simulate()
            res['records'] = [list(r) if r is not None else None for r in U.records(m)]
            res['hash'] = G.file_hash(m.new_epw_path)
    except Exception as e:  # noqa: BLE001 - the verdict (exception class) is an observable of the run
        res['verdict'] = 'raises %s: %s' % (type(e).__name__, str(e).split('\n')[0][:160])
    if not G.plain_equal(data, pristine):
        res['caller_data'] = G.where_differs(pristine, data)
    return res


def child_main(spec_path, prop, outdir):
    """entry point of the child interpreters: the scenario with the oracle hooks of `props.<prop>`, plain"""
    spec = json.load(open(spec_path))
    mod = importlib.import_module('props.' + prop.lower())
    return dict(run_one(spec, mod.U4_HOOKS, outdir, 'child_%d.epw' % os.getpid(), 'plain'),
                optimized=not __debug__)


CHILD_CODE = '''
import sys, json
import u4_util
print(json.dumps(u4_util.child_main(sys.argv[1], sys.argv[2], sys.argv[3])))
'''

CLI_OPTIONS = {('simulate', 'model'): {'--new-epw-dir', '--new-epw-name', '--help'},
               ('simulate', 'param'): {'--new-epw-dir', '--new-epw-name', '--help'}}


def cli_help_problem():
    """the options the command line of the tree under test lists, against those of the unchanged tree"""
    import re
    out = []
    for cmd, want in CLI_OPTIONS.items():
        rc, so, se = G.cli(list(cmd) + ['--help'])
        got = set(re.findall(r'(--[a-z][a-z-]*)', so))
        if rc != 0 or got != want:
            out.append('`uwg %s --help` (exit %s) lists the options %s; the command of the unchanged tree has %s' % (
                ' '.join(cmd), rc, sorted(got), sorted(want)))
    return out


def first_record_difference(a, b):
    names = ('canTemp', 'canHum', 'canRHum', 'Tdp', 'wind', 'rural temp', 'ublTemp', 'sensHeat')
    if a is None or b is None:
        return 'no records'
    for h, (x, y) in enumerate(zip(a, b)):
        if x != y:
            if x is None or y is None:
                return 'hour %d: %s vs %s' % (h, x, y)
            j = [p != q for p, q in zip(x, y)].index(True)
            return 'hour %d, %s: %s vs %s' % (h, names[j], x[j], y[j])
    return None if len(a) == len(b) else 'number of records %d vs %d' % (len(a), len(b))


def live_battery(chk, prop, hooks, scenarios, others, what, full=None, required=()):
    """Every scenario plain, then under every circumstance (the first `full` scenarios - default all - under all of
    them, the rest under DEBUG-logging + rendered + kernels-rendered only): oracle, observables, frames.
    `required`: oracle kinds that must have been evaluated in every plain run (else the tie explores nothing)."""
    work = chk.work()
    full = len(scenarios) if full is None else full
    U.uwg_mod()
    for sub in ('readDOE',):                # lazily imported part of the package: its globals belong to the digest
        try:
            importlib.import_module('uwg.' + sub)
        except Exception:  # noqa
            pass
    dig0 = G.class_level_digest()
    counts, bad = {}, []
    pool = concurrent.futures.ThreadPoolExecutor(max_workers=6)
    jobs = []

    def count(k, n=1):
        counts[k] = counts.get(k, 0) + n

    def report(spec, circ, observed, expected, oracle=None):
        bad.append(1)
        if len(bad) <= 4:
            chk.violation('impl-violation', '%s under circumstances that are no input of the property (%s)' % (what, circ),
                          case={'scenario': spec['label'], 'circumstance': circ, 'about': spec.get('about'),
                                'oracle': oracle},
                          observed=observed, expected=expected)

    def submit_children(spec, n):
        sp = os.path.join(work, 'spec_%s_%d.json' % (prop, n))
        with open(sp, 'w') as f:
            json.dump(spec, f)
        cdir = os.path.join(work, 'child_%d' % n)
        os.makedirs(cdir, exist_ok=True)
        for opt in (False, True):
            jobs.append((spec, 'child -O' if opt else 'child',
                         pool.submit(G.child_json, CHILD_CODE, optimize=opt, args=(sp, prop, cdir))))
        jobs.append((spec, 'cli simulate model',
                     pool.submit(G.cli_simulate_model, spec['model'], spec['epw'], os.path.join(work, 'cli_%d' % n),
                                 'cli_%d.epw' % n)))
        if spec.get('param_source'):
            import s3_util as S3
            pf = S3.write_param_file(spec['param_source'], os.path.join(work, 'u4_%s_%d.uwg' % (prop, n)),
                                     spec['param_cells'])
            jobs.append((spec, 'cli simulate param',
                         pool.submit(G.cli_simulate_param, pf, spec['epw'], os.path.join(work, 'clip_%d' % n),
                                     'clip_%d.epw' % n)))
    for n, spec in enumerate(scenarios[:full]):
        submit_children(spec, n)
    help_job = pool.submit(cli_help_problem)
    plains = {}
    for n, spec in enumerate(scenarios):
        plain = run_one(spec, hooks, work, 'u4_%s_%d_plain.epw' % (prop, n), 'plain')
        plains[spec['label']] = plain
        count('plain')
        for k, v in plain['evaluations'].items():
            count('oracle:' + k, v)
        missing = [k for k in required if not any(e.startswith(k) for e in plain['evaluations'])]
        if missing and plain['verdict'] == 'ok':
            raise core.Infra('scenario %s never evaluated the oracle(s) %s (%s)' % (
                spec['label'], missing, sorted(plain['evaluations'])))
        for v in plain['violations']:
            report(spec, 'plain', v['observed'], 'the statement of %s at every step of the run' % prop, v['oracle'])
        if plain['caller_data']:
            report(spec, "caller's dictionary", 'UWG.from_dict / the run changed the dictionary it was given: %s'
                   % plain['caller_data'], 'the caller\'s data are left as they were')
        circs = CIRCUMSTANCES if n < full else CIRCUMSTANCES[:4]
        for circ in circs:
            r = run_one(spec, hooks, work, 'u4_%s_%d_c.epw' % (prop, n), circ, others)
            count(circ)
            for k, v in r['evaluations'].items():
                if k.startswith('render:') or k.startswith('caller-data:'):
                    count(k, v)
            for v in r['violations']:
                report(spec, circ, v['observed'], 'the statement of %s holds whoever looks at the objects, whatever the '
                       'logging level is and whoever else lives in the process' % prop, v['oracle'])
            if r['caller_data']:
                report(spec, circ, 'the dictionary given to UWG.from_dict was changed: %s' % r['caller_data'],
                       "the caller's data are left as they were")
            if r['verdict'] != plain['verdict']:
                report(spec, circ, 'the run %s; the plain run: %s' % (r['verdict'], plain['verdict']), 'the same verdict')
            elif r['records'] != plain['records'] or r['hash'] != plain['hash']:
                report(spec, circ, 'hourly records / written file differ from the plain run of the same scenario: %s; '
                       'file sha256 %s vs %s' % (first_record_difference(r['records'], plain['records']),
                                                 (r['hash'] or '')[:12], (plain['hash'] or '')[:12]),
                       'bit-identical records and byte-identical file')
    for spec, circ, fut in jobs:
        plain = plains[spec['label']]
        count(circ)
        if circ.startswith('cli simulate'):
            rc, path, err = fut.result()
            verdict = 'ok' if rc == 0 else 'exit status %s' % rc
            if (verdict == 'ok') != (plain['verdict'] == 'ok'):
                report(spec, circ, 'command line: %s (%s); library calls: %s' % (verdict, err.strip()[-200:], plain['verdict']),
                       'exit status 0 exactly when the library calls succeed')
            elif rc == 0 and (path is None or G.file_hash(path) != plain['hash']):
                report(spec, circ, 'the file written by `uwg ' + circ[4:] + '` %s' % (
                    'is missing' if path is None else 'differs from the one the library calls write (sha256 %s vs %s)' % (
                        G.file_hash(path)[:12], (plain['hash'] or '')[:12])), 'byte-identical file')
            continue
        rc, r, err = fut.result()
        if r is None:
            raise core.Infra('%s of scenario %s gave no result (rc %s): %s' % (circ, spec['label'], rc, err[-400:]))
        if circ == 'child -O' and not r.get('optimized'):
            raise core.Infra('python -O child did not run optimised')
        for v in r['violations']:
            report(spec, circ, v['observed'], 'the statement of %s holds in a fresh interpreter%s' % (
                prop, ' with assert statements stripped (python -O)' if circ.endswith('-O') else ''), v['oracle'])
        if r['verdict'] != plain['verdict']:
            report(spec, circ, 'the run %s; in the checking process: %s' % (r['verdict'], plain['verdict']),
                   'the same verdict')
        elif r['records'] != plain['records'] or r['hash'] != plain['hash']:
            report(spec, circ, 'hourly records / written file differ from the run in the checking process: %s' %
                   first_record_difference(r['records'], plain['records']), 'bit-identical records and file')
    for msg in help_job.result():
        report(scenarios[0], 'cli --help', msg, 'the command line offers what the unchanged tree offers')
    count('cli --help', 2)
    pool.shutdown()
    dig1 = G.class_level_digest()
    if dig1 != dig0:
        report(scenarios[0], 'class-level digest', 'the digest of the %d module- / class-level objects of the package '
               'changed during the runs (%s -> %s)' % (dig0[1], dig0[0][:12], dig1[0][:12]),
               'class-level data are constants')
    count('class-level digest')
    return counts, len(bad), plains


BATTERY_RULE = (
    'each scenario is one JSON-able description (rural file + UWG dictionary incl. hand-edited custom reference '
    'buildings) run through UWG.from_dict; generate; simulate; write_epw with the property\'s oracle wrapped around its '
    'kernels, first plain, then: DEBUG logging on the root and uwg loggers; the model and every reachable uwg object '
    'rendered (repr / str / ToString) after construction, after generate(), every 41st step, after simulate() and after '
    'write_epw(); both; `self` and the arguments of the kernel routines rendered right before and after every 5th call '
    '(digest of the rendered objects unchanged by rendering; read-only arguments unchanged by the call); other models '
    '(leap-year 8784-row rural file, southern-hemisphere site, other season / pavement / capacities, custom buildings '
    'with other optional keys) run before / generated while the scenario\'s model is alive / constructed before and '
    'generated after; a fresh interpreter and a `python -O` interpreter running the same oracle; `uwg simulate model` on '
    'the same JSON and `uwg simulate param` on the same parameters written as a .uwg file (exit status = verdict of '
    'the library calls, written file; --help lists the options of the unchanged tree); the dictionary given to '
    'from_dict compared with a snapshot; digest of all class-level data around everything. Demanded: the oracle holds '
    'in every run, and verdict, hourly records (bit for bit) and written file (byte for byte) equal the plain run')


def others_default(work, tag=''):
    """the models that live in the same process: legal, unlike the shipped examples in one respect each"""
    u = U.uwg_mod()
    import s3_util as S3
    src = U.rp(SGP[1])
    leap = variant_file(src, os.path.join(work, 'other_leap8784%s.epw' % tag), 'leap8784')
    south = site_file(src, os.path.join(work, 'other_south%s.epw' % tag), 'south-33.9-east', 'actual-year-header')
    bem, sch = custom_dicts(u, S3, condtype='WATER', cop=4.1, coolcap=55.0, bldtype='lab', builtera='pst80')
    bem['building']['heat_cap'] = 2.5
    bem2, sch2 = custom_dicts(u, S3, condtype='air', cop=2.2, coolcap=140.0, bldtype='studio', builtera='new')
    bem2['building']['heat_cap'] = 12345.0
    bem2['building']['floor_height'] = 4
    return [
        make_spec('other: leap-year rural file (8784 rows), February start', epw=leap, month=2, day=27, nday=3, dtsim=300,
                  vegstart=3, vegend=9),
        make_spec('other: southern site, custom lab with heat_cap 2.5, deep pavement', epw=south, month=7, day=1, nday=1,
                  dtsim=300, droad=1.3, kroad=2.2, vegstart=1, vegend=6, h_temp=10.0, h_obs=1.0,
                  customs=[(bem, sch), (bem2, sch2)],
                  bld=[('lab', 'pst80', 0.5), ('studio', 'new', 0.2), ('largeoffice', 'pst80', 0.3)]),
    ]


# ------------------------------------------------------------------------------------------------ exact ties
def observe(*objs):
    """repr / str / ToString of single objects (exceptions of a rendering ignored): what a debugger pane does with
    the kernel object between two steps"""
    for o in objs:
        for f in (repr, str):
            try:
                f(o)
            except Exception:  # noqa
                pass
        ts = getattr(o, 'ToString', None)
        if callable(ts):
            try:
                ts()
            except Exception:  # noqa
                pass


KERNEL_CIRCS = ['', '', 'rendered', 'DEBUG-logging', 'rendered+DEBUG-logging']


def circ_pick(rng):
    return rng.choice(KERNEL_CIRCS)


@contextlib.contextmanager
def under(circ):
    """context of a kernel-level case: DEBUG logging when the circumstance says so"""
    if 'DEBUG' in (circ or ''):
        with debug_on():
            yield
    else:
        yield


def rendered(circ):
    return 'rendered' in (circ or '')
