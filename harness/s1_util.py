"""Legal but never-varied rural weather files (shared by the C02 / C03 / C04 / C09 / C12 / C20 checks).

Every shipped EPW file says `HOLIDAYS/DAYLIGHT SAVINGS,No,0,0,0`, `DATA PERIODS,1,1,Data,Sunday, 1/ 1,12/31`, leaves the
soil conductivity / density / specific-heat cells of `GROUND TEMPERATURES` empty, has 8760 smooth rows and three
ground depths 0.5 / 2 / 4 m. The EPW data dictionary allows much more. This module builds such files from a
shipped one:

  header variants (`HEADER_VARIANTS`)   cells of header lines the model does not interpret: leap-year flag, daylight
                                        saving period (m/d, wrapping the year end, textual), listed holidays, start
                                        week-day of the data period, filled soil-property cells, comments, design
                                        conditions / typical periods dropped, and an "actual year" combination;
  leap files (`leap_rows`)              8784 rows: 24 rows stamped 2/29 inserted (distinct values), flag `Yes`;
  data variants                         isolated outliers (one record far from both neighbours) and EPW "missing"
                                        markers in the data rows, two-decimal wind speeds;
  ground lines (`ground_line`)          any list of depths, with or without the optional property cells.

The model is a 365-day clock driven by row offsets: what may be demanded of a variant is stated by the property of the
check that uses it (see the `rule` text of the ties), not here.
"""
import csv
import os

MDAYS = [31, 28, 31, 30, 31, 30, 31, 31, 30, 31, 30, 31]
MODELLED = [6, 8, 9, 12, 14, 15, 20, 21]
# EPW data dictionary: value that marks a missing observation, per column
MISSING = {6: '99.9', 7: '99.9', 8: '999', 9: '999999', 10: '9999', 11: '9999', 12: '9999', 13: '9999',
           14: '9999', 15: '9999', 16: '999999', 17: '999999', 18: '999999', 19: '9999', 20: '999', 21: '999',
           22: '99', 23: '99', 24: '9999', 25: '99999', 28: '999', 29: '.999', 30: '999', 31: '99'}
WEEKDAYS = ['Sunday', 'Monday', 'Tuesday', 'Wednesday', 'Thursday', 'Friday', 'Saturday']


def doy0(month, day):
    return sum(MDAYS[:month - 1]) + day - 1


def load_epw(path):
    with open(path, newline='', errors='ignore') as f:
        return [list(r) for r in csv.reader(f) if r]


def save_epw(rows, path):
    with open(path, 'w', newline='') as f:
        csv.writer(f, lineterminator='\n').writerows(rows)
    return path


def copy_rows(rows):
    return [list(r) for r in rows]


# ------------------------------------------------------------------------------------------ header variants
def _weekday(name):
    def f(rows):
        rows[7][4] = name
    return f


def _leapflag(rows):
    rows[4][1] = 'Yes'


def _dst(start, end):
    def f(rows):
        rows[4][2], rows[4][3] = start, end
    return f


def _holidays(rows):
    rows[4] = rows[4][:4] + ['3', "New Year's Day", ' 1/ 1', 'National Day', '8/9', 'Christmas', '12/25']


def _ground_props(rows, vals=(('1.3', '1500', '1200'), ('0.9', '1800', '840'), ('2.1', '2200', '1000'))):
    g = rows[3]
    n = int(g[1])
    for i in range(n):
        g[3 + 16 * i:6 + 16 * i] = list(vals[i % len(vals)])


def _ground_props_partial(rows):
    g = rows[3]
    n = int(g[1])
    for i in range(n):
        g[3 + 16 * i:6 + 16 * i] = [['1.3', '', ''], ['', '1650', ' '], ['0.75', '1500', '']][i % 3]


def _comments(rows):
    rows[5] = ['COMMENTS 1', 'Actual year file, "cleaned", stations 1, 2 and 3']
    rows[6] = ['COMMENTS 2', ' -- Ground temps measured, soil properties given; see header']


def _no_design(rows):
    rows[1] = ['DESIGN CONDITIONS', '0']
    rows[2] = ['TYPICAL/EXTREME PERIODS', '0']


def _location_text(rows):
    rows[0][1:6] = ['Elsewhere, "Airport"', 'XX', 'ZZZ', 'AMY', '999999']
    rows[0][9] = '120.5'


def _amy(rows):
    """What a file made from an actual (leap) year typically carries."""
    _weekday('Friday')(rows)
    _leapflag(rows)
    _dst('3/13', '11/6')(rows)
    _holidays(rows)
    _ground_props(rows)
    _comments(rows)


HEADER_VARIANTS = {
    'weekday-Monday': _weekday('Monday'), 'weekday-Tuesday': _weekday('Tuesday'),
    'weekday-Wednesday': _weekday('Wednesday'), 'weekday-Thursday': _weekday('Thursday'),
    'weekday-Friday': _weekday('Friday'), 'weekday-Saturday': _weekday('Saturday'),
    'leapflag-Yes': _leapflag,
    'dst-3/8-11/1': _dst('3/8', '11/1'), 'dst-3/29-10/25': _dst(' 3/29', '10/25'),
    'dst-10/4-4/5(wraps)': _dst('10/4', '4/5'), 'dst-doy-67-305': _dst('67', '305'),
    'dst-text': _dst('2nd Sunday in March', '1st Sunday in November'),
    'holidays-listed': _holidays,
    'ground-props-filled': _ground_props, 'ground-props-partly': _ground_props_partial,
    'comments': _comments, 'no-design-conditions': _no_design, 'location-text': _location_text,
    'actual-year-header': _amy,
}
# the variants grouped by the header line they touch (generators pick across groups)
GROUPS = {
    'weekday': [k for k in HEADER_VARIANTS if k.startswith('weekday')],
    'leapflag': ['leapflag-Yes'],
    'dst': [k for k in HEADER_VARIANTS if k.startswith('dst')],
    'holidays': ['holidays-listed'],
    'ground': ['ground-props-filled', 'ground-props-partly'],
    'text': ['comments', 'no-design-conditions', 'location-text'],
    'combined': ['actual-year-header'],
}


def pick_variants(rng, n, must=()):
    """`must` + one random member of each group in random order, cut to n names."""
    names = list(must)
    groups = list(GROUPS)
    rng.shuffle(groups)
    for g in groups:
        k = rng.choice(GROUPS[g])
        if k not in names:
            names.append(k)
    return names[:n]


def apply_variant(rows, name):
    """Copy of `rows` with the variant(s) `name` applied ('a+b' applies both). Besides the header variants:
    'leap8784' (24 rows stamped 2/29 inserted, flag Yes), 'leap8784noflag' (the same rows, flag left No),
    'base' (nothing)."""
    out = copy_rows(rows)
    for k in name.split('+'):
        if k == 'leap8784':
            out = leap_rows(out)
        elif k == 'leap8784noflag':
            out = leap_rows(out, flag='No')
        elif k != 'base':
            HEADER_VARIANTS[k](out)
    return out


def header_cells_changed(a, b):
    """[(line, cell, old, new)] for the 8 header lines of two files."""
    out = []
    for i in range(8):
        for j in range(max(len(a[i]), len(b[i]))):
            x = a[i][j] if j < len(a[i]) else None
            y = b[i][j] if j < len(b[i]) else None
            if x != y:
                out.append((i, j, x, y))
    return out


# ------------------------------------------------------------------------------------------ leap-year files
def leap_rows(rows, flag='Yes', dT=-2.0, rh_factor=0.6):
    """8784-row version: 24 rows stamped 2/29 inserted after 2/28. Their dry bulb / humidity / wind differ from
    both neighbouring days (2/28 made dT cooler and drier), so a row taken one day off is visible by value."""
    out = copy_rows(rows)
    i0 = 8 + 24 * doy0(2, 28)
    extra = []
    for r in out[i0:i0 + 24]:
        q = list(r)
        q[2] = '29'
        q[6] = '%.1f' % (float(r[6]) + dT)
        q[7] = '%.1f' % (float(r[7]) + 3 * dT)
        q[8] = '%d' % max(5, int(float(r[8]) * rh_factor))
        q[9] = '%d' % (int(float(r[9])) - 350)
        q[21] = '%.1f' % (float(r[21]) + 2.3)
        extra.append(q)
    out[i0 + 24:i0 + 24] = extra
    if flag is not None:
        out[4][1] = flag
    return out


def stamp_index(rows):
    """{(month, day, hour): index into rows} of the data rows (first occurrence)."""
    idx = {}
    for i in range(8, len(rows)):
        r = rows[i]
        try:
            idx.setdefault((int(r[1]), int(r[2]), int(r[3])), i)
        except (ValueError, IndexError):
            pass
    return idx


# ------------------------------------------------------------------------------------------ data variants
OUTLIER_DELTA = {6: 13.7, 8: -55, 9: -2100, 12: 160, 14: 600, 15: 300, 20: 170, 21: 9.5}


def put_outlier(rows, i, col, sign=1):
    """Make cell (i, col) an isolated outlier: far from the values of rows i-1 and i+1, in one direction."""
    lo = min(float(rows[i - 1][col]), float(rows[i + 1][col]))
    hi = max(float(rows[i - 1][col]), float(rows[i + 1][col]))
    d = abs(OUTLIER_DELTA[col])
    if col == 8:
        v = max(3, lo - d) if hi > 60 else min(100, hi + d)
        rows[i][col] = '%d' % v
    elif col == 6:
        rows[i][col] = '%.1f' % (hi + d if sign > 0 else lo - d)
    elif col == 21:
        rows[i][col] = '%.1f' % (hi + d)
    elif col == 20:
        rows[i][col] = '%d' % ((int(hi) + 170) % 360)
    elif col == 9:
        rows[i][col] = '%d' % (lo - d)
    else:
        rows[i][col] = '%d' % (hi + d)
    return rows[i][col]


def two_decimal_wind(rows, first=8, last=None):
    """Wind column with two decimals: w_k = ((37k) mod 1200) / 100 (row-identifying, many below 1 m/s)."""
    k = 0
    for i in range(first, last if last is not None else len(rows)):
        rows[i][21] = '%.2f' % (((37 * k + 5) % 1200) / 100.0)
        k += 1
    return rows


# ------------------------------------------------------------------------------------------ ground temperatures
def ground_line(depths, props=None, temps=None):
    """GROUND TEMPERATURES header line. props: None (cells empty) or a list of (cond, dens, heat) texts per depth;
    temps: function (i, month0) -> text; default 20 + i + 0.5*month."""
    cells = ['GROUND TEMPERATURES', str(len(depths))]
    for i, dep in enumerate(depths):
        p = list(props[i % len(props)]) if props else ['', '', '']
        cells += [str(dep)] + p + [(temps(i, m) if temps else '%.1f' % (20 + i + 0.5 * m)) for m in range(12)]
    return cells


def ground_of(rows):
    """(depths, temps[i][month0], props[i]) parsed from header line 4 by the EPW layout: N, then per depth
    depth, conductivity, density, specific heat, 12 monthly values (16 cells)."""
    g = rows[3]
    n = int(g[1])
    depths = [float(g[2 + 16 * i]) for i in range(n)]
    temps = [[float(g[6 + 16 * i + m]) for m in range(12)] for i in range(n)]
    props = [g[3 + 16 * i:6 + 16 * i] for i in range(n)]
    return depths, temps, props


def write_variant(work, src_rows, name, tag=''):
    p = os.path.join(work, 'hv_%s%s.epw' % (tag, ''.join(c if c.isalnum() else '_' for c in name)))
    save_epw(apply_variant(src_rows, name), p)
    return p
