"""Helpers around the real uwg package (imported from the working tree under test)."""
import hashlib
import logging
import os
import struct
import types

import core

EPW_SGP = 'resources/SGP_Singapore.486980_IWEC.epw'
PARAM_SGP = 'resources/initialize_singapore.uwg'


def uwg_mod():
    core.repo_python_path()
    import uwg
    return uwg


def rp(rel):
    return os.path.join(core.REPO, rel)


def new_model(param=PARAM_SGP, epw=EPW_SGP, outdir=None, outname=None, **attrs):
    u = uwg_mod()
    m = u.UWG.from_param_file(rp(param), epw_path=rp(epw), new_epw_dir=outdir, new_epw_name=outname)
    for k, v in attrs.items():
        setattr(m, k, v)
    return m


def records(m):
    """Hourly records of a finished simulation as a tuple of exact float reprs."""
    out = []
    for n in range(len(m.UCMData)):
        u, w, b = m.UCMData[n], m.WeatherData[n], m.UBLData[n]
        if u is None or w is None:
            out.append(None)
            continue
        out.append((repr(u.canTemp), repr(u.canHum), repr(u.canRHum), repr(u.Tdp), repr(w.wind),
                    repr(w.temp), repr(b.ublTemp), repr(u.sensHeat)))
    return tuple(out)


def fnum(x):
    if isinstance(x, float):
        return struct.pack('>d', x).hex()
    return repr(x)


def fingerprint(obj, skip=(), _depth=0, _seen=None):
    """Deterministic structural digest of an object graph (floats bit-exact, dict keys sorted,
    object identity ignored, shared sub-objects expanded). Used to compare *states*."""
    h = hashlib.sha256()

    def walk(o, depth, path):
        if depth > 12:
            h.update(b'<deep>')
            return
        if o is None or isinstance(o, (bool, int, str)):
            h.update(repr(o).encode())
        elif isinstance(o, float):
            h.update(fnum(o).encode())
        elif isinstance(o, (list, tuple)):
            h.update(b'[')
            for x in o:
                walk(x, depth + 1, path)
                h.update(b',')
            h.update(b']')
        elif isinstance(o, (set, frozenset)):
            h.update(b'{' + repr(sorted(map(repr, o))).encode() + b'}')
        elif isinstance(o, dict):
            h.update(b'{')
            for k in sorted(o, key=repr):
                if k in skip:
                    continue
                h.update(repr(k).encode() + b':')
                walk(o[k], depth + 1, path)
            h.update(b'}')
        elif isinstance(o, (types.FunctionType, types.BuiltinFunctionType, types.MethodType, type,
                            types.ModuleType, staticmethod, classmethod, property)):
            h.update(b'<code>')
        elif hasattr(o, '__dict__'):
            if id(o) in path:
                h.update(b'<cycle>')
                return
            h.update(type(o).__name__.encode() + b'(')
            walk({k: v for k, v in vars(o).items() if k != 'logger'}, depth + 1, path | {id(o)})
            h.update(b')')
        else:
            h.update(repr(type(o)).encode())
    walk(obj, 0, frozenset())
    return h.hexdigest()


def model_state(m):
    """Digest of everything a simulation starts from (after generate)."""
    names = ['BEM', 'Sch', 'road', 'rural', 'UCM', 'UBL', 'RSM', 'USM', 'forcIP', 'forc', 'simTime',
             'geoParam', 'weather', 'r_glaze_total', 'SHGC_total', 'alb_wall_total', 'lat', 'lon', 'gmt',
             'nSoil', 'Tsoil', 'depth_soil', '_soilindex1', '_soilindex2']
    return fingerprint({k: getattr(m, k, '<unset>') for k in names}, skip=('_climate_data',))


def package_globals_digest(u=None):
    """Digest of all module-level and class-level data of the uwg package (for the C05 frame check)."""
    import sys
    u = u or uwg_mod()
    acc = {}
    for name, mod in sorted(sys.modules.items()):
        if not (name == 'uwg' or name.startswith('uwg.')) or mod is None:
            continue
        for k, v in sorted(vars(mod).items()):
            if k.startswith('__'):
                continue
            if isinstance(v, type):
                if getattr(v, '__module__', '').startswith('uwg'):
                    acc['%s.%s' % (name, k)] = {a: b for a, b in vars(v).items()
                                                if not a.startswith('__') and not callable(b)
                                                and not isinstance(b, (property, staticmethod, classmethod))}
            elif not callable(v) and not isinstance(v, types.ModuleType) and not isinstance(v, logging.Logger):
                # (logger objects carry the logging manager's level caches, which change whenever a record is
                #  emitted: they are configuration of the logging module, not data of the package)
                acc['%s.%s' % (name, k)] = v
    return fingerprint(acc), len(acc)
