"""Driver-only execution of the REAL `UWG.simulate` (used by C02, C04).

The step loop of `simulate` is executed unchanged; only the physics it calls is replaced by no-ops, from
outside (no source hooks):

  uwg.uwg.SolarCalcs      -> class whose solarcalcs() returns (rural, UCM, BEM) unchanged
  uwg.uwg.urbflux         -> returns (UCM, UBL, BEM); this stub is also the per-step observation point
  uwg.uwg.psychrometrics  -> returns six zeros; called exactly when a record is taken -> record events
  model.UCM.UCModel, model.UBL.ublmodel, model.rural.SurfFlux, model.RSM.vdm -> no-ops (instance attrs)

The observation point reads the loop's own variables `it` and `n` from the frame of `simulate`, the clock
fields from `model.simTime`, `model.ceil_time_step`, `model.dayType` and the forcing values just copied
into `model.forc`. To see which (day type, hour) and month the look-ups use, the traffic schedule and the
ground-temperature table of the *generated object* are replaced by index-encoding tables
(schtraffic[d][h] = 100*d + h with sensanth = 1; Tsoil[i][m] = m + 1), and the first building's
electricity schedule likewise (Sch[0].elec[d][h] = 100*d + h, q_elec = 1).

Everything patched is restored afterwards.
"""
import contextlib
import io
import os
import sys

import core


def data_dir(*parts):
    """tests/ and resources/ data files: from the tree under test if it has them, else from /repo."""
    for base in (core.REPO, '/repo'):
        p = os.path.join(base, *parts)
        if os.path.exists(p):
            return p
    raise core.Infra('data file %s not found' % os.path.join(*parts))


EPWS = ['SGP_Singapore.486980_IWEC.epw', 'USA_MA_Boston-Logan.Intl.AP.725090_TMY3.epw',
        'CAN_ON_Toronto.716240_CWEC.epw', 'CHN_Beijing.Beijing.545110_IWEC.epw',
        'USA_PA_Philadelphia.Intl.AP.724080_TMY3.epw']


def epw_path(name=None):
    return data_dir('tests', 'epw', name or EPWS[0])


def param_path():
    return data_dir('tests', 'parameters', 'initialize_singapore.uwg')


def build_model(month, day, nday, dtsim, epw=None, new_epw_dir=None, new_epw_name=None,
                dtweather=None):
    """Real UWG object, parameters from the shipped Singapore file, then `generate()`.
    Exceptions of the constructor / setters / generate propagate."""
    from uwg import UWG
    model = UWG.from_param_file(param_path(), epw_path=epw or epw_path(),
                                new_epw_dir=new_epw_dir, new_epw_name=new_epw_name)
    model.month = month
    model.day = day
    model.nday = nday
    model.dtsim = dtsim
    if dtweather is not None:
        model.dtweather = dtweather
    model.generate()
    return model


FORC_FIELDS = ('infra', 'wind', 'uDir', 'hum', 'pres', 'temp', 'rHum', 'prec', 'dif', 'dir')


class DriverRun(object):
    """Result of a driver-only run."""

    def __init__(self):
        self.steps = []      # per step tuple, see STEP_FIELDS
        self.records = []    # (n, it) in the order taken
        self.forc_ok = True  # every step: forc.<f> is forcIP.<f>[ceil_time_step] (wind: max with windMin)
        self.forc_bad = None
        self.error = None    # exception class name if simulate raised
        self.error_msg = None
        self.N = None
        self.nt = None
        self.rows = None     # len(forcIP.temp): rural rows in the window
        self.expect = None   # expect[row] = forcing tuple that row must produce (FORC_FIELDS order)
        self.stored = None   # stored[n] = forcing tuple held by WeatherData[n]


STEP_FIELDS = ('it', 'row', 'secDay', 'hourDay', 'month', 'day', 'julian', 'dayType', 'n',
               'tsoilMonth', 'trafD', 'trafH', 'schD', 'schH')


def enc_value(fi, row):
    """Distinct, exactly representable stand-in for rural value `FORC_FIELDS[fi]` of window row `row`."""
    if FORC_FIELDS[fi] == 'wind':
        return 0.25 + row / 16.0          # rows 0..11 lie below windMin = 1
    return 100000.0 * (fi + 1) + row


def driver_only_run(model, check_forc=True):
    """Run the real `model.simulate()` with the physics stubbed; return a DriverRun.

    With `check_forc` the rural lists of `model.forcIP` are replaced (for the duration of the run) by
    lists of the same length holding `enc_value(field, row)`, so that the forcing copied at a step and
    the forcing stored in a record identify the rural row they came from by value."""
    import uwg.uwg as U
    run = DriverRun()
    st = model.simTime
    forcIP = model.forcIP
    wmin = model.geoParam.windMin
    saved_forc = {f: getattr(forcIP, f) for f in FORC_FIELDS}
    nrows = len(forcIP.temp)
    run.rows = nrows
    wi = FORC_FIELDS.index('wind')
    expect = [tuple(max(enc_value(fi, r), wmin) if fi == wi else enc_value(fi, r)
                    for fi in range(len(FORC_FIELDS))) for r in range(nrows)]
    run.expect = expect

    class _Solar(object):
        def __init__(self, UCM, BEM, simTime, RSM, forc, geoParam, rural):
            self._r = (rural, UCM, BEM)

        def solarcalcs(self):
            return self._r

    def _urbflux(UCM, UBL, BEM, forc, geoParam, simTime, RSM):
        fl = sys._getframe(1).f_locals
        it, n = fl['it'], fl['n']
        row = model.ceil_time_step
        enc = UCM.sensAnthrop
        sch = BEM[0].elec if BEM else -1
        run.steps.append((it, row, int(st.secDay), st.hourDay, st.month, int(st.day), st.julian,
                          model.dayType, n, int(forc.deepTemp), int(enc) // 100, int(enc) % 100,
                          int(sch) // 100 if BEM else -1, int(sch) % 100 if BEM else -1))
        if check_forc and run.forc_ok:
            got = (forc.infra, forc.wind, forc.uDir, forc.hum, forc.pres, forc.temp, forc.rHum,
                   forc.prec, forc.dif, forc.dir)
            if not (0 <= row < nrows) or got != expect[row]:
                run.forc_ok = False
                run.forc_bad = (it, row, got, expect[row] if 0 <= row < nrows else None)
        return UCM, UBL, BEM

    def _psy(*a):
        fl = sys._getframe(1).f_locals
        run.records.append((fl['n'], fl['it']))
        return 0., 0., 0., 0., 0., 0.

    def _noop(*a, **k):
        return None

    saved_mod = {k: getattr(U, k) for k in ('SolarCalcs', 'urbflux', 'psychrometrics')}
    saved_obj = [(model, 'Tsoil', model.Tsoil), (model, 'schtraffic', model.schtraffic),
                 (model, 'sensanth', model.sensanth)]
    inst = [(model.UCM, 'UCModel'), (model.UBL, 'ublmodel'), (model.rural, 'SurfFlux'),
            (model.RSM, 'vdm')]
    sch0 = None
    try:
        if check_forc:
            for fi, f in enumerate(FORC_FIELDS):
                setattr(forcIP, f, [enc_value(fi, r) for r in range(len(saved_forc[f]))])
        U.SolarCalcs = _Solar
        U.urbflux = _urbflux
        U.psychrometrics = _psy
        for o, name in inst:
            setattr(o, name, _noop)
        # index-encoding look-up tables on the generated object (private attrs: bypass validation)
        model.Tsoil = [[m + 1 for m in range(12)] for _ in range(max(model.nSoil, 3))]
        model._schtraffic = [[100 * d + h for h in range(24)] for d in range(3)]
        model._sensanth = 1
        if model.BEM:
            s = model.Sch[0]
            sch0 = (s, s._elec, s._q_elec)
            s._elec = [[100 * d + h for h in range(24)] for d in range(3)]
            s._q_elec = 1
        run.nt = st.nt
        with contextlib.redirect_stdout(io.StringIO()):
            try:
                model.simulate()
            except Exception as e:  # noqa: BLE001 - classified by the caller
                run.error = type(e).__name__
                run.error_msg = str(e)[:200]
        run.N = getattr(model, 'N', None)
        # what the records hold: slot n -> tuple of the ten stored forcing values (None = slot empty)
        run.stored = []
        if not run.error:
            for wd in model.WeatherData:
                run.stored.append(None if wd is None else tuple(getattr(wd, f) for f in FORC_FIELDS))
    finally:
        for f, v in saved_forc.items():
            setattr(forcIP, f, v)
        for k, v in saved_mod.items():
            setattr(U, k, v)
        for o, name in inst:
            try:
                delattr(o, name)
            except AttributeError:
                pass
        model.Tsoil = saved_obj[0][2]
        model._schtraffic = saved_obj[1][2]
        model._sensanth = saved_obj[2][2]
        if sch0:
            sch0[0]._elec, sch0[0]._q_elec = sch0[1], sch0[2]
    return run
