"""Fourth round (sub-agent U2): the six *circumstances* of harness/generic.py applied to the scenarios of C06, C07,
C08, C10 and C17.

* `run_scenario(spec)`: a small interpreter of operation lists on named UWG objects (new / set / gen / sim / write /
  poke / observe ...). The SAME interpreter runs in this process, in a fresh interpreter (`python`), and in a fresh
  optimised interpreter (`python -O`): `children(specs)` starts them concurrently. Every observable it returns is plain
  JSON (reprs of doubles, SHA-256 digests of states and files), so the outcome of one scenario can be compared between
  processes and interpreter modes byte for byte. After every operation the digest of all module- and class-level data
  of the package is taken: an operation on a model must not change it.
* caller-owned data: `from_dict_twice` (any class with from_dict: the argument is left as it was, a second use of the
  same dictionary object gives an equal object), `detached` helpers for dictionaries handed out by to_dict.
* the command line as a route: `cli_capture` (click runner in this process with `UWG.generate` wrapped, so that the
  model the command builds can be judged by a property oracle), `cli_options` (what `--help` lists).

No `assert` statement is used here on purpose: this module is also executed under `python -O`."""
import concurrent.futures
import contextlib
import copy
import json
import logging
import os
import re
import sys

import core
import generic as G
import uwgutil as U

ERAS = ('pre80', 'pst80', 'new')
OV = ('glzr', 'shgc', 'albwall', 'albroof', 'vegroof', 'flr_h')


# ---------------------------------------------------------------------------------------------- package-level data
def class_digest():
    """uwgutil.package_globals_digest without logging.Logger objects (a module-level `_logger`, as uwg/cli/simulate.py
    has one, drags the logging manager with the level caches of every logger into the digest: they change whenever a
    record is emitted at a new level, which is no state of the package)"""
    import types
    acc = {}
    for name, mod in sorted(sys.modules.items()):
        if not (name == 'uwg' or name.startswith('uwg.')) or mod is None:
            continue
        for k, v in sorted(vars(mod).items()):
            if k.startswith('__') or isinstance(v, logging.Logger):
                continue
            if isinstance(v, type):
                if getattr(v, '__module__', '').startswith('uwg'):
                    acc['%s.%s' % (name, k)] = {a: b for a, b in vars(v).items()
                                                if not a.startswith('__') and not callable(b) and
                                                not isinstance(b, (property, staticmethod, classmethod, logging.Logger))}
            elif not callable(v) and not isinstance(v, types.ModuleType):
                acc['%s.%s' % (name, k)] = v
    return U.fingerprint(acc)


# ---------------------------------------------------------------------------------------------- custom reference data
def make_customs(uwg, specs):
    """[{type, era, src: [i, j, k], bem: {dotted attribute: value}, sch: {attribute: value | {'const': x}}}] ->
    (BEMDef list, SchDef list): deep copies of library cells, re-labelled and modified through the public setters"""
    ref, sch = uwg.UWG.load_refDOE()
    bv, sv = [], []
    for sp in specs:
        i, j, k = sp['src']
        b, s_ = copy.deepcopy(ref[i][j][k]), copy.deepcopy(sch[i][j][k])
        b.bldtype = s_.bldtype = sp['type']
        b.builtera = s_.builtera = sp['era']
        for path, v in (sp.get('bem') or {}).items():
            o = b
            parts = path.split('.')
            for p in parts[:-1]:
                o = getattr(o, p)
            setattr(o, parts[-1], v)
        for name, v in (sp.get('sch') or {}).items():
            if isinstance(v, dict) and 'const' in v:
                v = [[v['const']] * 24 for _ in range(3)]
            setattr(s_, name, v)
        bv.append(b)
        sv.append(s_)
    return bv, sv


# ---------------------------------------------------------------------------------------------- scenario interpreter
def typed_text(x):
    """plain data as text that tells int from float and bool (json.dumps merges nothing, but 1 == 1.0 == True in Python)"""
    if isinstance(x, dict):
        return '{' + ','.join('%s:%s' % (k, typed_text(x[k])) for k in sorted(x)) + '}'
    if isinstance(x, (list, tuple)):
        return '[' + ','.join(typed_text(v) for v in x) + ']'
    return '%s:%r' % (type(x).__name__, x)


def bem_summary(m):
    out = []
    for b in getattr(m, 'BEM', []):
        out.append([b.bldtype, b.builtera, b.zonetype, repr(b.frac), repr(b.building.glazing_ratio),
                    repr(b.building.shgc), repr(b.wall.albedo), repr(b.roof.albedo), repr(b.roof.vegcoverage),
                    repr(b.building.floor_height), repr(b.building.coolcap), repr(b.building.heat_cap),
                    'indoor %r K / %r kg/kg' % (b.building.indoor_temp, b.building.indoor_hum),
                    'outer wall layer %r K' % (b.wall.layerTemp[0],)])
    return out


def sch_summary(m):
    return [[s_.bldtype, s_.builtera, U.fingerprint(s_)[:20],
             'q_elec %r W/m2, cooling set point at noon %r C' % (s_.q_elec, s_.cool[0][12])]
            for s_ in getattr(m, 'Sch', [])]


STATE_NAMES = ['BEM', 'Sch', 'road', 'rural', 'UCM', 'UBL', 'RSM', 'USM', 'forcIP', 'forc', 'simTime', 'geoParam',
               'weather', 'r_glaze_total', 'SHGC_total', 'alb_wall_total', 'lat', 'lon', 'gmt', 'nSoil', 'Tsoil',
               'depth_soil', '_soilindex1', '_soilindex2']


def state_parts(m):
    """the digest of uwgutil.model_state, per component so that a difference can be named"""
    return {k: U.fingerprint(getattr(m, k, '<unset>'), skip=('_climate_data',))[:24] for k in STATE_NAMES}


SCH_FIELDS = ('elec', 'gas', 'light', 'occ', 'cool', 'heat', 'swh', 'q_elec', 'q_gas', 'q_light', 'n_occ', 'vent', 'v_swh')


def sch_values(s_):
    """what a schedule set says (lists and tuples alike), without labels"""
    def norm(v):
        return [norm(x) for x in v] if isinstance(v, (list, tuple)) else v
    return [norm(getattr(s_, f)) for f in SCH_FIELDS]


def observe(m):
    d = {'bem': bem_summary(m), 'sch': sch_summary(m),
         'totals': [repr(getattr(m, n, None)) for n in ('r_glaze_total', 'SHGC_total', 'alb_wall_total')],
         'state': state_parts(m) if hasattr(m, 'BEM') else None,
         'overrides': [repr(getattr(m, k, None)) for k in OV],
         'bld': repr([list(r) for r in m.bld]) if isinstance(m.bld, (list, tuple)) else repr(m.bld)}
    return d


def records_of(m):
    if not hasattr(m, 'UCMData'):
        return None
    return [None if r is None else list(r) for r in U.records(m)]


def new_from_spec(uwg, ms):
    """ms: {param, epw, out: [dir, name], attrs: [[name, value], ...], customs: [...]}; everything through the
    public constructors and setters"""
    param = ms.get('param') or U.rp(U.PARAM_SGP)
    epw = ms.get('epw') or U.rp(U.EPW_SGP)
    out = ms.get('out') or [None, None]
    if out[0]:
        os.makedirs(out[0], exist_ok=True)
    m = uwg.UWG.from_param_file(param, epw_path=epw, new_epw_dir=out[0], new_epw_name=out[1])
    if ms.get('customs'):
        bv, sv = make_customs(uwg, ms['customs'])
        m.ref_bem_vector, m.ref_sch_vector = m._check_reference_data(bv, sv)
    for name, value in ms.get('attrs') or []:
        if name == 'bld':
            value = [tuple(r) for r in value]
        setattr(m, name, value)
    return m


def run_scenario(spec):
    """spec: {'ops': [...], 'debug': bool}. Operations: [new, name, modelspec] [set, name, attr, value]
    [gen|sim|simp|write|poke, name] [obs|rec, name, label] [del, name]. `simp` = simulate() while the model is
    rendered every 41st step. Every failing operation is caught and logged as 'raised <Class>'."""
    uwg = U.uwg_mod()
    models, log, obs, changes, dcache = {}, [], {}, [], {}
    cl0 = class_digest()
    ctx = G.debug_logging() if spec.get('debug') else contextlib.nullcontext()
    with ctx:
        for n, op in enumerate(spec['ops']):
            k = op[0]
            try:
                with core.quiet():
                    if k == 'new':
                        models[op[1]] = new_from_spec(uwg, op[2])
                    elif k == 'newd':                   # the dictionary / JSON route: from_dict(json.load(file))
                        ms = op[2]
                        if ms['out'][0]:
                            os.makedirs(ms['out'][0], exist_ok=True)
                        if ms['json'] not in dcache:    # (two models built from one file share ONE dictionary object)
                            dcache[ms['json']] = json.load(open(ms['json']))
                        models[op[1]] = uwg.UWG.from_dict(dcache[ms['json']], epw_path=ms.get('epw') or U.rp(U.EPW_SGP),
                                                          new_epw_dir=ms['out'][0], new_epw_name=ms['out'][1])
                    elif k == 'newf':                   # the parameter-file route
                        ms = op[2]
                        if ms['out'][0]:
                            os.makedirs(ms['out'][0], exist_ok=True)
                        models[op[1]] = uwg.UWG.from_param_file(ms['param'], ms.get('epw') or U.rp(U.EPW_SGP), ms['out'][0],
                                                                ms['out'][1])
                    elif k == 'dict':                   # what to_dict(include_refDOE=True) says, as typed canonical text
                        obs[op[2]] = typed_text(models[op[1]].to_dict(include_refDOE=True))
                    elif k == 'set':
                        v = op[3]
                        if op[2] == 'bld' and v is not None:
                            v = [tuple(r) for r in v]
                        setattr(models[op[1]], op[2], v)
                    elif k == 'gen':
                        models[op[1]].generate()
                    elif k == 'sim':
                        models[op[1]].simulate()
                    elif k == 'simp':
                        undo = G.poke_during(models[op[1]])
                        try:
                            models[op[1]].simulate()
                        finally:
                            undo()
                    elif k == 'write':
                        models[op[1]].write_epw()
                    elif k == 'poke':
                        G.poke(models[op[1]])
                    elif k == 'obs':
                        obs[op[2]] = observe(models[op[1]])
                    elif k == 'rec':
                        m = models[op[1]]
                        p = None
                        try:
                            p = m.new_epw_path
                        except Exception:  # noqa
                            pass
                        obs[op[2]] = {'records': records_of(m),
                                      'file': G.file_hash(p) if p and os.path.exists(p) else None}
                    elif k == 'del':
                        del models[op[1]]
                    else:
                        raise core.Infra('unknown scenario operation %r' % (op,))
                log.append('ok')
            except core.Infra:
                raise
            except Exception as e:  # noqa: BLE001
                log.append('raised ' + type(e).__name__)
            cl = class_digest()
            if cl != cl0:
                changes.append([n, op[:2] if k != 'set' else op[:3]])
                cl0 = cl
    return {'log': log, 'obs': obs, 'class_level_changes': changes, 'optimized': not __debug__}


def child_main():
    spec = json.load(open(sys.argv[1]))
    out = run_scenario(spec)
    sys.stdout.write('\n' + json.dumps(out) + '\n')


CHILD_CODE = 'import u2_util\nu2_util.child_main()\n'


def children(specs, workdir, workers=8, timeout=600):
    """specs: [(tag, spec, optimize)] -> {tag: (rc, document or None, stderr tail)}; concurrently, each in a fresh
    interpreter of the tree under test"""
    def one(item):
        tag, spec, opt = item
        p = os.path.join(workdir, 'scn_%s.json' % re.sub(r'[^A-Za-z0-9_.-]', '_', tag))
        with open(p, 'w') as f:
            json.dump(spec, f)
        rc, doc, err = G.child_json(CHILD_CODE, optimize=opt, args=[p], timeout=timeout,
                                    env={'UWG_REPO': core.REPO})
        return tag, (rc, doc, (err or '')[-600:])
    with concurrent.futures.ThreadPoolExecutor(max_workers=workers) as ex:
        return dict(ex.map(one, specs))


def diff_docs(a, b, labels=None):
    """first difference between the observables of two scenario outcomes (labels: which observations to compare)"""
    for lab in (labels or sorted(set(a['obs']) | set(b['obs']))):
        x, y = a['obs'].get(lab), b['obs'].get(lab)
        w = G.where_differs(x, y)
        if w:
            return 'observation %r: %s' % (lab, w[:300])
    return None


# ---------------------------------------------------------------------------------------------- caller-owned data
def from_dict_twice(cls, d, equal, kwargs=None):
    """cls.from_dict(d) twice on the SAME dictionary object. Returns (message or None, verdict):
    the argument must be left exactly as it was (keys, values, types), and the second object must equal the first
    (`equal(o1, o2)` -> None or a description); a refused dictionary must be refused again, with the same class."""
    kwargs = kwargs or {}
    before = G.snapshot(d)
    res, msgs = [], []
    for _ in range(2):
        try:
            with core.quiet():
                res.append(('ok', cls.from_dict(d, **kwargs)))
        except Exception as e:  # noqa: BLE001
            res.append(('raised ' + type(e).__name__, None))
        w = G.where_differs(before, d)
        if w and not msgs:
            msgs.append('%s.from_dict changed the dictionary it was given (use %d): %s' % (cls.__name__, len(res), w))
    if res[0][0] != res[1][0]:
        msgs.append('first use of the dictionary: %s; second use of the same dictionary: %s' % (res[0][0], res[1][0]))
    elif res[0][1] is not None:
        w = equal(res[0][1], res[1][1])
        if w:
            msgs.append('the object built from the second use of the dictionary differs from the first: %s' % w)
    return ('; '.join(msgs) or None), res[0][0]


def sub_dicts(d, path=''):
    """every typed sub-dictionary ({'type': 'Material' | 'Element' | 'Building' | 'BEMDef' | 'SchDef'}) of a UWG
    dictionary with its path"""
    out = []
    if isinstance(d, dict):
        if d.get('type') in ('Material', 'Element', 'Building', 'BEMDef', 'SchDef') and path:
            out.append((path, d))
        for k, v in d.items():
            out += sub_dicts(v, '%s[%r]' % (path, k))
    elif isinstance(d, list):
        for i, v in enumerate(d):
            out += sub_dicts(v, '%s[%d]' % (path, i))
    return out


# ---------------------------------------------------------------------------------------------- command line
@contextlib.contextmanager
def no_log_noise():
    logging.disable(logging.CRITICAL)
    try:
        yield
    finally:
        logging.disable(logging.NOTSET)


def cli_capture(args):
    """`uwg simulate <args>` through the click test runner IN THIS PROCESS, with `UWG.generate` wrapped (class level,
    restored afterwards) to get hold of the model objects the command builds: (exit code, [models], result)"""
    from click.testing import CliRunner
    uwg = U.uwg_mod()
    from uwg.cli.simulate import simulate
    orig = uwg.UWG.__dict__['generate']
    got = []

    def wrapped(self):
        got.append(self)
        return orig(self)
    uwg.UWG.generate = wrapped
    try:
        with no_log_noise():
            res = CliRunner().invoke(simulate, list(args))
    finally:
        uwg.UWG.generate = orig
    return res.exit_code, got, res


# what `--help` of the unchanged tree lists (commands, arguments, options)
CLI_SURFACE = {
    (): (['simulate', 'validate', 'viz'], ['--help', '--version']),
    ('simulate',): (['model', 'param'], ['--help']),
    ('simulate', 'model'): (['MODEL_JSON', 'EPW_PATH'], ['--help', '--new-epw-dir', '--new-epw-name']),
    ('simulate', 'param'): (['PARAM_UWG', 'EPW_PATH'], ['--help', '--new-epw-dir', '--new-epw-name']),
}


def cli_surface(path):
    """(commands or arguments, options) that `python -m uwg <path> --help` lists"""
    rc, out, err = G.cli(list(path) + ['--help'])
    if rc != 0:
        return None, 'exit status %s: %s' % (rc, (err or out)[-200:])
    opts = sorted(set(re.findall(r'^\s+(--[a-z][a-z-]*)', out, flags=re.M)))
    usage = re.search(r'^Usage: .*?\[OPTIONS\](.*)$', out, flags=re.M)
    words = usage.group(1).split() if usage else []
    if 'COMMAND' in words:
        sect = out.split('Commands:')[1] if 'Commands:' in out else ''
        words = sorted(re.findall(r'^\s{2}([a-z][a-z-]*)\s', sect, flags=re.M))
    return (words, opts), None


def cli_surface_problems(paths=None):
    """compare the command-line surface with the one of the unchanged tree: [] or messages"""
    out = []
    todo = [p for p in CLI_SURFACE if paths is None or p in paths]
    with concurrent.futures.ThreadPoolExecutor(max_workers=4) as ex:
        got = list(ex.map(cli_surface, todo))
    for p, (g, err) in zip(todo, got):
        want = CLI_SURFACE[p]
        if err:
            out.append('`uwg %s --help`: %s' % (' '.join(p), err))
        elif sorted(g[0]) != sorted(want[0]) or g[1] != want[1]:
            out.append('`uwg %s --help` lists %s with options %s; the commands / arguments are %s with options %s' % (
                ' '.join(p), g[0], g[1], want[0], want[1]))
    return out


def complete_numeric_file(path, rural, first=None, n=None, prec=1):
    """a written weather file is complete: as many lines as the rural file, modelled cells numeric"""
    import csv
    rows = list(csv.reader(open(path, newline='', errors='ignore')))
    nr = sum(1 for _ in open(rural, errors='ignore'))
    if len(rows) != nr:
        return 'the written file has %d lines, the rural file %d' % (len(rows), nr)
    pat = re.compile(r'^-?\d+(\.\d{%d})?$' % prec) if prec else re.compile(r'^-?\d+$')
    lo = 8 if first is None else first
    hi = len(rows) if n is None else first + n
    for i in range(lo, hi):
        for c in (6, 7, 8, 21):
            if first is not None and not pat.match(rows[i][c]):
                return 'row %d column %d written as %r' % (i, c, rows[i][c])
            if first is None:
                try:
                    x = float(rows[i][c])
                    if x != x or x in (float('inf'), float('-inf')):
                        return 'row %d column %d written as %r' % (i, c, rows[i][c])
                except ValueError:
                    return 'row %d column %d written as %r' % (i, c, rows[i][c])
    return None
