"""C04 - model clock and day type equal the true calendar at every step.

Round 5 (harness/v1_util.py FloatLoop): the REAL float step loop of simulate for all 45 divisors over realistic horizons
with the calendar oracle inline at every step, and midnight probes for every (dt, day offset) - float_loop_family."""
import datetime
import os

import core
import simdriver

MODULE = 'UwgVerif.Props.C04'
THEOREMS = ['Uwg.C04.clock_correct', 'Uwg.C04.clock_correct_fields', 'Uwg.C04.clock_invariant',
            'Uwg.C04.create_ok_iff', 'Uwg.C04.no_timestep_error', 'Uwg.C04.dayType_correct',
            'Uwg.C04.dayType_at_step', 'Uwg.C04.year_end', 'Uwg.C04.year_end_dayType']

MDAYS = [31, 28, 31, 30, 31, 30, 31, 31, 30, 31, 30, 31]
DIVISORS = [d for d in range(1, 3601) if 3600 % d == 0]
HASH_P = 2305843009213693951
YEAR = 365 * 86400
BASE = datetime.datetime(2023, 1, 1)          # non-leap, 1 January 2023 was a Sunday
BASE_ORD = BASE.toordinal()


def dates():
    return [(m + 1, d + 1) for m in range(12) for d in range(MDAYS[m])]


def doy0(M, D):
    return sum(MDAYS[:M - 1]) + D - 1


def true_fields_dt(secs):
    """Independent calendar (Python datetime): month, day, doy0, secDay, hour, day type."""
    t = BASE + datetime.timedelta(seconds=secs)
    wd = t.weekday()                           # Monday = 0 ... Sunday = 6
    return (t.month, t.day, t.toordinal() - BASE_ORD, t.hour * 3600 + t.minute * 60 + t.second,
            t.hour, 3 if wd == 6 else 2 if wd == 5 else 1)


# per-day table from datetime (date and weekday are the calendar's business; the time of day is
# plain division) - same function as true_fields_dt, 10x faster for the per-step oracle
_DAY = [true_fields_dt(j * 86400) for j in range(366)]


def true_fields(secs):
    m, d, j, _, _, ty = _DAY[secs // 86400]
    s = secs % 86400
    return (m, d, j, s, s // 3600, ty)


def pack(st, dtype):
    m, d, j, s, h = st
    return m + 13 * (d + 40 * (j + 400 * (s + 86401 * (h + 25 * dtype))))


def fmt(st, dtype):
    return '%d,%d,%d,%d,%d,%d' % (st + (dtype,))


def model_daytype(j):
    """Only used to fill the `last=` field of stand-alone SimParam traces (the model prints its own
    dayType there); day types of the REAL code come from driver-only runs of simulate."""
    return 3 if j % 7 == 0 else 2 if j % 7 == 6 else 1


def state(sp):
    # secDay is the float 0. after the first midnight; exact for integers, canonicalised with int()
    sec = sp.secDay
    if sec != int(sec):
        raise core.Infra('secDay is not integral: %r' % (sec,))
    return (sp.month, int(sp.day), sp.julian, int(sec), sp.hourDay)


def classify_exc(e):
    if isinstance(e, ZeroDivisionError):
        return 'err zerodiv'
    if 'TIMESTEP ERROR' in str(e):
        return 'err timestep'
    if isinstance(e, AssertionError):
        return 'err assert'
    if isinstance(e, IndexError):
        return 'err index'
    return 'err fatal'


def step_real(SimParam, M, D, dt, k, raw, oracle_bad, want_full=False, timefor=3600, days=1):
    """Step the real SimParam k times. Returns the implementation's answer line for `trace dtype=0`
    (and evaluates the calendar oracle on every state inside the year). `timefor` (the weather-file time step,
    UWG.dtweather) and `days` are arguments of the real constructor that the clock must not depend on: when they
    are varied (tie 5) the state right after construction is judged too and an exception of update_date for an
    hour-dividing dt is an oracle failure (theorem no_timestep_error)."""
    varied = (timefor != 3600 or days != 1)
    extra = {'timefor': timefor, 'days': days} if varied else {}
    try:
        if raw:
            sp = SimParam(3600, 3600, M, D, 1)
            sp.dt = dt
        else:
            sp = SimParam(dt, timefor, M, D, days)
    except Exception as e:  # noqa: BLE001
        return classify_exc(e)
    h = 0
    t = doy0(M, D) * 86400
    if varied:
        st = state(sp)
        tf = true_fields(t)
        if st != tf[:5] and len(oracle_bad) < 5:
            oracle_bad.append(dict({'M': M, 'D': D, 'dt': dt, 'k': 0, 'observed': list(st),
                                    'expected': list(tf[:5])}, **extra))
    upd = sp.update_date
    day_tab = _DAY
    check = not raw
    # (round 5: state() / pack() / true_fields() written out in the loop - the same digest and the same oracle at
    #  every step, about 40 % cheaper; 3.7 million steps in the quick tier)
    for i in range(k):
        try:
            upd()
        except Exception as e:  # noqa: BLE001
            if varied and t + dt < YEAR and len(oracle_bad) < 5:
                oracle_bad.append(dict({'M': M, 'D': D, 'dt': dt, 'k': i + 1,
                                        'observed': 'update_date raised %s: %s' % (type(e).__name__, str(e)[:80]),
                                        'expected': list(true_fields(t + dt)[:5])}, **extra))
            return classify_exc(e) + ' at=%d' % (i + 1)
        sec = sp.secDay
        isec = int(sec)
        if sec != isec:
            raise core.Infra('secDay is not integral: %r' % (sec,))
        mo = sp.month
        dd = int(sp.day)
        ju = sp.julian
        hr = sp.hourDay
        h = (h * 1000003 + (mo + 13 * (dd + 40 * (ju + 400 * (isec + 86401 * hr))))) % HASH_P
        t += dt
        if check and t < YEAR:
            e_ = day_tab[t // 86400]
            s_ = t % 86400
            if (mo != e_[0] or dd != e_[1] or ju != e_[2] or isec != s_ or hr != s_ // 3600) and len(oracle_bad) < 5:
                oracle_bad.append(dict({'M': M, 'D': D, 'dt': dt, 'k': i + 1, 'observed': [mo, dd, ju, isec, hr],
                                        'expected': list(true_fields(t)[:5])}, **extra))
    st = state(sp)
    return 'ok digest=%d last=%s' % (h, fmt(st, model_daytype(st[2])))


def sim_trace(M, D, nday, dt, epw, variant, lookups_bad, dtweather=None, prepare=None):
    """Driver-only run of the real simulate; returns ((protocol line, answer), steps observed) and appends
    calendar-oracle failures (clock, day type, look-up indices, month used for the ground temperature).
    dtweather: the documented parameter UWG.dtweather (weather-file time step; None = the default 3600)."""
    try:
        with core.quiet():
            model = simdriver.build_model(M, D, nday, dt, epw=epw, dtweather=dtweather)
    except Exception as e:  # noqa: BLE001 - a legal rural file must be accepted
        if len(lookups_bad) < 5:
            lookups_bad.append({'M': M, 'D': D, 'nday': nday, 'dt': dt, 'it': 0, 'epw_variant': variant,
                                'dtweather': dtweather,
                                'observed': 'generate raised %s: %s' % (type(e).__name__, str(e)[:120]),
                                'expected_now': 'a model', 'expected_month_before_update': None})
        return ('trace M=%d D=%d dt=%d k=%d dtype=1' % (M, D, dt, nday * 86400 // dt), classify_exc(e)), 0
    undo = prepare(model) if prepare else None       # (round 4: somebody looks at the objects while the loop runs)
    try:
        res = simdriver.driver_only_run(model, check_forc=False)
    finally:
        if undo:
            undo()
    if res.error:
        if (dtweather is not None or prepare is not None) and len(lookups_bad) < 5:
            lookups_bad.append({'M': M, 'D': D, 'nday': nday, 'dt': dt, 'it': len(res.steps) + 1,
                                'epw_variant': variant, 'dtweather': dtweather,
                                'observed': 'simulate raised %s: %s' % (res.error, res.error_msg),
                                'expected_now': 'a complete run', 'expected_month_before_update': None})
        return ('trace M=%d D=%d dt=%d k=%d dtype=1' % (M, D, dt, nday * 86400 // dt),
                'err %s' % res.error), 0
    h = 0
    t0 = doy0(M, D) * 86400
    for s in res.steps:
        (it, row, sec, hour, mon, day, jul, dtyp, n, tsm, trd, trh, scd, sch) = s
        h = (h * 1000003 + pack((mon, day, jul, sec, hour), dtyp)) % HASH_P
        t = t0 + it * dt
        if t < YEAR:
            tf = true_fields(t)
            before = true_fields(t - dt)
            ok = ((mon, day, jul, sec, hour, dtyp) == tf and (trd, trh) == (tf[5] - 1, tf[4])
                  and (scd, sch) == (tf[5] - 1, tf[4]) and tsm == before[0])
            if not ok and len(lookups_bad) < 5 and not any(
                    (b['epw_variant'], b.get('dtweather'), b['M'], b['D'], b['nday'], b['dt']) ==
                    (variant, dtweather, M, D, nday, dt)
                    for b in lookups_bad):                    # one witness (the first step) per run
                lookups_bad.append({'M': M, 'D': D, 'nday': nday, 'dt': dt, 'it': it, 'epw_variant': variant,
                                    'dtweather': dtweather,
                                    'observed': list(s), 'expected_now': list(tf),
                                    'expected_month_before_update': before[0]})
    last = res.steps[-1]
    return ('trace M=%d D=%d dt=%d k=%d dtype=1' % (M, D, dt, len(res.steps)),
            'ok digest=%d last=%s' % (h, fmt(last[4:7] + last[2:4], last[7]))), len(res.steps)


# ----------------------------------------------------------------------------------------------
# round 4: circumstances that are not inputs of the clock

def child_clock(simparam_cases, sim_cases):
    """(runs in a fresh interpreter, plain or `python -O`) the stand-alone clock and driver-only runs of the real
    simulate with the calendar oracle evaluated there; returns the answer lines and the oracle failures."""
    from uwg.simparam import SimParam
    bad, lines = [], []
    for (M, D, dt, k) in simparam_cases:
        lines.append(step_real(SimParam, M, D, dt, k, False, bad))
    lb, slines = [], []
    for (M, D, nday, dt) in sim_cases:
        case, nsteps = sim_trace(M, D, nday, dt, None, None, lb)
        slines.append([case[1], nsteps])
    # observation only (recorded, never decided here): which start dates outside the calendar do the setters refuse?
    from uwg import UWG
    refusals = []
    for name, value in (('month', 13), ('month', 0), ('day', 0), ('day', 32), ('nday', -1)):
        m = UWG()
        try:
            setattr(m, name, value)
            refusals.append([name, value, None])
        except Exception as e:  # noqa: BLE001
            refusals.append([name, value, type(e).__name__])
    return {'simparam': lines, 'oracle_bad': bad[:5], 'sim': slines, 'lookups_bad': lb[:5], 'refusals': refusals}


def observed_clock(SimParam, M, D, dt, k, oracle_bad):
    """step_real while somebody looks: repr / str of the clock object after construction and after EVERY update"""
    import generic as G
    sp = SimParam(dt, 3600, M, D, 1)
    G.poke(sp)
    h = 0
    t = doy0(M, D) * 86400
    for i in range(k):
        sp.update_date()
        repr(sp), str(sp)
        st = state(sp)
        h = (h * 1000003 + pack(st, 0)) % HASH_P
        t += dt
        if t < YEAR and st != true_fields(t)[:5] and len(oracle_bad) < 5:
            oracle_bad.append({'M': M, 'D': D, 'dt': dt, 'k': i + 1, 'observed': list(st),
                               'expected': list(true_fields(t)[:5]), 'circumstance': 'repr(SimParam) after every update'})
    st = state(sp)
    return 'ok digest=%d last=%s' % (h, fmt(st, model_daytype(st[2])))


def circumstances(chk, lookups_bad, oracle_bad):
    """The clock under the circumstances of harness/generic.py. Returns the number of steps whose calendar oracle was
    evaluated in this process."""
    import generic as G
    import u1_util as U1
    import uwgutil as UU
    from uwg.simparam import SimParam
    rng = chk.rng
    thorough = chk.tier == 'thorough'
    work = os.path.join(chk.work(), 'c04x')
    os.makedirs(work)

    # ---- (x1) fresh interpreters, plain and python -O ---------------------------------------------------------
    sp_cases = [(M, D, 3600, min(35 * 24, (365 - doy0(M, D)) * 24 - 1)) for (M, D) in dates()]
    for dt in [d for d in DIVISORS if d >= (20 if not thorough else 1)]:
        M = rng.randint(1, 12)
        D = MDAYS[M - 1] - rng.randint(0, 1)
        span = min(rng.randint(86400, 2 * 86400 + 7200), YEAR - doy0(M, D) * 86400 - dt)
        sp_cases.append((M, D, dt, span // dt))
    sp_cases += [(rng.randint(1, 12), rng.randint(1, 28), dt, 5) for dt in (7, 480, 96, 7200, 3601)]   # refused in both modes
    sim_cases = [(2, 27, 3, 300), (12, 29, 3, 900), (1, 6, 3, 600),
                 (rng.randint(1, 11), 28, 4, rng.choice([d for d in DIVISORS if d >= 100]))]
    if thorough:
        sim_cases += [(M, MDAYS[M - 1], 2, rng.choice([d for d in DIVISORS if d >= 30])) for M in range(1, 12)]
    args = {'simparam_cases': [list(c) for c in sp_cases], 'sim_cases': [list(c) for c in sim_cases]}
    plain, opt = U1.parallel([lambda: U1.call_child(work, 'props.c04:child_clock', args, optimize=False, tag='clock'),
                              lambda: U1.call_child(work, 'props.c04:child_clock', args, optimize=True, tag='clock')])
    n1 = b1 = 0
    for mode, res in (('python', plain), ('python -O', opt)):
        if 'child_error' in res:
            b1 += 1
            chk.violation('impl-violation', 'the clock in a fresh %s interpreter: the interpreter dies inside the package' % mode,
                          case={'interpreter': mode}, observed=res['child_error'][-400:], expected='the calendar')
            continue
        n1 += len(res['simparam']) + len(res['sim'])
        for b in res['oracle_bad'][:2]:
            b1 += 1
            chk.violation('impl-violation', 'SimParam clock vs true calendar (datetime 2023) in a fresh %s interpreter' % mode,
                          case=dict({k: b[k] for k in ('M', 'D', 'dt', 'k') if k in b}, interpreter=mode),
                          observed=b['observed'], expected=b['expected'],
                          how='%s -c "from uwg.simparam import SimParam; sp = SimParam(dt, 3600, M, D, 1); k x sp.update_date()"; '
                              'compare with datetime(2023,1,1) + timedelta(seconds=doy0*86400 + k*dt)' % mode)
        for b in res['lookups_bad'][:2]:
            b1 += 1
            chk.violation('impl-violation', 'simulate: clock / day type / look-up indices vs true calendar in a fresh %s '
                          'interpreter' % mode,
                          case=dict({k: b.get(k) for k in ('M', 'D', 'nday', 'dt', 'it')}, interpreter=mode),
                          observed=b['observed'], expected={'now': b['expected_now'],
                                                            'month_before_update': b['expected_month_before_update']},
                          how='driver-only run of UWG.simulate (harness/simdriver.py) inside `%s`' % mode)
    if 'child_error' not in plain and 'child_error' not in opt:
        lost = [[a[0], a[1], a[2]] for a, b in zip(plain.get('refusals', []), opt.get('refusals', [])) if a[2] and not b[2]]
        chk.measurements['setter_refusals_that_vanish_under_python_-O (name, value, exception of plain python)'] = lost
        if lost:
            chk.notes.append('observation (unchanged tree, recorded, not a C04 verdict): the setters validate with `assert`, so '
                             'under `python -O` start dates outside the calendar are accepted (%s); the domain of the property '
                             '("every valid start date") is then no longer enforced by the package' % lost)
        for kind, cases in (('simparam', sp_cases), ('sim', sim_cases)):
            for c, a, b in zip(cases, plain[kind], opt[kind]):
                if a != b and b1 < 6:
                    b1 += 1
                    chk.violation('impl-violation', 'the clock trace depends on the interpreter mode (%s)' % kind,
                                  case={'case (M, D, dt, k) / (M, D, nday, dt)': list(c)}, observed={'python -O': b},
                                  expected={'python': a})
    chk.direct('clock+look-ups in fresh interpreters (python and python -O)', n1, n1,
               'in a fresh plain and a fresh `python -O` interpreter (asserts stripped): the real SimParam from all 365 start '
               'dates advanced hourly across the next month end, every divisor of 3600 >= 20 s (thorough: all 45) from the '
               'last days of a random month across 1-2 midnights, time steps the constructor refuses (7, 480, 96, 7200, 3601: the '
               'same refusal in both modes), and driver-only runs of the REAL simulate (2/27 + 3 d, '
               '12/29 + 3 d, Friday 1/6 + 3 d, a random month end; thorough: every month end) - every state and every '
               'look-up (day type, schedule and traffic indices, ground-temperature month) judged by datetime(2023) inside '
               'that interpreter; the traces of both modes must be identical', mismatches=b1,
               branches={'SimParam traces per mode': len(sp_cases), 'simulate traces per mode': len(sim_cases)})

    # ---- (x2) somebody looks at the objects / DEBUG logging ----------------------------------------------------
    n2 = b2 = 0
    steps = 0
    ob = []
    for _ in range(30 if not thorough else 200):
        M = rng.randint(1, 12)
        D = MDAYS[M - 1] - rng.randint(0, 1)
        dt = rng.choice([d for d in DIVISORS if d >= 60])
        k = min(rng.randint(86400, 3 * 86400), YEAR - doy0(M, D) * 86400 - dt) // dt
        with G.debug_logging():
            got = observed_clock(SimParam, M, D, dt, k, ob)
        want = step_real(SimParam, M, D, dt, k, False, ob)
        n2 += 1
        steps += k
        if got != want:
            ob.append({'M': M, 'D': D, 'dt': dt, 'k': k, 'observed': got, 'expected': want,
                       'circumstance': 'repr(SimParam) after every update'})
    for b in ob[:2]:
        b2 += 1
        chk.violation('impl-violation', 'SimParam clock while somebody looks (repr / str after every update, DEBUG logging)',
                      case={k: b[k] for k in ('M', 'D', 'dt', 'k', 'circumstance') if k in b},
                      observed=b['observed'], expected=b['expected'])

    def looker(model):
        G.poke(model)
        st = model.simTime
        orig = st.update_date
        cnt = {'n': 0}

        def wrapped(*a, **k):
            r = orig(*a, **k)
            cnt['n'] += 1
            repr(st), str(st)
            if cnt['n'] % 97 == 0:
                G.poke(model)
            return r
        st.update_date = wrapped

        def undo():
            try:
                del st.update_date
            except AttributeError:
                pass
        return undo
    lb = []
    for (M, D, nday, dt) in [(rng.randint(1, 11), 28, 4, rng.choice([d for d in DIVISORS if d >= 100])), (12, 29, 3, 900)] + \
            ([(M, MDAYS[M - 1], 2, 300) for M in range(1, 12)] if thorough else []):
        with G.debug_logging():
            seen_case, k = sim_trace(M, D, nday, dt, None, None, lb, prepare=looker)
        plain_case, _ = sim_trace(M, D, nday, dt, None, None, lb)
        n2 += 1
        steps += k
        if seen_case != plain_case and len(lb) < 5:
            lb.append({'M': M, 'D': D, 'nday': nday, 'dt': dt, 'it': None, 'epw_variant': None, 'dtweather': None,
                       'observed': seen_case[1], 'expected_now': plain_case[1], 'expected_month_before_update': None})
    for b in lb[:2]:
        b2 += 1
        chk.violation('impl-violation', 'simulate: clock / day type / look-ups while somebody looks (every reachable object '
                      'rendered after generate() and every 97th step, the clock after every step, DEBUG logging)',
                      case={k: b.get(k) for k in ('M', 'D', 'nday', 'dt', 'it')},
                      observed=b['observed'], expected={'now': b['expected_now'],
                                                        'month_before_update': b['expected_month_before_update']})
    chk.direct('clock+look-ups while somebody looks (repr / str / ToString, DEBUG logging)', n2, n2,
               'stand-alone SimParam traces (month-end starts, random hour-dividing dt >= 60 s, 1-3 days) with repr / str of '
               'the clock taken after construction and after EVERY update under DEBUG logging: the trace must equal the '
               'unobserved one and the calendar; driver-only runs of the real simulate with every reachable uwg object '
               'rendered after generate() and every 97th step and the clock after every step (instance-level wrapper '
               'around update_date): same trace as unobserved, calendar oracle on every step', mismatches=b2,
               branches={'steps': steps})

    # ---- (x3) other clocks in the process ----------------------------------------------------------------------
    n3 = b3 = 0
    for _ in range(6 if not thorough else 40):
        sps, ts = [], []
        for j in range(3):
            M, D = rng.choice(dates()[:300])
            dt = rng.choice([d for d in DIVISORS if d >= 300])
            sps.append((SimParam(dt, 3600, M, D, rng.choice([1, 3, 7])), M, D, dt))
            ts.append(doy0(M, D) * 86400)
        for i in range(400):
            for j, (sp, M, D, dt) in enumerate(sps):
                sp.update_date()
                ts[j] += dt
                n3 += 1
                if state(sp) != true_fields(ts[j])[:5] and b3 < 2:
                    b3 += 1
                    chk.violation('impl-violation', 'SimParam clock vs true calendar while other clocks are advanced in the '
                                  'same interpreter (round robin)',
                                  case={'M': M, 'D': D, 'dt': dt, 'k': i + 1,
                                        'other clocks (M, D, dt)': [[x[1], x[2], x[3]] for x in sps if x[0] is not sp]},
                                  observed=list(state(sp)), expected=list(true_fields(ts[j])[:5]))
    chk.direct('clock while other clocks live in the process (round robin)', n3, n3,
               'three real SimParam objects with different start dates, time steps and run lengths advanced in turn, 400 '
               'rounds: every state of every object equals datetime(2023) for ITS OWN start + k*dt', mismatches=b3)

    # ---- (x4) routes: command line, python -O, on a run whose result depends on the month roll-over ---------------
    epw = UU.rp(UU.EPW_SGP)
    M, D = rng.choice([(3, 31), (3, 31), (10, 31)])          # the vegetation season starts / ends at midnight
    sp = U1.spec(epw, attrs=[('month', M), ('day', D), ('nday', 2), ('dtsim', 300)], outdir=os.path.join(work, 'x4'),
                 outname='m.epw')
    out = U1.run_circumstances(work, sp, None, members=('python -O', 'cli model', 'cli -O model', 'cli -O param'), tag='x4')
    plain = out[0][1]
    n4 = b4 = 0
    end = true_fields((doy0(M, D) + 2) * 86400)
    for nm, r, msgs in out:
        n4 += 1
        msg = None
        if r.error:
            msg = ('the run did not complete (%s)' % r.stage, r.error, 'a written file')
        elif r.info and r.info.get('clock'):
            c = r.info['clock']
            got = (c[0], int(float(c[1])), c[2], int(float(c[3])), c[4])
            if got != end[:5]:
                msg = ('model clock (month, day, day of year, secDay, hourDay) after the last step', list(got), list(end[:5]))
        if not msg and nm != 'plain':
            msg = U1.against_plain(U1.reference_for(out, nm), r)
        if msg:
            b4 += 1
            chk.violation('impl-violation', 'a run across the start / end of the vegetation season gives the same result on '
                          'every route and in every interpreter mode, and ends on the calendar instant (%s)' % nm,
                          case={'circumstance': nm, 'route': r.route, 'month': M, 'day': D, 'nday': 2, 'dtsim': 300,
                                'epw': 'resources/SGP_Singapore.486980_IWEC.epw'},
                          observed={'what': msg[0], 'value': msg[1]}, expected=msg[2],
                          how='harness/u1_util.py run_circumstances(spec)')
    chk.direct('month roll-over on every route (library, python -O, command line)', n4, n4,
               'an un-stubbed 2-day run from 31 March or 31 October (the vegetation season and the monthly ground temperature '
               'change at the first midnight) through the library, a fresh `python -O` interpreter, `python -m uwg simulate '
               'model` and `python -O -m uwg simulate model|param`: the model clock after the last step is the calendar '
               'instant start + 2 days (library routes) and records / written bytes equal the plain library run', mismatches=b4)
    return steps


# ----------------------------------------------------------------------------------------------
# round 5: the REAL float step loop over all 45 time steps and realistic horizons

TOP_LENGTHS = [2, 3, 6, 11, 22, 43, 86, 171, 342]      # (last day offset of each binade of 24 k) + 1


def float_loop_family(chk):
    """Float-only effects of the loop's own arithmetic (`int(24 / (dt / 3600.))`, `((it - 1) * ph) % 24`, ...) are exact
    in rational arithmetic and one ulp off in doubles for a few time steps on particular day offsets: the REAL
    `UWG.simulate` loop (harness/v1_util.py FloatLoop: real SimParam, physics stubbed, index-encoding look-up tables)
    with the calendar oracle evaluated inline at EVERY step - clock fields, day type, traffic and building-schedule
    look-up, month and depth index of the deep-ground and water temperature, rural row index, and the number of hourly
    records on return. Three members:
      A. every one of the 45 divisors, one whole day from a random Friday / Saturday / Sunday (the day type changes at the
         midnight the run ends on) - thorough: two days;
      B. every divisor whose days fit the step budget: the longest affordable run of 2, 3, 6, 11, 22, 43, 86, 171 or 342
         days (the day offsets 1, 2, 5, 10, 21, 42, 85, 170, 341 end a binade of 24 k hours) started so that its LAST
         midnight is a month change, plus runs of other lengths (first / middle day offset of a binade, random) - thorough:
         all of these lengths within a 25 times larger budget and whole-year runs from 1 January for dt >= 48 s;
      C. midnight probes: the real loop body entered two steps before the midnight k days after the start, with the
         clock, day type and ground temperatures the calendar predicts for that step, and run to three steps past it -
         every divisor x the first / middle / last day offset of every binade and a random sample of the other offsets
         (thorough: every offset 1..364), half of the start dates chosen so that this midnight is a month change, the
         other half so that it changes the day type."""
    import v1_util as V
    rng = chk.rng
    thorough = chk.tier == 'thorough'
    fl0 = V.FloatLoop(buildings=0)
    fl1 = V.FloatLoop(buildings=1)
    bad, runs, br = [], 0, {}

    def note(kind, b):
        br[kind] = br.get(kind, 0) + 1
        if b is not None:
            b['member'] = kind
            bad.append(b)

    # ---- A: one (two) whole day(s) across a day-type change, every divisor (quick: dt >= 6 s; the five smaller ones
    #         cost two thirds of the steps and are left to the probes and to the thorough tier)
    for dt in DIVISORS:
        if dt < 6 and not thorough:
            continue
        M, D = V.start_for_daytype_change(rng, 364 if not thorough else 363)
        note('A: whole day(s) ending on a day-type change', (fl1 if dt >= 100 else fl0).run(dt, M, D, 1 if not thorough else 2))
    # ---- B: longest affordable top-of-binade length, last midnight = month change
    budget = 6000 if not thorough else 150000
    for dt in DIVISORS:
        spd = 86400 // dt
        fit = [L for L in TOP_LENGTHS if L * spd <= budget]
        if not fit:
            continue
        todo = [fit[-1]] if not thorough else list(fit)
        if thorough or rng.random() < 0.2:                  # other positions inside a binade / random lengths
            lo, mid, hi = rng.choice(V.binade_offsets(fit[-1] - 1))
            todo += [lo + 1, mid + 1, rng.randint(2, fit[-1])]
        for L in sorted(set(todo)):
            st = V.start_for_month_change(rng, L - 1)
            if st is None:
                st = (1, 1)
            note('B: %d..%d days, last midnight a month change' % (1 << (L.bit_length() - 1), (1 << L.bit_length()) - 1),
                 (fl1 if dt >= 300 else fl0).run(dt, st[0], st[1], L))
    if thorough:
        for dt in [d for d in DIVISORS if d >= 48]:
            note('B: whole year from 1 January', fl0.run(dt, 1, 1, 365))
    # ---- C: midnight probes
    tri = sorted(set(k for t in V.binade_offsets() for k in t))
    nprobe = 0
    probe_bad = []
    for dt in DIVISORS:
        spd = 86400 // dt
        ks = list(range(1, 365)) if thorough else sorted(set(tri + rng.sample(range(1, 365), 6)))
        for n_, k in enumerate(ks):
            st = V.start_for_month_change(rng, k) if (n_ % 2 == 0 or thorough) else None
            if st is None:                                   # a start whose k-th midnight changes the day type
                for _ in range(50):
                    j = rng.randint(0, 364 - k)
                    if V.DAYTAB[j + k - 1][3] != V.DAYTAB[j + k][3]:
                        break
                st = V.date_of(j)
            nprobe += 1
            b = fl1.run(dt, st[0], st[1], k + 1, first=max(1, k * spd - 2), last=min(k * spd + 3, (k + 1) * spd))
            br['C: midnight probes'] = br.get('C: midnight probes', 0) + 1
            if b is not None:
                b['member'] = 'C: midnight probes'
                probe_bad.append(b)
    # a failing probe is confirmed by the complete (un-warped) run of the same parameters where that is affordable
    probe_bad.sort(key=lambda b: b['nday'] * 86400 // b['dtsim'])
    for b in probe_bad[:2]:
        if b['nday'] * 86400 // b['dtsim'] <= 1500000:
            full = fl1.run(b['dtsim'], b['month'], b['day'], b['nday'])
            if full is not None:
                full['member'] = 'C: midnight probe, confirmed by the complete run of the same parameters'
                bad.append(full)
                continue
            b['probe'] += ' (NOT reproduced by the complete run of the same parameters)'
        bad.append(b)
    bad += probe_bad[2:]
    runs = fl0.runs + fl1.runs
    for b in bad[:3]:
        case = {k: b[k] for k in ('dtsim', 'month', 'day', 'nday', 'step', 'member', 'probe') if k in b}
        case['replay_kind'] = 'float-loop'
        chk.violation('impl-violation', 'simulate (real float step loop): clock / day type / schedule, traffic and ground-'
                      'temperature look-ups / row index / record count vs the true calendar',
                      case=case, observed=b['observed'], expected=b['expected'],
                      how='harness/v1_util.py FloatLoop().run(dtsim, month, day, nday[, first, last]): the real UWG.simulate '
                          'with a real SimParam and the physics stubbed; the observation is made where urbflux is called')
    chk.direct('calendar-oracle(real float step loop: 45 divisors x day offsets 1..364)', fl0.steps + fl1.steps, runs,
               'the REAL UWG.simulate loop in double arithmetic (real SimParam(dt, 3600, month, day, days) on one generated '
               'Singapore object, physics stubbed from outside, look-up tables index-encoding), calendar oracle inline at '
               'EVERY step: month, day, day of year, secDay, hourDay, day type, traffic and first-building schedule look-up '
               '(day type, hour), deep-ground / water temperature look-up (depth index, month at the beginning of the step), '
               'rural row index; on return exactly 24 x days hourly records. (A) the divisors of 3600 from 6 s up (thorough: all 45), one whole day '
               '(thorough: two) from a random Friday / Saturday / Sunday; (B) every divisor whose days fit %d steps: the '
               'longest affordable of 2, 3, 6, 11, 22, 43, 86, 171, 342 days (last day offset of a binade of 24 k), started so '
               'that the last midnight is a month change, for a quarter of them (thorough: all, every affordable length, whole '
               'years for dt >= 48) also the first / middle offset of a binade and a random length; (C) midnight probes - the '
               'real loop body entered two steps before the midnight k days after the start with the state the calendar '
               'predicts and run three steps past it: all 45 divisors x %s, start dates alternating between "this midnight is a '
               'month change" and "this midnight changes the day type" (%d probes); a failing probe is re-run as the '
               'complete run of the same parameters and reported from there' % (
                   budget, 'every k in 1..364' if thorough else 'first / middle / last k of every binade + 6 random k', nprobe),
               mismatches=len(bad), branches=br)


def season_family(chk):
    """Round 6 (harness/w1_util.py season_trace / season_members). Runs that cross a month boundary - entering and leaving
    the vegetation season for the shipped and for other legal seasons, control boundaries - with the REAL SolarCalcs, the
    real rural SurfFlux and the real monthly ground-temperature look-up (canyon physics stubbed). Every step is judged
    against the independent calendar: the season question (does vegetation release heat in the canyon / at the rural site
    in a sunlit step) must be answered for the month of start + it*dt, the monthly ground and water temperature taken for
    the month of start + (it-1)*dt."""
    import s1_util as S
    import uwgutil as U
    import w1_util as W1
    rng = chk.rng
    thorough = chk.tier == 'thorough'
    work = chk.work()
    base = S.load_epw(U.rp(U.EPW_SGP))
    rows = S.copy_rows(base)
    # three ground depths whose 36 monthly values are pairwise different
    rows[3] = S.ground_line(['0.5', '2', '4'], temps=lambda i, m: '%.2f' % (18.3 + 3.1 * i + 0.37 * m))
    table = [[float('%.2f' % (18.3 + 3.1 * i + 0.37 * m)) + 273.15 for m in range(12)] for i in range(3)]
    epw = S.save_epw(rows, os.path.join(work, 'season_rural.epw'))
    bad, nsteps, nsun = [], 0, 0
    br = {}
    for (label, vs, ve, M, D, nday, dt) in W1.season_members(rng, not thorough):
        attrs = dict(month=M, day=D, nday=nday, dtsim=dt, vegstart=vs, vegend=ve,
                     treecover=rng.choice([0.1, 0.25]), grasscover=rng.choice([0.1, 0.2]))
        case = {'replay_kind': 'season-family', 'member': label, 'params': attrs, 'rural file': 'Singapore rows; GROUND TEMPERATURES 0.5 / 2 / 4 m with 36 '
                'different monthly values (18.3 + 3.1 i + 0.37 m)',
                'how': 'harness/props/c04.py season_family; harness/w1_util.py season_trace (real SolarCalcs / rural SurfFlux / '
                       'ground-temperature look-up in the real simulate loop, canyon physics stubbed)'}
        try:
            model = U.new_model(epw=epw, outdir=work, outname='season.epw', **attrs)
            with core.quiet():
                model.generate()
        except Exception as e:  # noqa: BLE001
            chk.notes.append('C04 season member %s not generated: %s: %s' % (label, type(e).__name__, str(e)[:100]))
            continue
        steps, err = W1.season_trace(model)
        if err:
            chk.notes.append('C04 season member %s: simulate raised %s' % (label, err))
        i1 = model._soilindex1
        t0 = doy0(M, D) * 86400
        first_bad = None
        crossed = set()
        for (it, mon, day, sec, sunlit, tsens, tlat, solroad, rsol, rlat, deep, water) in steps:
            t = t0 + it * dt
            if t >= YEAR:
                break
            nsteps += 1
            tf = true_fields(t)
            before = true_fields(t - dt)[0]
            crossed.add(tf[0])
            season = vs <= tf[0] <= ve
            problems = []
            if (mon, day, sec) != tf[:2] + (tf[3],):
                problems.append(('clock', (mon, day, sec), tf[:2] + (tf[3],)))
            if sunlit and solroad > 0:
                nsun += 1
                if (tsens != 0 or tlat != 0) != season:
                    problems.append(('season test of SolarCalcs: vegetation releases heat in the canyon (treeSensHeat, '
                                     'treeLatHeat) iff vegstart <= month <= vegend',
                                     {'treeSensHeat': tsens, 'treeLatHeat': tlat, 'SolRecRoad': solroad},
                                     'month %d: %s' % (tf[0], 'in season, non-zero' if season else 'out of season, both 0')))
            if sunlit and rsol > 0 and model.rural.vegcoverage > 0:
                if (rlat != 0) != season:
                    problems.append(('season test of the rural SurfFlux: latent heat of vegetation iff in season',
                                     {'rural.lat': rlat, 'rural.solRec': rsol},
                                     'month %d: %s' % (tf[0], 'in season, non-zero' if season else 'out of season, 0')))
            if (deep, water) != (table[i1][before - 1], table[2][before - 1]):
                problems.append(('monthly ground / water temperature of the month of start + (it-1)*dt',
                                 {'forc.deepTemp': deep, 'forc.waterTemp': water},
                                 {'month looked up': before, 'deepTemp': table[i1][before - 1], 'waterTemp': table[2][before - 1]}))
            if problems and first_bad is None:
                first_bad = (it, tf, problems)
        k = 'crosses a season boundary' if len(set(vs <= m_ <= ve for m_ in crossed)) == 2 else \
            'crosses a month boundary' if len(crossed) > 1 else 'inside one month'
        br[k] = br.get(k, 0) + 1
        if first_bad:
            it, tf, problems = first_bad
            bad.append(label)
            if len(bad) <= 3:
                chk.violation('impl-violation', 'look-ups for the correct month: %s' % problems[0][0],
                              case=dict(case, it=it, **{'true calendar at start + it*dt (month, day, doy0, secDay, hour, day type)': list(tf)}),
                              observed={p[0][:60]: p[1] for p in problems}, expected={p[0][:60]: p[2] for p in problems})
    chk.direct('calendar-oracle(season / monthly look-ups on month-crossing runs)', nsteps, nsteps,
               'the real simulate loop with the real SolarCalcs, the real rural SurfFlux and the real ground-temperature '
               'look-up (canyon / boundary-layer physics stubbed) on runs that start on the last day(s) of a month: the '
               'shipped season 4..10 entered (31 March) and left (31 October), a random other season (vegstart 2..7, vegend '
               '8..11) entered and left, a one-month season entered and left within 3 days, a control boundary (thorough: '
               'all 11 month ends, seasons 1..12 / 12..12 / 1..1 / 2..2 / 6..8 / 3..11, a 5-day and a 33-day run); dt from '
               '300 .. 1800; tree and grass cover 0.1 .. 0.25; a rural file whose 3 x 12 monthly ground temperatures all '
               'differ. At every step, against datetime(2023) at start + it*dt: clock month / day / second; in sunlit steps '
               '(%d here) vegetation heat in the canyon (treeSensHeat, treeLatHeat) and rural latent heat are non-zero exactly '
               'when vegstart <= true month <= vegend; forc.deepTemp / forc.waterTemp are the table values of the true '
               'month at start + (it-1)*dt' % nsun,
               mismatches=len(bad), branches=br)


def fractional_step_family(chk):
    """Round 7 (harness/x3_util.py): FRACTIONAL hour-dividing time steps on SimParam alone. SimParam accepts every dt
    with 3600 % dt == 0 - also 112.5, 22.5, 7.5, 2.5, 0.5 s ... (UWG.dtsim is an int, so these reach the clock only when
    SimParam is constructed directly). A time step the clock accepts must produce the calendar: start + k * dt."""
    import x3_util as X3
    core.repo_python_path()
    from uwg.simparam import SimParam
    members = X3.fractional_members(chk.rng, chk.tier == 'quick')
    nsteps, bad, br = 0, [], {}
    for (dt, M, D, seconds) in members:
        n, b = X3.fractional_run(SimParam, dt, M, D, seconds)
        nsteps += n
        key = 'dt < 1 s' if dt < 1 else 'dt 1 .. 10 s' if dt < 10 else 'dt > 10 s'
        br[key] = br.get(key, 0) + 1
        if b is not None:
            bad.append(dict(b, dt=dt, M=M, D=D, seconds=seconds))
    for b in bad[:3]:
        chk.violation('impl-violation', 'SimParam clock vs true calendar for a fractional hour-dividing time step',
                      case={'dt': b['dt'], 'M': b['M'], 'D': b['D'], 'k': b['k'], 'seconds': b['seconds'],
                            'steps per hour (3600 / dt)': 3600 / b['dt'], 'replay_kind': 'fractional-step'},
                      observed=b['observed'], expected=b['expected'],
                      how='SimParam(dt, 3600, M, D, days) - accepted, since 3600 % dt == 0 -; k x update_date(); compare (month, '
                          'day, julian, secDay, hourDay) with the non-leap calendar instant start + k * dt (exact in doubles: '
                          'every accepted fractional step is a dyadic rational)')
    chk.direct('calendar-oracle(SimParam alone, fractional hour-dividing time steps)', nsteps, len(members),
               'the real SimParam constructed directly with a FRACTIONAL time step that divides the hour (accepted by its own '
               'test 3600 % dt == 0; exactly the dyadic steps 3600 / n: 112.5, 56.25, 37.5, 22.5, 12.5, 7.5, 4.5, 2.5, 1.5, '
               '0.5 ... - 40 of them >= 0.5 s): quick 0.5 / 2.5 / 7.5 / 22.5 / 112.5 s and two drawn from the others, '
               'thorough all 40; every second member starts on the last day of a month; advanced over the first midnight (thorough: '
               'two) and one hour beyond; EVERY state compared with the calendar start + k * dt: month, day, day of year, secDay '
               '(fractional seconds, exact), hourDay; an exception of update_date is a failure (no_timestep_error). UWG.dtsim is '
               'an int - these steps reach the clock only through SimParam itself; the 45 integer divisors are the other ties',
               mismatches=len(bad), branches=br)


def idle_hours_family(chk):
    """Round 8: schedule look-ups of a building whose internal load is ZERO in some hours (no equipment, no lighting, no
    occupants: an accepted schedule set). The real simulate (physics stubbed) runs on a generated model whose
    schedules hold index-encoding tables (value 100*day type + hour + 1) for hot water, gas, cooling and heating set
    points, and zero electricity / lighting / occupancy in the hours of a chosen set; at EVERY step, idle or not, the
    values handed to the building are those of the true calendar's day type and hour."""
    import sys as _sys
    import uwg.uwg as U
    rng = chk.rng
    thorough = chk.tier == 'thorough'
    bad, total, idle_steps = [], 0, 0
    for rep in range(3 if not thorough else 12):
        M, D = rng.choice(dates()[:360])
        nday, dt = 3, rng.choice([300, 600, 900, 1800, 3600])
        idle = [set(range(24)), set(range(0, 24, 2)), set([0, 1, 2, 3, 4, 5, 22, 23])][rep % 3]
        with core.quiet():
            model = simdriver.build_model(M, D, nday, dt)
        st = model.simTime
        enc = [[100 * d + h + 1 for h in range(24)] for d in range(3)]
        for sc in model.Sch:
            for name in ('_elec', '_light', '_occ'):
                setattr(sc, name, [[0.0 if h in idle else 0.5 for h in range(24)] for d in range(3)])
            sc._swh, sc._gas = [list(r) for r in enc], [list(r) for r in enc]
            sc._cool, sc._heat = [list(r) for r in enc], [list(r) for r in enc]
            sc._v_swh, sc._q_gas = 1, 1
        seen = []

        class _Solar(object):
            def __init__(self, UCM, BEM, simTime, RSM, forc, geoParam, rural):
                self._r = (rural, UCM, BEM)

            def solarcalcs(self):
                return self._r

        def _urbflux(UCM, UBL, BEM, forc, geoParam, simTime, RSM):
            it = _sys._getframe(1).f_locals['it']
            seen.append((it, [(b.swh, b.gas, b.building.cool_setpoint_day - 273.15, b.building.heat_setpoint_night - 273.15,
                               b.elec) for b in BEM]))
            return UCM, UBL, BEM

        saved = {k: getattr(U, k) for k in ('SolarCalcs', 'urbflux', 'psychrometrics')}
        inst = [(model.UCM, 'UCModel'), (model.UBL, 'ublmodel'), (model.rural, 'SurfFlux'), (model.RSM, 'vdm')]
        err = None
        try:
            U.SolarCalcs, U.urbflux = _Solar, _urbflux
            U.psychrometrics = lambda *a: (0., 0., 0., 0., 0., 0.)
            for o, name in inst:
                setattr(o, name, lambda *a, **k: None)
            with core.quiet():
                try:
                    model.simulate()
                except Exception as e:  # noqa: BLE001
                    err = '%s: %s' % (type(e).__name__, str(e)[:120])
        finally:
            for k, v in saved.items():
                setattr(U, k, v)
            for o, name in inst:
                try:
                    delattr(o, name)
                except AttributeError:
                    pass
        total += 1
        case = {'M': M, 'D': D, 'nday': nday, 'dt': dt, 'idle hours': sorted(idle)}
        if err or len(seen) != nday * 86400 // dt:
            bad.append((case, err or 'steps %d' % len(seen), 'a complete run of %d steps' % (nday * 86400 // dt)))
            continue
        t0 = doy0(M, D) * 86400
        for it, vals in seen:
            t = t0 + it * dt
            if t >= YEAR:
                break
            tf = true_fields(t)
            want = 100 * (tf[5] - 1) + tf[4] + 1
            idle_steps += tf[4] in idle
            wrong = [(i, v) for i, v in enumerate(vals) if [round(x, 6) for x in v[:4]] != [want] * 4]
            if wrong:
                bad.append((dict(case, it=it, true_month_day_hour_daytype=[tf[0], tf[1], tf[4], tf[5]],
                                 idle_hour=tf[4] in idle),
                            'building %d got swh, gas, cooling, heating set point = %s' % (wrong[0][0], list(wrong[0][1][:4])),
                            'the table entries of day type %d hour %d: %d' % (tf[5], tf[4], want)))
                break
    for case, obs, exp in bad[:3]:
        chk.violation('impl-violation', 'C04 look-ups of hot water / gas / set points in hours without internal load',
                      case=case, observed=obs, expected=exp, how='harness/props/c04.py: idle_hours_family')
    chk.direct('lookups-oracle(buildings with idle hours)', total, total,
               'real simulate (physics stubbed) on a generated Singapore model whose schedules have zero electricity, '
               'lighting and occupancy in all / every second / the night hours and index-encoding tables for hot water, '
               'gas and both set points; 3 days from a random start, dt 300..3600: at every step, idle or not, every '
               'building is handed the entries of the true calendar day type and hour',
               mismatches=len(bad), branches={'steps in idle hours': idle_steps})


def run(chk):
    # (round 8) the look-up clause at the concrete per-building block of the loop body: Props/Step.lean
    chk.proof(MODULE, THEOREMS + ['Uwg.StepProps.step_schedule_lookups'], extra_modules=['UwgVerif.Props.Step'])
    if chk.tier == 'thorough':
        chk.leanchecker([MODULE])
    from uwg.simparam import SimParam
    rng = chk.rng
    thorough = chk.tier == 'thorough'
    oracle_bad = []
    n_oracle = 0

    # ---- tie 0: the specification itself against an independent calendar -------------------------
    secs = [0, 86399, 86400, YEAR - 1]
    for j in range(365):
        secs += [j * 86400, j * 86400 + rng.randrange(86400)]
    secs += [rng.randrange(YEAR) for _ in range(300)]
    for s in secs:
        if true_fields(s) != true_fields_dt(s):
            raise core.Infra('harness calendar table inconsistent at %d' % s)
    chk.correspond('trueCalendar~datetime(2023)', 'C04',
                   [('cal secs=%d' % s, 'ok %d,%d,%d,%d,%d,%d' % true_fields_dt(s)) for s in secs],
                   rule='the Lean specification (trueCalendar, trueDayType) vs Python datetime in the '
                        'non-leap year 2023 (1 Jan = Sunday): every day of the year at 00:00 and at a '
                        'random second, plus random instants; exact equality of the six fields',
                   classify=lambda line, impl: 'month %s' % impl.split(' ')[1].split(',')[0])

    # ---- tie 1: all 365 start dates at dt = 3600 to the end of the year, every step ---------------
    cases = []
    for (M, D) in dates():
        k = (365 - doy0(M, D)) * 24            # the last advance reaches 31 Dec 24:00 (theorem year_end)
        cases.append(('trace M=%d D=%d dt=3600 k=%d dtype=0' % (M, D, k),
                      step_real(SimParam, M, D, 3600, k, False, oracle_bad)))
        n_oracle += k - 1
    chk.correspond('SimParam~Clock(all starts,dt=3600)', 'C04', cases,
                   rule='real uwg.simparam.SimParam constructed at each of the 365 dates and advanced '
                        'hourly to 31 Dec 24:00 vs Lean Clock.create/Clock.update; digest over '
                        '(month, day, julian, secDay, hourDay) after EVERY update + final state',
                   classify=lambda line, impl: 'start month %s' % line.split('M=')[1].split(' ')[0])

    # ---- tie 2: all 45 divisors, random starts, k crossing midnights / month ends -----------------
    cases = []
    reps = 3 if not thorough else 12
    for dt in DIVISORS:
        for r in range(reps):
            if r % 3 == 0:                     # start on the last day of a random month
                M = rng.randint(1, 12)
                D = MDAYS[M - 1] - rng.randint(0, 1)
            else:
                M, D = rng.choice(dates())
            j0 = doy0(M, D)
            span = rng.randint(86400, 2 * 86400 + 7200) if dt < 60 or not thorough else \
                rng.randint(86400, 40 * 86400)
            span = min(span, YEAR - j0 * 86400)
            k = span // dt
            cases.append(('trace M=%d D=%d dt=%d k=%d dtype=0' % (M, D, dt, k),
                          step_real(SimParam, M, D, dt, k, False, oracle_bad)))
            n_oracle += k
    if thorough:                               # every month end x every divisor
        for dt in DIVISORS:
            for M in range(1, 13):
                D = MDAYS[M - 1]
                k = min(86400 // dt + rng.randint(1, 3600 // dt + 1),
                        (YEAR - doy0(M, D) * 86400) // dt)
                cases.append(('trace M=%d D=%d dt=%d k=%d dtype=0' % (M, D, dt, k),
                              step_real(SimParam, M, D, dt, k, False, oracle_bad)))
                n_oracle += k
    # long jumps with large steps: state after k updates only
    for _ in range(60 if not thorough else 400):
        M, D = rng.choice(dates())
        dt = rng.choice([d for d in DIVISORS if d >= 300])
        k = rng.randint(0, (YEAR - doy0(M, D) * 86400) // dt)
        ans = step_real(SimParam, M, D, dt, k, False, oracle_bad)
        if ans.startswith('ok'):
            ans = 'ok ' + ans.split('last=')[1]
        cases.append(('clock M=%d D=%d dt=%d k=%d' % (M, D, dt, k), ans))
        n_oracle += k
    # timesteps the constructor refuses, and update_date's own guard with the constructor bypassed
    for dt in [0, 7, 480, 96, 540, 7200, 86400, 3601, 1801]:
        M, D = rng.choice(dates())
        cases.append(('trace M=%d D=%d dt=%d k=5 dtype=0' % (M, D, dt),
                      step_real(SimParam, M, D, dt, 5, False, oracle_bad)))
    for dt in [7000, 50000, 86400, 43200, 480, 28800, 86401, 100000, 7200]:
        M, D = rng.choice(dates())
        k = 3 * 86400 // dt + 2
        cases.append(('trace M=%d D=%d dt=%d k=%d dtype=0 raw=1' % (M, D, dt, k),
                      step_real(SimParam, M, D, dt, k, True, oracle_bad)))

    def cls(line, impl):
        if impl.startswith('err'):
            return impl.split(' at=')[0]
        return 'raw' if 'raw=1' in line else 'accepted dt'
    chk.correspond('SimParam~Clock(45 divisors)', 'C04', cases,
                   rule='every divisor of 3600 as timestep x random start dates (one third on the last '
                        'two days of a month), advanced across 1-2 midnights (thorough: up to 40 days); '
                        'digest over every state; random long jumps (state after k updates); refused '
                        'timesteps (constructor guard) and update_date with the guard bypassed; '
                        'non-trivial = no exception',
                   classify=cls)

    # ---- tie 3: day type and look-up indices from driver-only runs of the real simulate -----------
    runs = [(1, 1, 365, 3600)]                                       # the whole year, hourly
    picks = [d for d in DIVISORS if d >= (60 if not thorough else 10)]
    for _ in range(6 if not thorough else 30):
        M, D = rng.choice(dates())
        nday = rng.randint(1, min(12, 365 - doy0(M, D)))
        runs.append((M, D, nday, rng.choice(picks)))
    runs.append((12, 25, 7, 900))                                    # window ending at the year end
    runs.append((2, 27, 3, 300))
    cases = []
    lookups_bad = []
    n_steps = 0
    for (M, D, nday, dt) in runs:
        case, k = sim_trace(M, D, nday, dt, None, None, lookups_bad)
        cases.append(case)
        n_steps += k
    chk.correspond('simulate(dayType,clock)~Clock+dayType', 'C04', cases,
                   rule='driver-only runs of the REAL UWG.simulate (physics stubbed from outside): '
                        '(month, day, julian, secDay, hourDay, dayType) observed at every step vs Lean '
                        'Clock.update + dayType; digest over every step; includes a whole year hourly '
                        'and a window ending on 31 December',
                   classify=lambda line, impl: 'dt=%s' % line.split('dt=')[1].split(' ')[0])

    # ---- tie 4: the same on legal but never-varied rural files -----------------------------------
    # The property fixes the calendar (non-leap, 1 January a Sunday) whatever the weather file says: the start
    # week-day of DATA PERIODS, the leap-year flag, a daylight-saving period, listed holidays, filled soil-property
    # cells, comments ... are not inputs of the clock; an 8784-row file is read by a 365-day clock all the same.
    import s1_util as S
    base_rows = S.load_epw(simdriver.epw_path())
    work = chk.work()
    files = [(name, S.write_variant(work, base_rows, name, 'c04_')) for name in sorted(S.HEADER_VARIANTS)]
    for name in ('leap8784', 'leap8784+weekday-Thursday+dst-3/8-11/1', 'leap8784noflag'):
        files.append((name, S.write_variant(work, base_rows, name, 'c04_')))
    year_names = set(S.pick_variants(rng, 1 if not thorough else 8, must=('actual-year-header',)))
    year_names.add('leap8784')
    vcases, vbranches, nv_steps = [], {}, 0
    for name, path in files:
        vruns = []
        if name in year_names or thorough:
            vruns.append((1, 1, 365, 3600))
        # one window crossing the end of February or starting after it, one anywhere
        M, D = rng.choice([(2, 26), (2, 27), (2, 28), (3, 1)] + [d for d in dates() if d[0] >= 3])
        room = min(6, 365 - doy0(M, D))
        vruns.append((M, D, rng.randint(min(2, room), room), rng.choice(picks)))
        for _ in range((1 if len(vcases) % 3 == 0 else 0) if not thorough else 4):
            M, D = rng.choice(dates())
            vruns.append((M, D, rng.randint(1, min(8, 365 - doy0(M, D))), rng.choice(picks)))
        for (M, D, nday, dt) in vruns:
            case, k = sim_trace(M, D, nday, dt, path, name, lookups_bad)
            vcases.append(case)
            nv_steps += k
            grp = name.split('-')[0]
            vbranches[grp] = vbranches.get(grp, 0) + 1
    n_steps += nv_steps
    chk.correspond('simulate(dayType,clock)~Clock+dayType on rural-file variants', 'C04', vcases,
                   rule='driver-only runs of the REAL UWG.simulate on copies of the Singapore file in which cells '
                        'the clock must not depend on are varied (%d files: DATA PERIODS start week-day Monday..'
                        'Saturday; HOLIDAYS/DAYLIGHT SAVINGS leap flag Yes, DST period as m/d, wrapping the year '
                        'end, day-of-year and textual, listed holidays; GROUND TEMPERATURES with the soil-property '
                        'cells filled; comments, design conditions dropped, location text; an actual-year '
                        'combination; 8784-row leap files with and without the flag): per file a window crossing '
                        '28 Feb or starting after it and a random window (a whole year hourly for a few), random '
                        'hour-dividing dt; trace vs the SAME Lean clock (the model has no file input)' % len(files),
                   classify=lambda line, impl: 'dt=%s' % line.split('dt=')[1].split(' ')[0])
    chk.extra_cov['c04_rural_file_variants'] = {'files': [f[0] for f in files], 'runs_per_group': vbranches,
                                                'steps': nv_steps}

    # ---- tie 5: the weather-file time step and the run length are not inputs of the clock ----------
    # SimParam(dt, timefor, M, DAY, days): `timefor` (UWG.dtweather, a documented parameter; 3600 in every shipped
    # example) and `days` size the window of rural rows, nothing else. The model clock has neither as an input, so
    # the SAME Lean trace must come out whatever they are.
    timefors = list(DIVISORS) + [7200, 10800, 14400, 21600, 43200, 86400, 1000, 2700, 5400, 1800.0, 900.0, 450.5]
    cases, tf_branches = [], {}
    dts5 = [d for d in DIVISORS if d >= (100 if not thorough else 20)]
    for tfor in timefors:
        for r in range(2 if not thorough else 6):
            if r % 3 == 0:                     # last two days of a month (roll-over inside the trace)
                M = rng.randint(1, 12)
                D = MDAYS[M - 1] - rng.randint(0, 1)
            elif r % 3 == 1:
                M, D = rng.choice(dates()[1:])
            else:
                M, D = (1, 1) if r == 2 else rng.choice(dates())
            dt = rng.choice(dts5)
            span = min(rng.randint(86400, 2 * 86400 + 43200), YEAR - doy0(M, D) * 86400)
            k = span // dt
            days = rng.choice([1, 1, 2, 3, 7, 31])
            cases.append(('trace M=%d D=%d dt=%d k=%d dtype=0' % (M, D, dt, k),
                          step_real(SimParam, M, D, dt, k, False, oracle_bad, timefor=tfor, days=days)))
            n_oracle += k + 1
            kind = ('divides 3600' if 3600 % tfor == 0 else 'multiple of 3600' if tfor % 3600 == 0 else 'other') + \
                (', dt > timefor' if dt > tfor else ', dt = timefor' if dt == tfor else ', dt < timefor')
            tf_branches[kind] = tf_branches.get(kind, 0) + 1
    chk.correspond('SimParam(timefor,days)~Clock', 'C04', cases,
                   rule='real SimParam(dt, timefor, M, DAY, days) for EVERY weather-file time step timefor dividing '
                        '3600 (45 values), 2-24-hourly ones (7200 .. 86400), values dividing neither (1000, 2700, '
                        '5400, 450.5) and float spellings, x start dates (month ends, 1 January, random) x run '
                        'lengths 1..31 days x random hour-dividing dt (larger than, equal to and smaller than timefor), '
                        'advanced across 1-2 midnights, vs the SAME Lean Clock trace (the model has no timefor / '
                        'days input); the state right after construction and every state after an update is also '
                        'compared with datetime(2023); update_date must not raise',
                   classify=lambda line, impl: impl.split(' ')[0] + (' ' + impl.split(' ')[1] if impl.startswith('err') else ''))
    chk.extra_cov['c04_timefor_family'] = {'timefor values': len(timefors), 'cases by kind': tf_branches}

    # ---- tie 6: dtweather != 3600 through generate() + the real simulate loop -------------------------
    tws = [1800, 900] + rng.sample([d for d in DIVISORS if 100 <= d < 3600 and d not in (1800, 900)],
                                   2 if not thorough else 10)
    vcases6 = []
    for i, tw in enumerate(tws):
        nday = rng.randint(2, 3)
        room = 8760 * tw // 86400 - nday            # the window (timeDay rows per day) must lie inside the file
        j0 = 0 if i == 1 else rng.randint(1, room - 1)
        M, D = dates()[j0]
        dt = rng.choice([d for d in DIVISORS if d >= (100 if not thorough else 30)])
        case, k = sim_trace(M, D, nday, dt, None, None, lookups_bad, dtweather=tw)
        vcases6.append(case)
        n_steps += k
    chk.correspond('simulate(dayType,clock)~Clock+dayType with dtweather != 3600', 'C04', vcases6,
                   rule='driver-only runs of the REAL generate + simulate with the documented parameter dtweather set '
                        'to 1800, 900 and random other divisors of 3600 (every shipped example has 3600), random '
                        'starts inside the part of the file such a window can address (one on 1 January), 2-3 days, '
                        'random hour-dividing dtsim: clock fields and dayType at every step vs the SAME Lean trace; '
                        'the calendar oracle (clock, day type, schedule / traffic indices, ground-temperature month) '
                        'is evaluated on every step',
                   classify=lambda line, impl: impl.split(' ')[0])

    # ---- round 4: the clock under circumstances that are not its inputs ---------------------------
    circumstances(chk, lookups_bad, oracle_bad)

    # ---- round 5: the real float loop, all 45 divisors x day offsets ---------------------------
    float_loop_family(chk)

    # ---- round 6: month-crossing runs, season / monthly look-ups judged per step -------------------
    season_family(chk)

    # ---- round 7: fractional hour-dividing time steps on SimParam alone ---------------------------
    fractional_step_family(chk)
    idle_hours_family(chk)

    # ---- the property's own oracle on the implementation ----------------------------------------
    for b in oracle_bad[:3]:
        chk.violation('impl-violation', 'SimParam clock vs true calendar (datetime 2023)',
                      case={k: b[k] for k in ('M', 'D', 'dt', 'k', 'timefor', 'days') if k in b},
                      observed=b['observed'], expected=b['expected'],
                      how='SimParam(dt,timefor (3600 unless given),M,D,days (1 unless given)); k x update_date(); '
                          'compare (month, day, julian, secDay, hourDay) with '
                          'datetime(2023,1,1)+timedelta(seconds=doy0*86400+k*dt)')
    chk.direct('calendar-oracle(SimParam)', n_oracle, n_oracle,
               'every state of ties 1-2 and 5 inside the year compared with Python datetime (2023) directly (tie 5: '
               'also the state right after construction, for every weather-file time step timefor and run length)',
               mismatches=len(oracle_bad))
    for b in lookups_bad[:3]:
        chk.violation('impl-violation', 'simulate: clock / day type / look-up indices vs true calendar',
                      case={k: b.get(k) for k in ('M', 'D', 'nday', 'dt', 'it', 'epw_variant', 'dtweather')},
                      observed=b['observed'],
                      expected={'now': b['expected_now'],
                                'month_before_update': b['expected_month_before_update']},
                      how='driver-only run of UWG.simulate (harness/simdriver.py) with these parameters')
    chk.direct('calendar-oracle(simulate look-ups)', n_steps, n_steps,
               'at every step of the driver-only runs: clock fields and dayType equal datetime(2023) at '
               'start + it*dt; traffic schedule and building schedule are indexed with (true day type - 1, '
               'true hour); ground temperature with the true month at start + (it-1)*dt (looked up before '
               'the clock advances); evaluated on the shipped file AND on every rural-file variant of tie 4 '
               '(epw_variant in the witness: header cells / 8784-row files the calendar must not depend on) AND on '
               'the runs of tie 6 (dtweather in the witness)',
               mismatches=len(lookups_bad))
    chk.assumptions.append('secDay becomes the float 0. after the first midnight; integers < 2^53 are '
                           'exact in doubles, canonicalised with int() (checked integral)')
    chk.notes.append('year end (outside the property domain): the advance reaching 31 Dec 24:00 leaves '
                     'month=12, day=32, julian=365 (theorem year_end, tied in tie 1)')


def replay(chk, path):
    """Re-evaluate the calendar oracle on the case stored in a replay file."""
    import json
    v = json.load(open(path))
    c = v.get('case') or {}
    bad = []
    if 'interpreter' in c or 'circumstance' in c:
        circumstances(chk, [], [])          # the circumstance families are re-explored (same seed)
        bad = [{'tie': w['theorem_or_tie'], 'observed': w['observed'], 'expected': w['expected']}
               for w in chk.violations[:1]]
    elif c.get('replay_kind') == 'season-family':
        season_family(chk)                  # the month-crossing family is re-explored (same seed)
        bad = [{'tie': w['theorem_or_tie'], 'observed': w['observed'], 'expected': w['expected']}
               for w in chk.violations[:1]]
    elif c.get('replay_kind') == 'fractional-step':
        import x3_util as X3
        from uwg.simparam import SimParam
        _n, b = X3.fractional_run(SimParam, c['dt'], c['M'], c['D'], c['seconds'])
        if b:
            bad.append(b)
    elif c.get('replay_kind') == 'float-loop':
        import v1_util as V
        fl = V.FloatLoop(buildings=1)
        first = last = None
        if 'probe' in c:
            import re
            mm = re.search(r'entered at step (\d+) .* left after step (\d+)', c['probe'])
            if mm:
                first, last = int(mm.group(1)), int(mm.group(2))
            else:
                first = int(re.search(r'entered at step (\d+)', c['probe']).group(1))
        b = fl.run(c['dtsim'], c['month'], c['day'], c['nday'], first=first, last=last)
        if b:
            bad.append(b)
    elif 'k' in c:
        from uwg.simparam import SimParam
        step_real(SimParam, c['M'], c['D'], c['dt'], max(c['k'], 1), False, bad, timefor=c.get('timefor', 3600),
                  days=c.get('days', 1))
    elif 'it' in c:
        epw = None
        if c.get('epw_variant'):
            import s1_util as S
            epw = S.write_variant(chk.work(), S.load_epw(simdriver.epw_path()), c['epw_variant'], 'rp_')
        model = simdriver.build_model(c['M'], c['D'], c['nday'], c['dt'], epw=epw, dtweather=c.get('dtweather'))
        res = simdriver.driver_only_run(model, check_forc=False)
        t0 = doy0(c['M'], c['D']) * 86400
        for s in res.steps:
            t = t0 + s[0] * c['dt']
            if t < YEAR:
                tf, before = true_fields(t), true_fields(t - c['dt'])
                if (s[4], s[5], s[6], s[2], s[3], s[7]) != tf or s[9] != before[0] or \
                        (s[10], s[11]) != (tf[5] - 1, tf[4]):
                    bad.append({'it': s[0], 'observed': list(s), 'expected': list(tf)})
                    break
    else:
        print('replay file has no concrete case (proof or correspondence problem): %s' %
              v.get('theorem_or_tie'))
        return 2
    if bad:
        print('VIOLATION property=C04 replay=%s reproduced: %s' % (path, bad[0]))
        return 1
    print('C04 replay: the stored case no longer violates the property')
    return 0
