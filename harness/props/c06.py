"""C06 - all construction routes and serialisation round trips are equivalent.

Proof obligations: lean/UwgVerif/Props/C06.lean (over the models Model/Json, Model/Params, Model/NumTok,
Model/Reader and the table Gen/ParamTable.lean, which is REGENERATED from uwg/uwg.py at the start of
every run by harness/extract/paramtable.py).

Ties (all on the unmodified `uwg` package of the tree under test):
  1. reader      real `_read_input` / `from_param_file` vs Lean `readInput` / `UWG.fromFile` on generated
                 layouts of the shipped .uwg files (+ generated entry sets) and on a malformed stream;
                 every real call runs under a watchdog (a hang is a violation, not a stall).
  2. dict        real `from_dict` -> `to_dict(include_refDOE=True)` vs Lean `UWG.fromDict` -> `toDict`
                 on generated parameter dictionaries (valid, probes of every setter, malformed), custom
                 BEMDef/SchDef vectors included; `from_param_args` vs Lean `UWG.fromKwargs`.
  3. routes      kwargs / dict / JSON text / .uwg file / CLI (click runner, in process) -> 1-day
                 simulation -> byte-identical EPW files and equal hourly records.
  4. stocks      (tie_stocks; generator in harness/t4_util.py) every kind of building stock the `bld` setter accepts
                 - 1 .. 48 distinct (type, era) rows and more with repeats, sums of exactly one / inside the 1e-2
                 tolerance / one ulp off, zero fractions - and some it refuses, through kwargs, dict, JSON text and
                 .uwg files with the bld block laid out in 7 ways: one verdict, bld held == bld written, equal
                 to_dict, equal generated model, byte-identical EPW (file, `simulate param`) for a few members.
                 The same family (long blocks, sums inside / outside the tolerance) is fed to tie 1.
  5. circumstances (tie_circumstances; helpers in harness/u2_util.py) what must not matter: the SAME dictionary object
                 given to from_dict twice (UWG and every typed sub-dictionary; optional keys present / absent / null;
                 numbers respelled as int / float / text), a dictionary handed out by to_dict while the live model is
                 given other values, observers (repr / str / ToString at every stage) and DEBUG logging, fresh `python`
                 and `python -O` processes, the real command line, other models of the process.
  6. identifiers (tie_identifiers; family in harness/v2_util.py) custom archetypes whose type NAME has capitals, blanks,
                 punctuation, is a DOE name in another letter case or non-ASCII, built with the constructors: the two
                 custom classes and the model round-trip them as typed, and every route generates the same city.
Oracles evaluated directly on the implementation: layout invariance of the parsed map; to_dict equal
before/after from_dict and after a JSON text round trip; deep attribute equality of the custom reference
objects; identical simulation output over all routes.
"""
import contextlib
import copy
import io
import json
import os
import signal
import sys
from fractions import Fraction as F

import core

MODULE = 'UwgVerif.Props.C06'
THEOREMS = [
    'Uwg.C06.from_to_dict', 'Uwg.C06.to_from_to', 'Uwg.C06.from_to_dict_empty_refs',
    'Uwg.C06.setters_store_fixpoints',
    'Uwg.C06.material_from_to', 'Uwg.C06.element_from_to', 'Uwg.C06.building_from_to',
    'Uwg.C06.schdef_from_to', 'Uwg.C06.bemdef_from_to',
    'Uwg.C06.reader_layout_invariant', 'Uwg.C06.reader_layout_perm', 'Uwg.C06.reader_malformed_raises',
    'Uwg.C06.clean_space_insensitive', 'Uwg.C06.clean_case_insensitive',
    'Uwg.C06.filler_inside_block_changes_meaning',
    'Uwg.C06.routes_agree', 'Uwg.C06.routes_agree_file', 'Uwg.C06.table_closed',
    'Uwg.C06.toDict_emits_all', 'Uwg.C06.fromDict_needs_all', 'Uwg.C06.fromDict_params_valid',
    'Uwg.C06.asis_reader_diverges', 'Uwg.C06.repaired_reader_raises',
]

PLAIN = set('ABCDEFGHIJKLMNOPQRSTUVWXYZabcdefghijklmnopqrstuvwxyz0123456789_.-')


# ----------------------------------------------------------------------------- canonical text
def enc(s):
    out = []
    for ch in s:
        if ch in PLAIN:
            out.append(ch)
        elif ord(ch) < 256:
            out.append('%%%02X' % ord(ch))
        else:
            raise ValueError('non-latin character in protocol string: %r' % ch)
    return ''.join(out)


def fr(x):
    """exact decimal value of the shortest repr of a float"""
    f = F(repr(x))
    return '%d/%d' % (f.numerator, f.denominator)


def canon(x):
    """Python value -> J text (type tags kept: int vs float vs bool; tuple == list)."""
    if x is None:
        return 'N'
    if x is True:
        return 'T'
    if x is False:
        return 'F'
    if isinstance(x, int):
        return 'i%d' % x
    if isinstance(x, float):
        return 'f' + fr(x)
    if isinstance(x, F):
        return 'f%d/%d' % (x.numerator, x.denominator)
    if isinstance(x, str):
        return 's' + enc(x)
    if isinstance(x, (list, tuple)):
        return '[' + ','.join(canon(v) for v in x) + ']'
    if isinstance(x, dict):
        return '{' + ','.join('%s:%s' % (enc(k), canon(x[k])) for k in sorted(x)) + '}'
    raise TypeError('no canonical form for %r' % (x,))


def canon_num(x):
    """like canon but 10 == 10.0 == True-as-1 is NOT merged for bool; ints and floats are merged
    (used to compare different routes, where int-vs-float is reported separately)."""
    if isinstance(x, bool) or x is None or isinstance(x, str):
        return canon(x)
    if isinstance(x, (int, float)):
        f = F(repr(x)) if isinstance(x, float) else F(x)
        return 'n%d/%d' % (f.numerator, f.denominator)
    if isinstance(x, (list, tuple)):
        return '[' + ','.join(canon_num(v) for v in x) + ']'
    if isinstance(x, dict):
        return '{' + ','.join('%s:%s' % (enc(k), canon_num(x[k])) for k in sorted(x)) + '}'
    raise TypeError(x)


def rows_payload(rows):
    if not rows:
        return '-'
    return ';'.join('~' if not r else ','.join(enc(c) for c in r) for r in rows)


ERRCLS = [(AssertionError, 'assert'), (KeyError, 'key'), (IndexError, 'index'), (ValueError, 'value'),
          (TypeError, 'type'), (AttributeError, 'attr'), (ZeroDivisionError, 'zerodiv')]


def errclass(e):
    if type(e) is Exception:
        return 'err exc'
    for cls, name in ERRCLS:
        if isinstance(e, cls):
            return 'err ' + name
    return 'err other:' + type(e).__name__


# ----------------------------------------------------------------------------- watchdog
class Hang(BaseException):
    pass


@contextlib.contextmanager
def watchdog(seconds):
    def handler(signum, frame):
        raise Hang()
    old = signal.signal(signal.SIGALRM, handler)
    signal.setitimer(signal.ITIMER_REAL, seconds)
    try:
        yield
    finally:
        signal.setitimer(signal.ITIMER_REAL, 0)
        signal.signal(signal.SIGALRM, old)


@contextlib.contextmanager
def quiet():
    with contextlib.redirect_stdout(io.StringIO()):
        yield


# ----------------------------------------------------------------------------- tie 1: the reader
def base_entries(path, read_csv, types):
    """Split a well-formed shipped file into entries keeping the raw tokens."""
    rows = read_csv(path)
    ents, i = [], 0
    while i < len(rows):
        r = [c.replace(' ', '').lower() for c in rows[i]]
        if not r or '#' in r[0]:
            i += 1
        elif r[0] == 'schtraffic':
            ents.append(('sch', 'SchTraffic', [[c.strip() for c in x[:24]] for x in rows[i + 1:i + 4]]))
            i += 4
        elif r[0] == 'bld':
            i += 1
            blk = []
            while i < len(rows) and rows[i] and rows[i][0].replace(' ', '').lower() in types:
                blk.append([c.strip() for c in rows[i][:3]])
                i += 1
            ents.append(('bld', 'bld', blk))
        else:
            ents.append(('scalar', rows[i][0].strip(), rows[i][1].strip() if len(rows[i]) > 1 else ''))
            i += 1
    return ents


COMMENTS = ['# comment', '#', '# a, comment, with, commas', '#bldHeight,99,', '   # indented comment',
            '# =====', '#,,']
NUMFMT = ['{}', '{}', '{}', ' {}', '{} ', '  {}  ', '+{}', '{}']


def deco_key(rng, k):
    out = []
    for ch in k:
        if rng.random() < 0.08:
            out.append(' ')
        out.append(ch.upper() if rng.random() < 0.5 else ch.lower())
    s = ''.join(out)
    return rng.choice(['', '', ' ', '  ']) + s + rng.choice(['', '', ' '])


def deco_num(rng, tok):
    """another spelling of the same decimal (exactly the same value)"""
    if tok == '':
        return rng.choice(['', '', ' '])
    t = tok
    c = rng.random()
    try:
        f = F(tok)
    except ValueError:
        return tok
    if c < 0.15 and '.' not in t and 'e' not in t.lower():
        t = t + '.0'
    elif c < 0.25 and '.' not in t and 'e' not in t.lower():
        t = t + '.'
    elif c < 0.32 and f == int(f) and abs(f) < 10 ** 9:
        t = '%de0' % int(f)
    elif c < 0.40 and '.' in t and 'e' not in t.lower():
        t = t + '0'
    elif c < 0.45 and t.startswith('0.'):
        t = t[1:]
    elif c < 0.5 and 'e' not in t.lower() and '.' in t:
        digs = t.replace('.', '').lstrip('+-')
        frac = len(t.split('.')[1])
        if len(digs) <= 12:
            t = ('-' if t.startswith('-') else '') + digs + rng.choice(['e', 'E']) + '-%d' % frac
    assert F(t) == f, (tok, t)
    return rng.choice(NUMFMT).format(t)


def render(rng, ents, opts):
    """entries -> list of text lines (no terminators)"""
    lines = []

    def filler():
        for _ in range(rng.choice(opts['gaps'])):
            lines.append(rng.choice(['', ''] + COMMENTS))

    filler()
    low = opts.get('lower', False)
    for kind, key, val in ents:
        k = deco_key(rng, key) if opts['deco'] else (key.lower() if low else key)
        if low and kind == 'bld':
            val = [[t.lower(), e.lower(), f] for t, e, f in val]
        tail = rng.choice(['', ',', ', # note', ',  # a note, with commas', ',,'])
        if kind == 'scalar':
            v = deco_num(rng, val) if (opts['deco'] and key.lower() != 'zone') else val
            if key.lower() == 'zone' and opts['deco']:
                v = rng.choice([val, val.lower(), ' ' + val, val + ' '])
            lines.append('%s,%s%s' % (k, v, tail))
        elif kind == 'sch':
            lines.append(k + rng.choice(['', ',', ', # Traffic schedule']))
            for r in val:
                cells = [deco_num(rng, c) if opts['deco'] else c for c in r]
                lines.append(','.join(cells) + rng.choice(['', ',', ', # Weekday']))
        elif kind == 'bld':
            lines.append(k + rng.choice(['', ',']))
            for t, e, f in val:
                t2 = deco_key(rng, t) if opts['deco'] else t
                e2 = deco_key(rng, e) if opts['deco'] else e
                f2 = deco_num(rng, f) if opts['deco'] else f
                lines.append('%s,%s,%s%s' % (t2, e2, f2, rng.choice(['', ',', ', # stock'])))
        filler()
    return lines


def gen_entries(rng, base, types):
    """a variation of the value tokens of a base entry list (still a well-formed file)"""
    ents = []
    for kind, key, val in base:
        lk = key.lower()
        if kind == 'scalar' and lk in ('albroof', 'vegroof', 'glzr', 'shgc', 'albwall', 'flr_h'):
            if rng.random() < 0.5:
                val = ''
            else:
                val = rng.choice(['0.25', '0.5', '0', '1', '0.125']) if lk != 'flr_h' else \
                    rng.choice(['3.05', '3.5', '4'])
        elif kind == 'bld' and rng.random() < 0.35:
            # the stock family: up to 48 distinct (type, era) rows (a block longer than the 16 types), thousandths
            # adding up to one, to a sum inside the setter tolerance (0.991 .. 1.009) or clearly outside it
            n = rng.choice([1, 2, 3, 5, 12, 16, 17, 18, 25, 33, 48])
            c = rng.random()
            total = 1000 if c < 0.45 else rng.choice([985, 1015]) if c > 0.9 else \
                rng.choice([x for x in range(991, 1010) if x != 1000])
            pairs = rng.sample([(t, e) for t in sorted(types) for e in ('Pre80', 'Pst80', 'New')], n)
            cuts = sorted(rng.sample(range(1, total), n - 1)) if n > 1 else []
            parts = [b - a for a, b in zip([0] + cuts, cuts + [total])]
            val = [[t, e, '%d' % (p // 1000) if p % 1000 == 0 else '%d.%03d' % (p // 1000, p % 1000)]
                   for (t, e), p in zip(pairs, parts)]
        elif kind == 'bld' and rng.random() < 0.6:
            n = rng.choice([1, 2, 3, 4])
            cuts = sorted(rng.sample(range(1, 100), n - 1)) if n > 1 else []
            parts = [b - a for a, b in zip([0] + cuts, cuts + [100])]
            val = [[rng.choice(sorted(types)), rng.choice(['Pre80', 'Pst80', 'New']),
                    ('%d' % (p // 100) if p == 100 else '0.%02d' % p)] for p in parts]
        elif kind == 'sch' and rng.random() < 0.5:
            val = [[rng.choice(['0.1', '0.2', '0.25', '0.9', '1', '0', '0.75']) for _ in range(24)]
                   for _ in range(3)]
        elif kind == 'scalar' and lk == 'zone' and rng.random() < 0.8:
            # every one of the 18 zone names; the two that look like numbers ('7', '8') as often as the rest
            val = rng.choice(['7', '8']) if rng.random() < 0.4 else rng.choice(ZONES18)
        ents.append((kind, key, val))
    return ents


ZONES18 = ('1A', '1B', '2A', '2B', '3A', '3B-CA', '3B', '3C', '4A', '4B', '4C', '5A', '5B', '5C', '6A', '6B',
           '7', '8')


def zone_written(ents):
    for kind, key, val in ents:
        if kind == 'scalar' and key.lower() == 'zone':
            return val
    return None


HANGS = {'n': 0, 'limit': 3}


def real_read(UWG, path, secs=4):
    """-> (parsed-map answer, whole-route answer)"""
    if HANGS['n'] >= HANGS['limit']:
        return 'skipped', 'skipped'        # enough hangs seen: do not stall the check any further
    m = UWG()
    try:
        with watchdog(secs), quiet():
            m._read_input(path)
    except Hang:
        HANGS['n'] += 1
        return 'hang', 'hang'
    except Exception as e:                                    # noqa: BLE001
        ec = errclass(e)
        if ec == 'err exc':
            return ec, ec
        return 'ok ' + canon(m._init_param_dict), ec
    try:
        return 'ok ' + canon(m._init_param_dict), 'ok ' + canon(m.to_dict(include_refDOE=True))
    except Exception as e:                                    # noqa: BLE001
        return 'ok ' + canon(m._init_param_dict), errclass(e)


def write_text(path, lines, eol, final):
    data = eol.join(lines) + (eol if final else '')
    with open(path, 'w', newline='') as f:
        f.write(data)
    return data


def tie_reader(chk, uwg):
    UWG = uwg.UWG
    from uwg import utilities
    types = set(utilities.REF_BLDTYPE_SET)
    rng = chk.rng
    work = chk.work()
    files = sorted(os.path.join(core.REPO, 'resources', f)
                   for f in os.listdir(os.path.join(core.REPO, 'resources')) if f.endswith('.uwg'))
    tdir = os.path.join(core.REPO, 'tests', 'parameters')
    if os.path.isdir(tdir):
        files += sorted(os.path.join(tdir, f) for f in os.listdir(tdir)
                        if f.endswith('.uwg') and 'error' not in f)
    bases = [(f, base_entries(f, utilities.read_csv, types)) for f in files]
    n_lay = 12 if chk.tier == 'quick' else 100
    read_cases, file_cases, info = [], [], []
    bad = 0
    bad_zone = 0
    zones_seen = {}
    stocks_seen = {}
    serial = [0]

    def run_text(lines, eol, final, tag, expect=None, raw=None):
        serial[0] += 1
        p = os.path.join(work, 'lay%d.uwg' % serial[0])
        if raw is None:
            text = write_text(p, lines, eol, final)
        else:
            with open(p, 'w', newline='') as f:
                f.write(raw)
            text = raw
        rows = utilities.read_csv(p)
        pay = rows_payload(rows)
        a_read, a_file = real_read(UWG, p)
        os.remove(p)
        if a_read == 'skipped':
            return a_read, a_file, text
        read_cases.append(('read ' + pay, a_read))
        file_cases.append(('file ' + pay, a_file))
        info.append((tag, text))
        if a_read == 'hang' and not tag.startswith('malformed'):
            chk.violation('impl-violation', 'reader terminates (watchdog)',
                          case={'file': text, 'kind': tag}, observed='no result within 4 s',
                          expected='a parsed map or an exception')
        return a_read, a_file, text

    # the shipped files themselves
    for f, ents in bases:
        raw = open(f, newline='').read()
        ref_read, ref_file, _ = run_text(None, None, None, 'shipped', raw=raw)
        if not ref_file.startswith('ok'):
            chk.notes.append('shipped file %s is rejected by the reader (%s)' % (f, ref_file))
        for j in range(n_lay):
            var = ents if j % 3 == 0 else gen_entries(rng, ents, types)
            # canonical layout of this entry list (lower-case keys, no decoration, LF) = the
            # reference for the invariance oracle; the same list in the shipped spelling comes next
            r0, f0, t0 = run_text(render(rng, var, dict(gaps=[0], deco=False, lower=True)), '\n', True,
                                  'canonical')
            r1, f1, t1 = run_text(render(rng, var, dict(gaps=[0], deco=False)), '\n', True,
                                  'layout:shipped-case')
            for kind_, _, val_ in var:
                if kind_ == 'bld':
                    tot_ = sum(F(r_[2]) for r_ in val_)
                    k_ = '%s rows, sum %s' % ('1-16' if len(val_) <= 16 else '17-48',
                                              '1' if tot_ == 1 else 'inside tolerance' if abs(tot_ - 1) < F(1, 100)
                                              else 'outside tolerance')
                    stocks_seen[k_] = stocks_seen.get(k_, 0) + 1
            zw = zone_written(var)
            if zw is not None and r0.startswith('ok'):
                zones_seen[zw.upper()] = zones_seen.get(zw.upper(), 0) + 1
                want = 'zone:s' + enc(zw)
                held = [x for x in r0.replace('{', ',').replace('}', ',').split(',') if x.startswith('zone:')]
                held_f = [x for x in f0.replace('{', ',').replace('}', ',').split(',') if x.startswith('zone:')]
                # (the reader folds every cell to lower case; the setter stores the upper-case name)
                if [x.lower() for x in held] != [want.lower()] or \
                        (f0.startswith('ok') and held_f != ['zone:s' + enc(zw.upper())]):
                    bad_zone += 1
                    if bad_zone <= 2:
                        chk.violation('impl-violation', 'the zone read from a parameter file is the zone written',
                                      case={'file': t0, 'zone_written': zw},
                                      observed={'parsed': held, 'model': held_f},
                                      expected='zone %r (one of the 18 zone names; the names 7 and 8 are names, '
                                               'not indices)' % zw)
            if 'skipped' not in (r0, r1) and (r1 != r0 or f1 != f0):
                bad += 1
                if bad <= 3:
                    chk.violation('impl-violation', 'layout invariance of _read_input',
                                  case={'file': t1, 'reference_file': t0},
                                  observed={'parsed': r1[:1500], 'route': f1[:300]},
                                  expected={'parsed': r0[:1500], 'route': f0[:300]})
            for _ in range(3):
                order = list(var)
                mode = rng.choice(['shuffle', 'shuffle', 'bldlast', 'same'])
                if mode != 'same':
                    rng.shuffle(order)
                if mode == 'bldlast':
                    order = [e for e in order if e[0] != 'bld'] + [e for e in order if e[0] == 'bld']
                    gaps = [0, 1, 2]
                else:
                    gaps = [0, 0, 1, 2]
                lines = render(rng, order, dict(gaps=gaps, deco=True))
                if mode == 'bldlast':
                    while lines and (lines[-1] == '' or lines[-1].lstrip().startswith('#')):
                        lines.pop()          # the bld rows really are the last lines of the file
                eol = rng.choice(['\n', '\r\n', '\r\n', '\r'])
                final = rng.random() < (0.3 if mode == 'bldlast' else 0.8)
                r1, f1, t1 = run_text(lines, eol, final, 'layout:' + mode)
                if 'skipped' in (r0, r1):
                    continue
                if r1 != r0 or f1 != f0:
                    bad += 1
                    if bad <= 3:
                        chk.violation('impl-violation', 'layout invariance of _read_input',
                                      case={'file': t1, 'reference_file': t0},
                                      observed={'parsed': r1[:1500], 'route': f1[:300]},
                                      expected={'parsed': r0[:1500], 'route': f0[:300]})
    n_valid = len(read_cases)

    # malformed stream (compared by error class; a hang is a violation)
    f0, ents0 = bases[0]
    canon_lines = render(rng, ents0, dict(gaps=[0], deco=False))

    def with_line(i, new):
        ls = list(canon_lines)
        if new is None:
            del ls[i]
        else:
            ls[i] = new
        return ls

    idx = {e[1].lower(): n for n, e in enumerate(ents0)}
    lineno = {}
    n = 0
    for kind, key, val in ents0:
        lineno[key.lower()] = n
        n += 1 + (len(val) if kind in ('sch', 'bld') else 0)
    mal = [
        ('nonnumeric', with_line(lineno['bldheight'], 'bldHeight,abc,')),
        ('nonnumeric-opt', with_line(lineno['albroof'], 'albRoof,x1,')),
        ('missing-key', with_line(lineno['h_mix'], None)),
        ('key-tab', with_line(lineno['bldheight'], 'bldHeight\t,10,')),
        ('value-tab', with_line(lineno['bldheight'], 'bldHeight,\t10\t,')),
        ('missing-value-cell', with_line(lineno['bldheight'], 'bldHeight')),
        ('missing-value-cell-opt', with_line(lineno['albroof'], 'albRoof')),
        ('empty-required', with_line(lineno['bldheight'], 'bldHeight,,')),
        ('zone-missing-cell', with_line(lineno['zone'], 'zone')),
        ('zone-unknown', with_line(lineno['zone'], 'zone,9Z,')),
        ('spaces-only-line', canon_lines[:3] + ['   '] + canon_lines[3:]),
        ('comma-only-line', canon_lines[:3] + [','] + canon_lines[3:]),
        ('comment-inside-sch', canon_lines[:lineno['schtraffic'] + 2] + ['# c'] +
         canon_lines[lineno['schtraffic'] + 2:]),
        ('blank-inside-sch', canon_lines[:lineno['schtraffic'] + 2] + [''] +
         canon_lines[lineno['schtraffic'] + 2:]),
        ('comment-after-bld-header', canon_lines[:lineno['bld'] + 1] + ['# c'] +
         canon_lines[lineno['bld'] + 1:]),
        ('comment-inside-bld', canon_lines[:lineno['bld'] + 2] + ['# c'] +
         canon_lines[lineno['bld'] + 2:]),
        ('bld-bad-frac', with_line(lineno['bld'] + 1, 'LargeOffice,Pst80,zz')),
        ('bld-short-row', with_line(lineno['bld'] + 1, 'LargeOffice,Pst80')),
        ('bld-unknown-type', with_line(lineno['bld'] + 1, 'Castle,Pst80,0.4')),
        ('bld-bad-era', with_line(lineno['bld'] + 1, 'LargeOffice,Pst90,0.4')),
        ('bld-sum', with_line(lineno['bld'] + 1, 'LargeOffice,Pst80,0.5')),
        ('sch-short-row', with_line(lineno['schtraffic'] + 1, '0.1,0.2,0.3')),
        ('sch-text-cell', with_line(lineno['schtraffic'] + 1, ','.join(['0.2'] * 23 + ['x']))),
        ('sch-empty-cell', with_line(lineno['schtraffic'] + 1, ','.join(['0.2'] * 23 + ['']))),
        ('sch-at-eof', [l for i, l in enumerate(canon_lines)
                        if not lineno['schtraffic'] <= i <= lineno['schtraffic'] + 3] +
         canon_lines[lineno['schtraffic']:lineno['schtraffic'] + 3]),
        ('duplicate-key-last-wins', canon_lines + ['bldHeight,12,']),
        ('duplicate-key-bad-last', canon_lines + ['bldHeight,-1,']),
        ('out-of-range', with_line(lineno['albroad'], 'albRoad,1.5,')),
        ('month-13', with_line(lineno['month'], 'Month,13,')),
        ('month-fraction', with_line(lineno['month'], 'Month,3.7,')),
        ('cover-sum', with_line(lineno['grasscover'], 'grasscover,0.6,')),
        ('hash-in-key', with_line(lineno['bldheight'], 'bld#Height,10,')),
        ('underscore-number', with_line(lineno['croad'], 'cRoad,1_600_000,')),
        ('bad-underscore', with_line(lineno['croad'], 'cRoad,1__600,')),
        ('exponent', with_line(lineno['croad'], 'cRoad,1.6E6,')),
        ('bad-exponent', with_line(lineno['croad'], 'cRoad,1.6e,')),
        ('empty-file', []),
        ('only-comments', ['# a', '', '# b']),
        ('bld-header-only-at-eof', [l for i, l in enumerate(canon_lines)
                                    if not lineno['bld'] <= i <= lineno['bld'] + len(ents0[idx['bld']][2])]
         + ['bld,']),
    ]
    hangs = 0
    HANGS['limit'] = HANGS['n'] + 3          # the malformed stream gets its own budget of hangs
    for tag, lines in mal:
        for eol in (['\n'] if chk.tier == 'quick' else ['\n', '\r\n']):
            a_read, a_file, text = run_text(lines, eol, True, 'malformed:' + tag)
            if a_read == 'hang' or a_file == 'hang':
                hangs += 1
                chk.violation('impl-violation', 'reader terminates (watchdog)',
                              case={'file': text, 'kind': tag}, observed='no result within 4 s',
                              expected='a parsed map or an exception')
    # numeric tokens: float() vs the token grammar of the model
    toks = ['10', '10.', '.5', '0.5', '-0', '+3', '1e3', '1E-3', '1.5e+2', '1_000', '1__0', '_1', '1_',
            '', ' 7 ', '\t7\n', '7 7', '- 7', '+-7', '0x10', '1e', 'e5', '.', '1.2.3', '1,5', 'abc',
            '١٢', '00012', '1e05', '12_3.4_5e1_0', '1._5', '1_.5', '1e_5', '٣'][:32]
    toks = [t for t in toks if all(ord(c) < 256 for c in t)]
    for _ in range(60 if chk.tier == 'quick' else 600):
        toks.append(deco_num(rng, rng.choice(['0.25', '12', '3.125', '1600000', '0', '-4.5', '1e3'])))
    tok_cases = []
    for t in toks:
        if t == '':
            continue
        try:
            v = float(t)
            a = 'ok f' + fr(v)
        except ValueError:
            a = 'err value'
        tok_cases.append(('tok ' + enc(t), a))

    tags = {}
    for (tag, _), (line, ans) in zip(info, read_cases):
        tags[line] = tag

    def cls(line, impl):
        return tags.get(line.replace('file ', 'read ', 1), '?').split(':')[0] + \
            ('' if impl.startswith('ok') else '/' + impl)

    chk.correspond('_read_input~readInput', 'C06', read_cases,
                   rule='rows (as returned by utilities.read_csv on the generated text) through the real '
                        '_read_input vs Lean readInput: exact equality of the parsed map (numbers as exact '
                        'decimals, None, text, bld triples, schedule cells) or of the error class; '
                        'layouts: permuted blocks, comments/blank lines between entries, key case, '
                        'spaces, number spellings, LF/CRLF/CR, bld block last; stocks of 1 .. 48 rows (blocks longer '
                        'than the 16 building types) whose thousandths add up to one, to 0.991 .. 1.009 (inside the '
                        'setter tolerance) or to 0.985 / 1.015 (refused); malformed stream',
                   classify=cls)
    chk.correspond('from_param_file~fromFile', 'C06', file_cases,
                   rule='same files through the whole route (parse + PARAMETER_LIST loop of setters) vs '
                        'Lean UWG.fromFile; to_dict(include_refDOE) compared as canonical typed JSON',
                   classify=cls)
    chk.correspond('float()~parseFloat', 'C06', tok_cases,
                   rule='python float(token) vs the decimal token grammar of the model (value as exact '
                        'decimal, or ValueError)')
    chk.direct('layout-invariance(_read_input)', n_valid, n_valid,
               'every generated layout of an entry list parses to the same map and the same parameter '
               'record as its canonical layout (exact); every malformed file ends within the watchdog; '
               'entry lists carry every one of the 18 zone names (7 and 8, which look like numbers, in 40%% '
               'of the varied lists) and the zone parsed / held by the model must be the zone written '
               '(zones exercised: %s); stocks of the entry lists: %s' % (
                   ' '.join('%s:%d' % kv for kv in sorted(zones_seen.items())),
                   '; '.join('%s: %d' % kv for kv in sorted(stocks_seen.items()))),
               mismatches=bad + hangs + bad_zone)
    return bases


# ----------------------------------------------------------------------------- tie 2: dictionaries
def parse_kinds(x):
    """translator output -> {name: ('int',lo,hi)|('flt',lo,hi)|('bool',)|('zone',)|('bld',)|('sch',)|
    ('cover',)|('opt',kind)}"""
    import re
    out = {}
    for name, k in x['kinds']:
        def one(k):
            m = re.match(r'\.(intRange|fltRange) \((-?\d+)\) \((-?\d+)\)', k)
            if m:
                return ('int' if m.group(1) == 'intRange' else 'flt', int(m.group(2)), int(m.group(3)))
            m = re.match(r'\.(intMin|fltMin) (-?\d+)', k)
            if m:
                return ('int' if m.group(1) == 'intMin' else 'flt', int(m.group(2)), None)
            m = re.match(r'\.fltExcl \((-?\d+)\)', k)
            if m:
                return ('fltx', int(m.group(1)))
            if k.startswith('.cover'):
                return ('cover',)
            if k.startswith('.opt'):
                return ('opt', one(k[len('.opt ('):-1]))
            return (k[1:],)
        out[name] = one(k)
    return out


def dec(rng, lo, hi, places=None):
    places = rng.choice([0, 1, 2, 3, 4]) if places is None else places
    q = 10 ** places
    return rng.randint(int(lo * q), int(hi * q)) / q


def gen_value(rng, kind, types, tupled=False):
    t = kind[0]
    if t == 'int':
        lo, hi = kind[1], kind[2] if kind[2] is not None else rng.choice([40, 400, 3600])
        n = rng.randint(max(lo, 1), hi)
        c = rng.random()
        return n if c < 0.7 else float(n) if c < 0.85 else n + 0.5 if n < hi else n
    if t == 'flt':
        lo, hi = kind[1], kind[2]
        if hi is None:
            v = dec(rng, max(lo, 0.05), rng.choice([2, 50, 2000]))
            v = v if v > 0 else 1.5
            c = rng.random()
            return v if c < 0.7 else int(v) + 1
        v = dec(rng, lo, hi)
        c = rng.random()
        return v if c < 0.85 else rng.choice([lo, hi]) if c < 0.95 else bool(rng.randint(0, 1))
    if t == 'fltx':
        v = dec(rng, kind[1] + 0.05, kind[1] + rng.choice([2, 50]))
        return v if rng.random() < 0.8 else int(v) + 1
    if t == 'boolNum':
        return rng.choice([True, False, 0, 1, 0.0, 2.5])
    if t == 'zone':
        z = rng.choice(['1A', '1B', '2A', '2B', '3A', '3B-CA', '3B', '3C', '4A', '4B', '4C', '5A', '5B',
                        '5C', '6A', '6B', '7', '8'])
        return z if rng.random() < 0.7 else z.lower()
    if t == 'sch':
        w = [[rng.choice([0.1, 0.2, 0.25, 0.5, 0.9, 1, 0, 0.75, 1.0]) for _ in range(24)] for _ in range(3)]
        return tuple(tuple(r) for r in w) if tupled else w
    if t == 'opt':
        return None if rng.random() < 0.5 else gen_value(rng, kind[1], types)
    raise ValueError(kind)


def gen_bld(rng, types, customs, tupled):
    names = list(customs) + [(rng.choice(sorted(types)), rng.choice(['pre80', 'pst80', 'new']))
                             for _ in range(rng.choice([1, 2, 3]))]
    seen, rows = set(), []
    for t, e in names:
        if (t, e) not in seen:
            seen.add((t, e))
            rows.append([t, e])
    n = len(rows)
    cuts = sorted(rng.sample(range(1, 100), n - 1)) if n > 1 else []
    parts = [b - a for a, b in zip([0] + cuts, cuts + [100])]
    out = []
    for (t, e), p in zip(rows, parts):
        e2 = e if rng.random() < 0.7 else e.capitalize()
        out.append((t, e2, p / 100 if p < 100 else rng.choice([1, 1.0])))
    return tuple(out) if tupled else [list(r) for r in out]


def gen_params(rng, kinds, types, customs=(), tupled=False):
    d = {}
    for name, k in kinds.items():
        if k[0] == 'cover':
            continue
        if k[0] == 'bld':
            d[name] = gen_bld(rng, types, customs, tupled)
        else:
            d[name] = gen_value(rng, k, types, tupled)
    cov = [n for n, k in kinds.items() if k[0] == 'cover']
    # three cover fractions, sum <= 0.9 (the exact-1 boundary is probed separately)
    a = rng.randint(10, 60)
    b = rng.randint(0, 90 - a - 5)
    c = rng.randint(0, 90 - a - b)
    vals = [a / 100, b / 100, c / 100]
    for n, v in zip(cov, vals):
        d[n] = v
    return d


WEEK = lambda rng, vals: [[rng.choice(vals) for _ in range(24)] for _ in range(3)]  # noqa: E731


def gen_material_dict(rng, i):
    # layers may share a material NAME while differing in properties (e.g. two grades of "Concrete"):
    # names identify nothing, every layer keeps its own conductivity and heat capacity
    return {'type': 'Material', 'name': rng.choice(['mat%d' % i, 'Concrete', 'mat0']), 'thermalcond': dec(rng, 0.03, 3, 3) or 0.5,
            'volheat': float(rng.randint(10 ** 4, 3 * 10 ** 6))}


def gen_element_dict(rng, name, horizontal):
    n = rng.choice([1, 2, 3, 4])
    return {'type': 'Element', 'albedo': dec(rng, 0.05, 0.9, 2), 'emissivity': dec(rng, 0.5, 0.99, 2),
            'layer_thickness_lst': [dec(rng, 0.01, 0.3, 3) or 0.05 for _ in range(n)],
            'material_lst': [gen_material_dict(rng, i) for i in range(n)],
            'vegcoverage': rng.choice([0, 0.0, 0.25, 1]), 't_init': rng.choice([293, 293.0, 288.15]),
            'horizontal': horizontal, 'name': name}


def gen_building_dict(rng):
    return {'type': 'Building', 'floor_height': dec(rng, 2.5, 5, 2), 'int_heat_night': dec(rng, 0, 10, 1),
            'int_heat_day': dec(rng, 0, 20, 1), 'int_heat_frad': dec(rng, 0, 1, 2),
            'int_heat_flat': dec(rng, 0, 1, 2), 'infil': dec(rng, 0.1, 2, 2), 'vent': dec(rng, 0, 0.01, 5),
            'glazing_ratio': dec(rng, 0.05, 0.9, 2), 'u_value': dec(rng, 0.5, 6, 3),
            'shgc': dec(rng, 0.1, 0.9, 2), 'condtype': rng.choice(['AIR', 'WATER', 'air', 'Water']),
            'cop': dec(rng, 1.5, 6, 2), 'coolcap': dec(rng, 50, 400, 1), 'heateff': dec(rng, 0.5, 1, 2),
            'initial_temp': rng.choice([293, 293.15, 297.0]),
            'heat_cap': rng.choice([999, 250.5, 9999.0, 120])}


def gen_bem_dict(rng, bldtype, era):
    return {'type': 'BEMDef', 'building': gen_building_dict(rng),
            'mass': gen_element_dict(rng, 'mass', rng.choice([True, 1])),
            'wall': gen_element_dict(rng, 'wall', rng.choice([False, 0])),
            'roof': gen_element_dict(rng, 'roof', True), 'bldtype': bldtype, 'builtera': era}


def gen_sch_dict(rng, bldtype, era):
    fr_ = [0, 0.1, 0.25, 0.5, 0.9, 1, 1.0]
    return {'type': 'SchDef', 'elec': WEEK(rng, fr_), 'gas': WEEK(rng, fr_), 'light': WEEK(rng, fr_),
            'occ': WEEK(rng, fr_), 'cool': WEEK(rng, [24, 24.0, 26.5, 30]),
            'heat': WEEK(rng, [15.6, 18, 20, 21.0]), 'swh': WEEK(rng, fr_),
            'q_elec': dec(rng, 1, 30, 2), 'q_gas': dec(rng, 0, 10, 2), 'q_light': dec(rng, 1, 20, 2),
            'n_occ': dec(rng, 0.01, 0.3, 3), 'vent': dec(rng, 0.0001, 0.005, 5), 'v_swh': dec(rng, 0, 2, 2),
            'bldtype': bldtype, 'builtera': era}


def attrs_bem(b):
    """spec-level serialiser of a live BEMDef (reads the attributes, does not call to_dict)"""
    def mat(m):
        return {'type': 'Material', 'name': m.name, 'thermalcond': m.thermalcond, 'volheat': m.volheat}

    def el(e):
        return {'type': 'Element', 'albedo': e.albedo, 'emissivity': e.emissivity,
                'layer_thickness_lst': list(e.layer_thickness_lst),
                'material_lst': [mat(m) for m in e.material_lst], 'vegcoverage': e.vegcoverage,
                't_init': e.t_init, 'horizontal': e.horizontal, 'name': e.name}
    g = b.building
    bd = {'type': 'Building', 'floor_height': g.floor_height, 'int_heat_night': g.int_heat_night,
          'int_heat_day': g.int_heat_day, 'int_heat_frad': g.int_heat_frad,
          'int_heat_flat': g.int_heat_flat, 'infil': g.infil, 'vent': g.vent,
          'glazing_ratio': g.glazing_ratio, 'u_value': g.u_value, 'shgc': g.shgc, 'condtype': g.condtype,
          'cop': g.cop, 'coolcap': g.coolcap, 'heateff': g.heateff, 'initial_temp': g.initial_temp,
          'heat_cap': g.heat_cap}
    return {'type': 'BEMDef', 'building': bd, 'mass': el(b.mass), 'wall': el(b.wall), 'roof': el(b.roof),
            'bldtype': b.bldtype, 'builtera': b.builtera}


def attrs_sch(s):
    return {'type': 'SchDef', 'elec': s.elec, 'gas': s.gas, 'light': s.light, 'occ': s.occ, 'cool': s.cool,
            'heat': s.heat, 'swh': s.swh, 'q_elec': s.q_elec, 'q_gas': s.q_gas, 'q_light': s.q_light,
            'n_occ': s.n_occ, 'vent': s.vent, 'v_swh': s.v_swh, 'bldtype': s.bldtype,
            'builtera': s.builtera}


def deep(o, depth=0):
    """all attributes of an object graph as a canonical structure (exact floats via repr)"""
    if isinstance(o, float):
        return 'f' + repr(o)
    if o is None or isinstance(o, (bool, int, str)):
        return repr(o)
    if isinstance(o, (list, tuple)):
        return [deep(v, depth + 1) for v in o]
    if isinstance(o, dict):
        return {k: deep(v, depth + 1) for k, v in sorted(o.items())}
    if hasattr(o, '__dict__') and depth < 8:
        return {'__class__': type(o).__name__,
                **{k: deep(v, depth + 1) for k, v in sorted(vars(o).items())}}
    return repr(o)


def first_diff(a, b, path='', strict=True):
    num = lambda x: isinstance(x, (int, float)) and not isinstance(x, bool)      # noqa: E731
    if not strict and num(a) and num(b):
        return None if a == b else (path, a, b)
    if type(a) != type(b):
        return path, a, b
    if isinstance(a, dict):
        for k in sorted(set(a) | set(b)):
            if k not in a or k not in b:
                return path + '/' + str(k), a.get(k), b.get(k)
            r = first_diff(a[k], b[k], path + '/' + str(k), strict)
            if r:
                return r
        return None
    if isinstance(a, list):
        if len(a) != len(b):
            return path + '/len', len(a), len(b)
        for i, (x, y) in enumerate(zip(a, b)):
            r = first_diff(x, y, path + '/%d' % i, strict)
            if r:
                return r
        return None
    return None if a == b else (path, a, b)


def real_dict_route(UWG, d, secs=20):
    try:
        with watchdog(secs), quiet():
            m = UWG.from_dict(d)
            return m, 'ok ' + canon(m.to_dict(include_refDOE=True))
    except Hang:
        return None, 'hang'
    except Exception as e:                                    # noqa: BLE001
        return None, errclass(e)


def roundtrip_oracle(chk, UWG, m, origin, counters):
    """to_dict / from_dict / JSON text oracles on a live model `m`. Returns number of failures."""
    bad = 0
    d1 = m.to_dict(include_refDOE=True)
    try:
        with quiet():
            m2 = UWG.from_dict(copy.deepcopy(d1))
            d2 = m2.to_dict(include_refDOE=True)
            text = json.dumps(d1)
            m3 = UWG.from_dict(json.loads(text))
            d3 = m3.to_dict(include_refDOE=True)
    except Exception as e:                                    # noqa: BLE001
        chk.violation('impl-violation', 'from_dict(to_dict(m)) is accepted', case=origin,
                      observed='%s: %s' % (type(e).__name__, str(e)[:300]),
                      expected='the round-tripped model')
        return 1
    if not (d1 == d2 and canon(d1) == canon(d2)):
        bad += 1
        chk.violation('impl-violation', 'to_dict stable under from_dict', case=origin,
                      observed=str(first_diff(json.loads(json.dumps(d2)), json.loads(json.dumps(d1)))),
                      expected='to_dict(from_dict(to_dict(m))) == to_dict(m), types included')
    if canon(d3) != canon(d1):
        bad += 1
        chk.violation('impl-violation', 'to_dict stable under a JSON text round trip', case=origin,
                      observed=str(first_diff(json.loads(json.dumps(d3)), json.loads(text))),
                      expected='equal canonical JSON')
    counters['json_bytes'] = counters.get('json_bytes', 0) + len(text)
    # parameters: attribute by attribute
    for attr in UWG.PARAMETER_LIST:
        a, b, c = getattr(m, attr), getattr(m2, attr), getattr(m3, attr)
        if canon(a) != canon(b) or canon(a) != canon(c):
            bad += 1
            chk.violation('impl-violation', 'from_dict(to_dict) identity on parameter ' + attr,
                          case=origin, observed={'after': repr(b)[:200], 'after_json': repr(c)[:200]},
                          expected=repr(a)[:200])
            break
    # custom reference objects: every attribute, not only what to_dict shows
    for name in ('ref_bem_vector', 'ref_sch_vector'):
        # an empty vector and None both mean "no custom data"; to_dict drops empty vectors (Lean:
        # from_to_dict_empty_refs), so [] coming back as None is not a difference
        a, b, c = (deep(getattr(x, name) or None) for x in (m, m2, m3))
        for other, how in ((b, 'from_dict'), (c, 'JSON text')):
            df = first_diff(a, other)
            if df:
                bad += 1
                chk.violation('impl-violation',
                              'custom reference objects identical after %s round trip' % how,
                              case=origin, observed={'path': name + df[0], 'after': df[2]},
                              expected={'path': name + df[0], 'before': df[1]})
                break
    return bad



def cover_boundary_probe(chk, UWG, plain, kwnames):
    """Pure-Python route probe (needs no model): runs also when the regenerated setter table is not recognised."""
    # boundary probe: cover sums that are exactly 1 in decimal and whose double sum depends on the
    # order of the operands: every route must reach the same verdict (accept or reject)
    wits, wits2 = [], []
    for a in range(1, 99):
        for b in range(1, 99 - a):
            c = 100 - a - b
            x, y, z = a / 100, b / 100, c / 100
            if len({(z + x) + y <= 1, (y + x) + z <= 1, (x + z) + y <= 1}) > 1:
                wits.append((x, y, z))
            # (round 8) ... or on the FORM of the test: "what is left for this cover" (v <= 1 - the other two)
            elif len({(x + y) + z <= 1, z <= 1 - x - y, z <= 1 - y - x, y <= 1 - x - z, y <= 1 - z - x,
                      x <= 1 - y - z, x <= 1 - z - y}) > 1:
                wits2.append((x, y, z))
    nprobe, bprobe = 0, 0
    for (x, y, z) in wits[:6] + wits[-6:] + wits2[:4] + wits2[-4:] + chk.rng.sample(wits2, min(8, len(wits2))):
        d = dict(plain)
        d['blddensity'], d['treecover'], d['grasscover'] = x, y, z
        kwv = {n: d[n] for n in kwnames}
        outcome = {}
        for name, f in (('from_param_args', lambda: UWG.from_param_args(**kwv)),
                        ('from_dict', lambda: UWG.from_dict(d))):
            try:
                with quiet():
                    m = f()
                outcome[name] = 'accepted'
                try:
                    with quiet():
                        UWG.from_dict(m.to_dict())
                    outcome[name + ';round-trip'] = 'accepted'
                except AssertionError:
                    outcome[name + ';round-trip'] = 'AssertionError'
            except AssertionError:
                outcome[name] = 'AssertionError'
        nprobe += 1
        chk.measurements['cover_sum_boundary_probe'] = {
            'blddensity': x, 'treecover': y, 'grasscover': z, 'outcome': outcome}
        if len(set(outcome.values())) > 1:
            bprobe += 1
            if bprobe <= 2:
                chk.violation('impl-violation', 'routes disagree at the cover-sum boundary (float order of the '
                              'sum assertion differs between setters)',
                              case={'blddensity': x, 'treecover': y, 'grasscover': z}, observed=outcome,
                              expected='the same verdict on every route and after to_dict/from_dict')
    chk.direct('cover-sum-boundary(routes agree)', nprobe, nprobe,
               'ratios summing to exactly 1 in decimal whose double-precision sum depends on operand order '
               '(%d such triples of hundredths; 12 probed), or on whether the test is written as a sum or as "what is '
               'left for this cover" (v <= 1 - the other two; %d more triples, 16 probed): from_param_args, from_dict and '
               'the round trip must all accept or all reject' % (len(wits), len(wits2)), mismatches=bprobe)


def tie_dict(chk, uwg, kinds, xtab):
    UWG = uwg.UWG
    from uwg import utilities
    rng = chk.rng
    types = set(utilities.REF_BLDTYPE_SET)
    refBEM, refSch = UWG.load_refDOE()
    quick = chk.tier == 'quick'
    cases, classes = [], {}
    bad = 0
    counters = {}
    n_oracle = 0

    def add(tag, d):
        nonlocal bad, n_oracle
        m, ans = real_dict_route(UWG, copy.deepcopy(d))
        line = 'dict ' + canon(d)
        cases.append((line, ans))
        classes[line] = tag
        if ans == 'hang':
            bad += 1
            chk.violation('impl-violation', 'from_dict terminates', case={'dict': json.dumps(d)[:2000]},
                          observed='hang', expected='a model or an exception')
        if m is not None and (tag.startswith('valid') or n_oracle < 400):
            n_oracle += 1
            bad += roundtrip_oracle(chk, UWG, m, {'kind': tag, 'dict': json.dumps(d)[:3000]}, counters)
        return m

    def custom_pairs(k, derived):
        pairs, names = [], []
        for i in range(k):
            era = rng.choice(['pre80', 'pst80', 'new'])
            if derived:
                ti, zi = rng.randrange(16), rng.randrange(16)
                ei = ['pre80', 'pst80', 'new'].index(era)
                b = copy.deepcopy(refBEM[ti][ei][zi])
                s = copy.deepcopy(refSch[ti][ei][zi])
                if rng.random() < 0.5:
                    b.bldtype = s.bldtype = 'custom%d' % i
                pairs.append((attrs_bem(b), attrs_sch(s)))
                names.append((b.bldtype, era))
            else:
                t = rng.choice(['custom%d' % i, rng.choice(sorted(types))])
                pairs.append((gen_bem_dict(rng, t, era), gen_sch_dict(rng, t, era)))
                names.append((t, era))
        return pairs, names

    base = None
    for i in range(80 if quick else 300):
        k = rng.choice([0, 0, 1, 2, 3])
        pairs, names = custom_pairs(k, derived=rng.random() < 0.5)
        d = {'type': 'UWG'}
        d.update(gen_params(rng, kinds, types, customs=names, tupled=rng.random() < 0.3))
        if k:
            d['ref_bem_vector'] = [p[0] for p in pairs]
            d['ref_sch_vector'] = [p[1] for p in pairs]
        elif rng.random() < 0.2:
            d['ref_bem_vector'] = d['ref_sch_vector'] = rng.choice([None, []])
        add('valid/customs=%d' % k, d)
        if base is None and k == 2:
            base = d
    if base is None:
        pairs, names = custom_pairs(2, False)
        base = {'type': 'UWG'}
        base.update(gen_params(rng, kinds, types, customs=names))
        base['ref_bem_vector'] = [p[0] for p in pairs]
        base['ref_sch_vector'] = [p[1] for p in pairs]
        add('valid/customs=2', base)

    # identifier texts as a user types them (fifth round; own random stream, so that the cases above and below stay
    # what they were): custom names with capitals / blanks / punctuation, DOE names in another letter case
    import random
    import v2_util as V
    irng = random.Random('C06-identifier-texts-%d' % chk.seed)
    for k_, nm in enumerate(t_ for t_ in V.IDENTIFIER_TEXTS if t_.isascii()):
        era = ['pre80', 'pst80', 'new'][k_ % 3]
        d = {'type': 'UWG'}
        d.update(gen_params(irng, kinds, types, customs=[(nm, era)]))
        d['ref_bem_vector'] = [gen_bem_dict(irng, nm, era)]
        d['ref_sch_vector'] = [gen_sch_dict(irng, nm, era)]
        add('valid/identifier-text', d)
    # probes of every setter (behaviour of the live validators vs the table-driven model)
    plain = {'type': 'UWG'}
    plain.update(gen_params(rng, kinds, types))
    PROBES = [-1, 0, 1, 2, 0.5, 1.5, 12, 13, 31, 32, -0.25, 3.7, 12.9, True, False, None, 'x', '1a',
              [], [[1, 2]], {}]
    for name in kinds:
        for p in (PROBES if not quick else rng.sample(PROBES, 9)):
            d = dict(plain)
            d[name] = p
            add('probe', d)
        d = dict(plain)
        del d[name]
        add('missing-key', d)
    # cover interplay
    for _ in range(20 if quick else 200):
        d = dict(plain)
        a, b, c = (rng.randint(0, 70) / 100 for _ in range(3))
        if abs(a + b + c - 1) < 1e-9:
            continue
        d['blddensity'], d['treecover'], d['grasscover'] = a, b, c
        add('cover', d)
    # bld / schtraffic malformations
    for v in ([['largeoffice', 'pst80', 0.5]], [['largeoffice', 'pst80', 0.4], ['hospital', 'new', 0.6]],
              [['largeoffice', 'PST80', 1]], [['largeoffice', 'pst90', 1.0]], [['largeoffice', 'pst80']],
              [[3, 'pst80', 1.0]], [['largeoffice', 'pst80', 1.5]], [['a', 'new', 'x']], 5, None,
              [['largeoffice', 'pst80', 0.995], ['hospital', 'new', 0.0]], [], [None],
              [['largeoffice', 'pst80', 0.3], ['largeoffice', 'pst80', 0.7]],
              [['largeoffice', 'pst80', True]]):
        d = dict(plain)
        d['bld'] = v
        add('bld', d)
    w = plain['schtraffic']
    for v in (w[:2], w + [w[0]], [w[0][:23], w[1], w[2]], [w[0][:23] + ['x'], w[1], w[2]],
              [w[0][:23] + [None], w[1], w[2]], [w[0][:23] + [True], w[1], w[2]],
              [w[0][:23] + [-5], w[1], w[2]], [5, w[1], w[2]], [w[0], w[1], None], 'abc'):
        d = dict(plain)
        d['schtraffic'] = v
        add('sch', d)
    # malformed envelopes / reference vectors
    env = []
    d = dict(base); d['type'] = 'uwg'; env.append(d)                                    # noqa: E702
    d = dict(base); del d['type']; env.append(d)                                        # noqa: E702
    d = dict(base); del d['ref_sch_vector']; env.append(d)                              # noqa: E702
    d = dict(base); d['ref_bem_vector'] = None; env.append(d)                           # noqa: E702
    d = dict(base); d['ref_bem_vector'] = base['ref_bem_vector'][:1]; env.append(d)     # noqa: E702
    d = dict(base); d['ref_sch_vector'] = list(reversed(base['ref_sch_vector']))        # noqa: E702
    env.append(d)
    d = dict(base); d['ref_bem_vector'] = 7; env.append(d)                              # noqa: E702

    def mutate_bem(path, value, delete=False):
        d = copy.deepcopy(base)
        o = d['ref_bem_vector'][0]
        for k in path[:-1]:
            o = o[k]
        if delete:
            del o[path[-1]]
        else:
            o[path[-1]] = value
        return d

    def mutate_sch(key, value, delete=False):
        d = copy.deepcopy(base)
        if delete:
            del d['ref_sch_vector'][0][key]
        else:
            d['ref_sch_vector'][0][key] = value
        return d
    b0 = base['ref_bem_vector'][0]
    env += [
        mutate_bem(['builtera'], 'Pst80'), mutate_bem(['builtera'], 5), mutate_bem(['bldtype'], 5),
        mutate_bem(['type'], 'BEM'), mutate_bem(['building', 'type'], 'Bld'),
        mutate_bem(['building', 'condtype'], 'steam'), mutate_bem(['building', 'condtype'], 5),
        mutate_bem(['building', 'condtype'], 'water'), mutate_bem(['building', 'heat_cap'], None),
        mutate_bem(['building', 'heat_cap'], None, delete=True),
        mutate_bem(['building', 'heat_cap'], 'text'), mutate_bem(['building', 'int_heat_day'], 'text'),
        mutate_bem(['building', 'int_heat_day'], None), mutate_bem(['building', 'shgc'], 1.5),
        mutate_bem(['building', 'cop'], -1), mutate_bem(['building', 'cop'], None),
        mutate_bem(['building', 'vent'], None, delete=True),
        mutate_bem(['wall', 'layer_thickness_lst'], b0['wall']['layer_thickness_lst'] + [0.1]),
        mutate_bem(['wall', 'layer_thickness_lst'], [-0.1] * len(b0['wall']['layer_thickness_lst'])),
        mutate_bem(['wall', 'layer_thickness_lst'], [0] * len(b0['wall']['layer_thickness_lst'])),
        mutate_bem(['wall', 'layer_thickness_lst'], 3),
        mutate_bem(['wall', 'layer_thickness_lst'], ['a'] * len(b0['wall']['layer_thickness_lst'])),
        mutate_bem(['wall', 'material_lst'], []), mutate_bem(['wall', 'material_lst'], 4),
        mutate_bem(['wall', 'material_lst', 0, 'thermalcond'], 0),
        mutate_bem(['wall', 'material_lst', 0, 'volheat'], -3),
        mutate_bem(['wall', 'material_lst', 0, 'type'], 'Mat'),
        mutate_bem(['wall', 'material_lst', 0, 'name'], None),
        mutate_bem(['wall', 'material_lst', 0, 'name'], None, delete=True),
        mutate_bem(['roof', 'horizontal'], 0), mutate_bem(['roof', 'horizontal'], 2.5),
        mutate_bem(['roof', 'horizontal'], 0.5), mutate_bem(['roof', 'horizontal'], None),
        mutate_bem(['roof', 'horizontal'], 'yes'), mutate_bem(['roof', 'vegcoverage'], 1.2),
        mutate_bem(['roof', 't_init'], -1), mutate_bem(['roof', 'albedo'], -0.1),
        mutate_bem(['roof', 'albedo'], 1.7), mutate_bem(['roof', 'name'], 17),
        mutate_bem(['mass', 'type'], 'El'), mutate_bem(['mass'], None, delete=True),
        mutate_sch('builtera', 'NEW'), mutate_sch('bldtype', None), mutate_sch('q_elec', -1),
        mutate_sch('q_gas', 'x'), mutate_sch('v_swh', None), mutate_sch('swh', None),
        mutate_sch('elec', base['ref_sch_vector'][0]['elec'][:2]),
        mutate_sch('cool', [base['ref_sch_vector'][0]['cool'][0][:23]] +
                   base['ref_sch_vector'][0]['cool'][1:]),
        mutate_sch('heat', 3), mutate_sch('type', 'Sch'), mutate_sch('occ', None, delete=True),
        mutate_sch('bldtype', 'othername'),
    ]
    for d in env:
        add('malformed-envelope', d)

    chk.correspond('from_dict;to_dict~fromDict;toDict', 'C06', cases,
                   rule='generated dictionaries (valid sets with 0-3 custom BEMDef/SchDef pairs - synthetic '
                        'and derived from the DOE library -, probes of every setter with 21 probe values, '
                        'cover sums, bld/schedule/envelope malformations) through the real from_dict then '
                        'to_dict(include_refDOE=True) vs Lean UWG.fromDict then toDict: exact equality of '
                        'the typed canonical JSON (int/float/bool distinguished) or of the error class',
                   classify=lambda line, impl: classes.get(line, '?') +
                   ('' if impl.startswith('ok') else '/' + impl))

    # keyword route vs model
    kw_cases = []
    kwnames = xtab['kw']
    optional = xtab['oset']
    for i in range(25 if quick else 200):
        k = rng.choice([0, 0, 1, 2])
        pairs, names = custom_pairs(k, derived=rng.random() < 0.6)
        vals = gen_params(rng, kinds, types, customs=names, tupled=rng.random() < 0.5)
        if i % 7 == 3:      # an invalid keyword set now and then
            vals[rng.choice(['albroad', 'latfocc', 'h_mix'])] = rng.choice([1.5, -0.1, 'x', None])
        kw = {n: vals[n] for n in kwnames}
        extra = {n: vals[n] for n in optional if vals[n] is not None and rng.random() < 0.8}
        line = 'kwargs %s %s %s %s' % (canon(kw), canon(extra),
                                       canon([p[1] for p in pairs]) if k else 'N',
                                       canon([p[0] for p in pairs]) if k else 'N')
        try:
            with watchdog(20), quiet():
                bv = [uwg.BEMDef.from_dict(copy.deepcopy(p[0])) for p in pairs] if k else None
                sv = [uwg.SchDef.from_dict(copy.deepcopy(p[1])) for p in pairs] if k else None
                before = deep(bv)
                m = UWG.from_param_args(ref_bem_vector=bv, ref_sch_vector=sv, **copy.deepcopy(kw))
                for n, v in extra.items():
                    setattr(m, n, v)
                ans = 'ok ' + canon(m.to_dict(include_refDOE=True))
        except Hang:
            ans = 'hang'
            m = None
        except Exception as e:                                # noqa: BLE001
            ans = errclass(e)
            m = None
        kw_cases.append((line, ans))
        if m is not None:
            n_oracle += 1
            bad += roundtrip_oracle(chk, UWG, m, {'kind': 'kwargs', 'kwargs': canon(kw)[:1500],
                                                   'overrides': canon(extra)}, counters)
            if k and first_diff(before, deep(m.ref_bem_vector)):
                bad += 1
                chk.violation('impl-violation', 'from_param_args leaves the custom objects unchanged',
                              case={'kwargs': canon(kw)[:1500]},
                              observed=str(first_diff(before, deep(m.ref_bem_vector))), expected='equal')
    chk.correspond('from_param_args~fromKwargs', 'C06', kw_cases,
                   rule='keyword construction (+ the optional overrides set as attributes, + custom '
                        'BEMDef/SchDef objects) then to_dict(include_refDOE=True) vs Lean UWG.fromKwargs '
                        'then toDict; typed canonical JSON or error class',
                   classify=lambda line, impl: 'ok' if impl.startswith('ok') else impl)
    chk.direct('roundtrip-oracles(to_dict/from_dict/json)', n_oracle, n_oracle,
               'on every accepted model: to_dict == to_dict after from_dict (Python equality and typed '
               'canonical text); equal canonical JSON after json.dumps/json.loads/from_dict; every '
               'parameter attribute equal; every attribute of every custom BEMDef/SchDef object (not only '
               'the serialised ones) equal', mismatches=bad)
    chk.measurements['json_text_bytes_round_tripped'] = counters.get('json_bytes', 0)

    cover_boundary_probe(chk, UWG, plain, kwnames)
    return plain


# ----------------------------------------------------------------------------- tie 3: routes
def uwg_text(vals, plist, rng=None):
    """a .uwg file for a parameter set (numbers written with repr)"""
    lines = ['# generated by the C06 check']
    for n in plist:
        v = vals[n]
        if n == 'schtraffic':
            lines.append('schtraffic,')
            for r in v:
                lines.append(','.join(repr(x) for x in r) + ',')
        elif n == 'bld':
            lines.append('bld,')
            for t, e, f in v:
                lines.append('%s,%s,%r' % (t, e, f))
        elif n == 'autosize':
            lines.append('autosize,%d,' % int(bool(v)))
        elif v is None:
            lines.append('%s,,' % n)
        else:
            lines.append('%s,%s,' % (n, v if isinstance(v, str) else repr(v)))
    return '\n'.join(lines) + '\n'


def sim_records(m):
    """hourly records as exact values (float.hex); equal numbers of different Python type (the wind
    speed is the int `windmin` itself when the keyword route was given an int) compare equal here and
    are counted separately by `sim_types`"""
    return [tuple(float(x).hex() for x in (u.canTemp, u.canHum, u.Tdp, u.canRHum, w.wind))
            for u, w in zip(m.UCMData, m.WeatherData)]


def sim_types(m):
    return [tuple(type(x).__name__ for x in (u.canTemp, u.canHum, u.Tdp, u.canRHum, w.wind))
            for u, w in zip(m.UCMData, m.WeatherData)]


def tie_routes(chk, uwg, kinds, xtab):
    from click.testing import CliRunner
    from uwg.cli.simulate import simulate as cli_simulate
    UWG = uwg.UWG
    rng = chk.rng
    from uwg import utilities
    types = set(utilities.REF_BLDTYPE_SET)
    epw = os.path.join(core.REPO, 'resources', 'SGP_Singapore.486980_IWEC.epw')
    work = chk.work()
    nsets = 2 if chk.tier == 'quick' else 20
    plist = xtab['plist']
    kwnames, optional = xtab['kw'], xtab['oset']
    refBEM, refSch = UWG.load_refDOE()
    bad = 0
    total = 0
    branch = {}
    intfloat_notes = []
    typediff = {}
    rectype_diff = {}
    # zones of the route sets: the sets that include the file and CLI-param routes start with the two zone names
    # that look like numbers, then run through the other 16; custom sets draw from all 18
    file_zones = ['7', '8'] + [z for z in ZONES18 if z not in ('7', '8')]
    if chk.tier == 'quick':
        file_zones = [rng.choice(['7', '8'])]
    share_patterns = [('wall',), ('wall', 'roof', 'mass'), ('building',), ('mass', 'roof'),
                      ('building', 'wall', 'roof', 'mass')]
    shared_sets = 0
    for si in range(nsets):
        custom = (si % 2 == 1)
        # custom sets: every other one (quick tier: the only one) is a vector of two customs written around
        # common objects - one Element / Building instance used in both BEMDefs, as a caller who defines a
        # construction once writes it. Only the keyword route can carry that; dict / JSON / CLI rebuild objects.
        share = rng.choice(share_patterns) if custom and (si % 4 == 1) else None
        # moderate perturbation of the Singapore defaults, ints and floats mixed on purpose
        vals = dict(month=rng.randint(1, 12), day=rng.randint(1, 28), nday=1,
                    dtsim=300, dtweather=rng.choice([3600, 3600.0]),
                    autosize=rng.choice([False, True, 0, 1]), sensocc=rng.choice([100, 100.0, 90.5]),
                    latfocc=dec(rng, 0.2, 0.4, 2), radfocc=dec(rng, 0.1, 0.3, 2),
                    radfequip=dec(rng, 0.4, 0.6, 2), radflight=dec(rng, 0.6, 0.8, 2),
                    h_ubl1=rng.choice([1000, 1000.0, 800]), h_ubl2=rng.choice([80, 80.0, 100]),
                    h_ref=rng.choice([150, 150.0]), h_temp=rng.choice([2, 2.0]),
                    h_wind=rng.choice([10, 10.0]), c_circ=dec(rng, 1.0, 1.4, 1),
                    c_exch=rng.choice([1, 1.0]), maxday=rng.choice([150, 150.0, 200]),
                    maxnight=rng.choice([20, 20.0, 50]), windmin=rng.choice([1, 1.0, 0.5]),
                    h_obs=rng.choice([0.1, 0.2]), bldheight=rng.choice([10, 10.0, 15, 22.5, 30]),
                    h_mix=rng.choice([1, 1.0, 0.5, 0]), blddensity=dec(rng, 0.3, 0.6, 2),
                    vertohor=dec(rng, 0.5, 1.2, 2), charlength=rng.choice([1000, 1000.0, 500]),
                    albroad=dec(rng, 0.05, 0.3, 2), droad=rng.choice([0.5, 0.25, 1]),
                    sensanth=rng.choice([20, 20.0, 10.5]),
                    zone=rng.choice(ZONES18) if custom else file_zones[(si // 2) % len(file_zones)],
                    grasscover=dec(rng, 0.0, 0.2, 2), treecover=dec(rng, 0.0, 0.2, 2),
                    vegstart=rng.choice([1, 4]), vegend=rng.choice([10, 12]),
                    albveg=dec(rng, 0.15, 0.3, 2), rurvegcover=dec(rng, 0.5, 0.95, 2),
                    latgrss=dec(rng, 0.3, 0.6, 1), lattree=dec(rng, 0.4, 0.7, 1),
                    schtraffic=[[rng.choice([0.2, 0.4, 0.7, 0.9, 1, 0]) for _ in range(24)]
                                for _ in range(3)],
                    kroad=rng.choice([1, 1.0, 1.5]), croad=rng.choice([1600000, 1600000.0, 1.9e6]))
        for n in optional:
            vals[n] = None if rng.random() < 0.5 else (
                rng.choice([3.05, 3.5, 4]) if n == 'flr_h' else rng.choice([0.25, 0.5, 0, 1, 0.35]))
        customs, names = [], []
        if custom:
            for ci in range(2 if share else rng.choice([1, 2])):
                ti, zi, ei = rng.randrange(16), 0, rng.randrange(3)
                if share and ci == 1 and rng.random() < 0.5:
                    ti = (ti + 1 + rng.randrange(15)) % 16     # the second custom may replace a DOE type ...
                b = copy.deepcopy(refBEM[ti][ei][zi])
                s = copy.deepcopy(refSch[ti][ei][zi])
                b.bldtype = s.bldtype = 'custom%d' % ci if rng.random() < 0.6 else b.bldtype
                if share and (b.bldtype, b.builtera) in names:
                    b.bldtype = s.bldtype = 'custom%d' % ci    # ... but both must stand in the stock
                customs.append((attrs_bem(b), attrs_sch(s)))
                names.append((b.bldtype, b.builtera))
            if share:
                shared_sets += 1
                for role in share:                              # equal values in both (it is one object)
                    customs[1][0][role] = copy.deepcopy(customs[0][0][role])
        vals['bld'] = gen_bld(rng, types, names, tupled=False)
        vals['bld'] = [[t, e.lower(), f] for t, e, f in vals['bld']]
        origin = {'parameters': canon(vals)[:2500], 'customs': [n for n in names]}
        if share:
            origin['custom BEMDefs 0 and 1 given to from_param_args are built around the same objects'] = list(share)

        def fresh_objs():
            bv = [uwg.BEMDef.from_dict(copy.deepcopy(p[0])) for p in customs] or None
            sv = [uwg.SchDef.from_dict(copy.deepcopy(p[1])) for p in customs] or None
            if share:
                for role in share:
                    setattr(bv[1], role, getattr(bv[0], role))
            return bv, sv

        def r_kwargs(out, name):
            bv, sv = fresh_objs()
            m = UWG.from_param_args(epw_path=epw, new_epw_dir=out, new_epw_name=name,
                                    ref_bem_vector=bv, ref_sch_vector=sv,
                                    **{n: copy.deepcopy(vals[n]) for n in kwnames})
            for n in optional:
                if vals[n] is not None:
                    setattr(m, n, vals[n])
            return m
        with quiet():
            proto = r_kwargs(work, 'proto.epw')
        dct = proto.to_dict(include_refDOE=True)
        jtext = json.dumps(dct)

        def r_dict(out, name):
            return UWG.from_dict(copy.deepcopy(dct), epw_path=epw, new_epw_dir=out, new_epw_name=name)

        def r_json(out, name):
            return UWG.from_dict(json.loads(jtext), epw_path=epw, new_epw_dir=out, new_epw_name=name)

        def r_file(out, name):
            p = os.path.join(out, 'params.uwg')
            with open(p, 'w', newline='') as f:
                f.write(uwg_text(vals, plist))
            return UWG.from_param_file(p, epw, out, name)
        routes = [('kwargs', r_kwargs), ('dict', r_dict), ('json-text', r_json)]
        if not custom:
            routes.append(('uwg-file', r_file))
        results = {}
        dicts = {}
        rectypes = {}
        for rname, build in routes:
            out = os.path.join(work, 's%d-%s' % (si, rname))
            os.makedirs(out, exist_ok=True)
            try:
                with watchdog(300), quiet():
                    m = build(out, 'out.epw')
                    dicts[rname] = m.to_dict(include_refDOE=True)
                    m.generate()
                    m.simulate()
                    m.write_epw()
                results[rname] = ('ok', open(os.path.join(out, 'out.epw'), 'rb').read(), sim_records(m))
                rectypes[rname] = sim_types(m)
            except Hang:
                results[rname] = ('hang', None, None)
            except Exception as e:                            # noqa: BLE001
                results[rname] = ('%s: %s' % (type(e).__name__, str(e)[:200]), None, None)
        # CLI routes (click runner, in process)
        runner = CliRunner()
        cli = []
        out = os.path.join(work, 's%d-cli-json' % si)
        os.makedirs(out, exist_ok=True)
        jp = os.path.join(out, 'model.json')
        with open(jp, 'w') as f:
            f.write(jtext)
        cli.append(('cli-json', ['model', jp, epw, '--new-epw-dir', out, '--new-epw-name', 'out.epw'], out))
        if not custom:
            out2 = os.path.join(work, 's%d-cli-param' % si)
            os.makedirs(out2, exist_ok=True)
            pp = os.path.join(out2, 'params.uwg')
            with open(pp, 'w', newline='') as f:
                f.write(uwg_text(vals, plist))
            cli.append(('cli-param', ['param', pp, epw, '--new-epw-dir', out2, '--new-epw-name', 'out.epw'],
                        out2))
        for rname, args, odir in cli:
            try:
                with watchdog(300):
                    res = runner.invoke(cli_simulate, args)
                op = os.path.join(odir, 'out.epw')
                if res.exit_code == 0 and os.path.exists(op):
                    results[rname] = ('ok', open(op, 'rb').read(), None)
                else:
                    results[rname] = ('exit %s' % res.exit_code, None, None)
            except Hang:
                results[rname] = ('hang', None, None)
        # the serialised parameters of every in-process route: equal as numbers (10 == 10.0); how
        # often they differ in int-vs-float representation only is reported as a measurement
        for rname, dd in dicts.items():
            if canon_num(dd) != canon_num(dicts['kwargs']):
                bad += 1
                chk.violation('impl-violation', 'routes hold the same parameter values', case=origin,
                              observed={'route': rname, 'diff': str(first_diff(
                                  json.loads(json.dumps(dd)), json.loads(json.dumps(dicts['kwargs'])), strict=False))},
                              expected='numerically equal to_dict')
            elif canon(dd) != canon(dicts['kwargs']):
                typediff[rname] = typediff.get(rname, 0) + 1
        for rname, tt in rectypes.items():
            if tt != rectypes.get('kwargs', tt):
                rectype_diff[rname] = rectype_diff.get(rname, 0) + 1
        ref = results['kwargs']
        total += len(results)
        for rname, (st, data, recs) in results.items():
            branch[rname + ('' if st == 'ok' else '/failed')] = \
                branch.get(rname + ('' if st == 'ok' else '/failed'), 0) + 1
            same = (st == 'ok') == (ref[0] == 'ok') and (st != 'ok' or data == ref[1]) and \
                (recs is None or ref[2] is None or recs == ref[2])
            if st != 'ok' and ref[0] != 'ok':
                same = st.split(':')[0] == ref[0].split(':')[0] or rname.startswith('cli')
            if not same:
                bad += 1
                if st == 'ok' and ref[0] == 'ok':
                    la, lb = data.split(b'\n'), ref[1].split(b'\n')
                    diff = next(((i, a[:160], b[:160]) for i, (a, b) in enumerate(zip(la, lb)) if a != b),
                                ('length', len(la), len(lb)))
                    obs = {'route': rname, 'first differing EPW line': str(diff),
                           'records_equal': None if recs is None else recs == ref[2]}
                else:
                    obs = {'route': rname, 'status': st, 'kwargs_status': ref[0]}
                chk.violation('impl-violation', 'routes give byte-identical output', case=origin,
                              observed=obs, expected='same EPW bytes and hourly records as the keyword route')
        if ref[0] != 'ok':
            chk.notes.append('route set %d: simulation itself failed identically on all routes (%s)' % (
                si, ref[0]))
        # int-vs-float: the file route turns every number into a float; report if that alone changes
        # the serialised dictionary (it does) or the output (it must not)
        if not custom and results.get('uwg-file', ('x',))[0] == 'ok' and ref[0] == 'ok':
            if results['uwg-file'][1] != ref[1]:
                intfloat_notes.append(origin)
    chk.direct('routes(byte-identical EPW + hourly records)', total, total,
               'the same parameter values built through from_param_args (+ overrides as attributes), '
               'from_dict(to_dict), JSON text, a generated .uwg file and the CLI (`simulate model`, '
               '`simulate param`, click runner in process), 1-day Singapore simulation: written EPW files '
               'byte-identical to the keyword route, hourly (canTemp, canHum, Tdp, canRHum, wind) equal bit for '
               'bit. Zones: file / CLI-param sets use the digit-looking names 7, 8 first (quick: one of them), '
               'then the other 16; custom sets any of the 18. Custom sets: every other one gives from_param_args '
               'two BEMDefs built around common objects (one wall / envelope / Building / mass+roof / everything '
               'used in both) - %d such set(s) in this run - while the dict, JSON and CLI routes rebuild separate '
               'objects from to_dict' % shared_sets,
               mismatches=bad, branches=branch)
    chk.measurements['route_sets'] = nsets
    chk.measurements['routes_differing_only_in_int_vs_float_representation'] = typediff
    chk.measurements['int_vs_float_changed_output_bytes'] = len(intfloat_notes)
    chk.measurements['route_sets_with_hourly_records_equal_but_of_different_python_type'] = rectype_diff
    if intfloat_notes:
        chk.notes.append('FINDING: int-vs-float representation of equal parameter values changed the '
                         'written EPW (first case: %s)' % str(intfloat_notes[0])[:1500])


def tie_zone_names(chk, uwg, xtab):
    """The file route with every one of the 18 zone names (two of them, '7' and '8', look like numbers; the
    other parameters of a .uwg file ARE numbers): same parameters as the keyword and dictionary routes, and -
    after generate() - the same selected archetypes and the same initial state."""
    import uwgutil as U
    UWG = uwg.UWG
    rng = chk.rng
    work = chk.work()
    plist, kwnames, optional = xtab['plist'], xtab['kw'], xtab['oset']
    epw = os.path.join(core.REPO, 'resources', 'SGP_Singapore.486980_IWEC.epw')
    with quiet():
        m0 = UWG.from_param_file(os.path.join(core.REPO, 'resources', 'initialize_singapore.uwg'), epw_path=epw)
    vals = {n: getattr(m0, n) for n in plist}
    vals['nday'] = 1
    deep_zones = set(ZONES18) if chk.tier != 'quick' else {'7', '8', rng.choice(ZONES18[:8]), rng.choice(ZONES18[8:16])}
    bad = n = 0
    proxy = {'1B': '1A', '5C': '5B'}
    for z in ZONES18:
        for spelled in ([z] if z.upper() == z.lower() else [z, z.lower()]):
            v = dict(vals, zone=spelled)
            case = {'zone': spelled, 'file': 'resources/initialize_singapore.uwg values, nday 1, this zone'}
            p = os.path.join(work, 'zone_%s.uwg' % spelled)
            with open(p, 'w', newline='') as f:
                f.write(uwg_text(v, plist))
            models = {}
            try:
                with quiet():
                    models['uwg-file'] = UWG.from_param_file(p, epw, work, 'zf.epw')
                    mk = UWG.from_param_args(epw_path=epw, new_epw_dir=work, new_epw_name='zk.epw',
                                             **{k: copy.deepcopy(v[k]) for k in kwnames})
                    for k in optional:
                        setattr(mk, k, v[k])
                    models['kwargs'] = mk
                    models['dict'] = UWG.from_dict(json.loads(json.dumps(mk.to_dict())), epw_path=epw,
                                                   new_epw_dir=work, new_epw_name='zd.epw')
            except Exception as e:                                # noqa: BLE001
                bad += 1
                chk.violation('impl-violation', 'file route with every zone name', case=case,
                              observed='%s: %s' % (type(e).__name__, str(e)[:200]),
                              expected='all three routes accept the zone name')
                continue
            n += 1
            ref = canon_num(models['kwargs'].to_dict())
            for rname, m in models.items():
                if m.zone != z or canon_num(m.to_dict()) != ref:
                    bad += 1
                    chk.violation('impl-violation', 'file route with every zone name', case=case,
                                  observed={'route': rname, 'zone held': m.zone, 'first difference': str(first_diff(
                                      json.loads(json.dumps(m.to_dict())),
                                      json.loads(json.dumps(models['kwargs'].to_dict())), strict=False))},
                                  expected='zone %r and the parameter values of the keyword route' % z)
            if spelled == z and z in deep_zones:
                states = {}
                for rname in ('kwargs', 'uwg-file'):
                    m = models[rname]
                    with quiet():
                        m.generate()
                    states[rname] = (U.model_state(m), [(b.bldtype, b.builtera, b.zonetype) for b in m.BEM])
                    if any(b.zonetype != proxy.get(z, z) for b in m.BEM):
                        bad += 1
                        chk.violation('impl-violation', 'archetypes selected for the zone of the file', case=case,
                                      observed={'route': rname, 'BEM': states[rname][1]},
                                      expected='archetypes of zone %s' % proxy.get(z, z))
                n += 1
                if states['kwargs'] != states['uwg-file']:
                    bad += 1
                    chk.violation('impl-violation', 'file route generates the same model as the keyword route',
                                  case=case, observed={'file route': states['uwg-file'][1]},
                                  expected={'keyword route': states['kwargs'][1],
                                            'and': 'identical digest of the generated state'})
    chk.direct('file-route(every one of the 18 zone names)', n, n,
               'the shipped Singapore parameter values written to a .uwg file with each of the 18 zone names '
               '(upper and lower case) vs from_param_args and from_dict: zone held and every parameter equal; '
               'after generate() (quick: zones 7, 8 and two others; thorough: all 18) the archetypes selected '
               'carry the requested zone label and the digest of the generated state equals the keyword route',
               mismatches=bad)


def uwg_text_layout(vals, plist, layout):
    """a .uwg file for a parameter set with the bld block laid out as `layout` says (t4_util.BLOCK_LAYOUTS)"""
    order = list(plist)
    if layout.startswith('last') or layout.startswith('first'):
        order.remove('bld')
        order = ['bld'] + order if layout.startswith('first') else order + ['bld']
    text = uwg_text(vals, order)
    if layout.startswith('rows with'):
        lines = text.split('\n')
        i = lines.index('bld,')
        for n in range(len(vals['bld'])):
            lines[i + 1 + n] += ['', ',', ', # stock', ',,'][n % 4]
        text = '\n'.join(lines)
    if layout == 'last lines, no final newline':
        text = text[:-1]
    elif layout == 'last, followed by a comment line':
        text += '# end of file\n'
    elif layout == 'last, followed by a blank line and a comment':
        text += '\n# end of file\n'
    return text


def tie_stocks(chk, uwg, xtab):
    """Every kind of building stock the `bld` setter accepts - and a few it refuses - through every construction
    route: one verdict, the fractions that were written, one generated model, one output."""
    import t4_util as T
    import uwgutil as U
    from click.testing import CliRunner
    from uwg.cli.simulate import simulate as cli_simulate
    from uwg import utilities
    UWG = uwg.UWG
    rng = chk.rng
    quick = chk.tier == 'quick'
    work = chk.work()
    types = set(utilities.REF_BLDTYPE_SET)
    plist, kwnames, optional = xtab['plist'], xtab['kw'], xtab['oset']
    epw = os.path.join(core.REPO, 'resources', 'SGP_Singapore.486980_IWEC.epw')
    with quiet():
        m0 = UWG.from_param_file(os.path.join(core.REPO, 'resources', 'initialize_singapore.uwg'), epw_path=epw)
    base = {n: getattr(m0, n) for n in plist}
    base['nday'], base['dtsim'] = 1, 300
    base['zone'] = rng.choice(ZONES18)
    d0 = m0.to_dict()
    family = T.stock_family(rng, types, quick)
    ncase = bad = 0
    branches = {}
    accepted = []

    def fail(what, case, observed, expected):
        nonlocal bad
        bad += 1
        if bad <= 3:
            chk.violation('impl-violation', what, case=case, observed=observed, expected=expected)

    for si, (label, rows, expect) in enumerate(family):
        layout = T.BLOCK_LAYOUTS[si % len(T.BLOCK_LAYOUTS)] if rows else T.BLOCK_LAYOUTS[si % 2]
        v = dict(base, bld=[tuple(r) for r in rows])
        text = uwg_text_layout(v, plist, layout)
        p = os.path.join(work, 'stock%d.uwg' % si)
        with open(p, 'w', newline='') as f:
            f.write(text)
        dd = dict(copy.deepcopy(d0), bld=[list(r) for r in rows], nday=1, dtsim=300, zone=base['zone'])

        def r_kwargs(name='sk.epw', out=work):
            m = UWG.from_param_args(epw_path=epw, new_epw_dir=out, new_epw_name=name,
                                    **{k: copy.deepcopy(v[k]) for k in kwnames})
            for k in optional:
                setattr(m, k, v[k])
            return m
        builders = [('kwargs', r_kwargs),
                    ('dict', lambda: UWG.from_dict(copy.deepcopy(dd), epw_path=epw, new_epw_dir=work,
                                                   new_epw_name='sd.epw')),
                    ('json-text', lambda: UWG.from_dict(json.loads(json.dumps(dd)), epw_path=epw, new_epw_dir=work,
                                                        new_epw_name='sj.epw')),
                    ('uwg-file', lambda: UWG.from_param_file(p, epw, work, 'sf.epw'))]
        case = {'stock': label, 'bld': [list(r) for r in rows], 'rows': len(rows), 'sum of the fractions as written':
                repr(sum(r[2] for r in rows)), 'position of the bld block in the .uwg file': layout,
                'other parameters': 'resources/initialize_singapore.uwg, nday 1, zone %s' % base['zone']}
        if len(text) < 4000:
            case['file'] = text
        models, verdict = {}, {}
        for rname, build in builders:
            try:
                with watchdog(30), quiet():
                    models[rname] = build()
                verdict[rname] = 'accepted'
            except Hang:
                verdict[rname] = 'hang'
            except Exception as e:                                # noqa: BLE001
                verdict[rname] = 'refused (%s: %s)' % (type(e).__name__, str(e)[:160])
        ncase += 1
        vs = {x.split(' ')[0] for x in verdict.values()}
        key = '%s/%s' % ('rows>16' if len(rows) > 16 else 'rows<=16', '+'.join(sorted(vs)))
        branches[key] = branches.get(key, 0) + 1
        if len(vs) > 1:
            fail('stock family: every route reaches the same verdict', case, verdict,
                 'all routes accept the stock or all refuse it')
            continue
        if expect and vs != {'accepted' if expect == 'accept' else 'refused'}:
            fail('stock family: verdict of the bld setter', case, verdict,
                 'the documented rule (fractions in [0, 1], |sum - 1| < 1e-2): %s' % expect)
            continue
        if vs != {'accepted'}:
            continue
        # the stock held is the stock written; to_dict equal over the routes
        ncase += 1
        want = canon_num([list(r) for r in rows])
        ref = canon_num(models['kwargs'].to_dict())
        for rname, m in models.items():
            held = canon_num([list(r) for r in m.bld])
            if held != want:
                got = [list(r) for r in m.bld]
                k = next((i for i, (x, y) in enumerate(zip(got, rows)) if canon_num(list(x)) != canon_num(list(y))),
                         min(len(got), len(rows)))
                fail('stock family: the stock held by the model is the stock that was written', case,
                     {'route': rname, 'rows held': len(got), 'first differing row': k,
                      'held': got[k] if k < len(got) else None}, {'written': list(rows[k]) if k < len(rows) else None})
                break
            if canon_num(m.to_dict()) != ref:
                fail('stock family: routes hold the same parameter values', case,
                     {'route': rname, 'first difference': str(first_diff(
                         json.loads(json.dumps(m.to_dict())), json.loads(json.dumps(models['kwargs'].to_dict())),
                         strict=False))}, 'numerically equal to_dict')
                break
        else:
            accepted.append((si, label, rows, v, p, dd, case, r_kwargs))
            if quick and len(accepted) % 3 != 1:
                continue
            # one generated model: archetypes, shares, floor areas, digest of the whole initial state
            ncase += 1
            states = {}
            for rname in (('kwargs', 'uwg-file') if quick else ('kwargs', 'dict', 'uwg-file')):
                try:
                    with watchdog(60), quiet():
                        models[rname].generate()
                    m = models[rname]
                    states[rname] = ([(b.bldtype, b.builtera, float(b.frac).hex(), float(b.fl_area).hex())
                                      for b in m.BEM], U.model_state(m))
                except Exception as e:                            # noqa: BLE001
                    states[rname] = ('generate() failed: %s: %s' % (type(e).__name__, str(e)[:160]), None)
            for rname, st in states.items():
                if st != states['kwargs']:
                    a, b = st[0], states['kwargs'][0]
                    if isinstance(a, list) and isinstance(b, list):
                        k = next((i for i, (x, y) in enumerate(zip(a, b)) if x != y), None)
                        obs = {'route': rname, 'archetypes': len(a), 'first differing archetype': a[k] if k is not None
                               else 'none: (type, era, frac, fl_area) all equal, digest of the generated state differs'}
                        exp = {'route': 'kwargs', 'archetypes': len(b), 'archetype': b[k] if k is not None else None}
                    else:
                        obs, exp = {'route': rname, 'result': str(a)[:300]}, {'route': 'kwargs', 'result': str(b)[:300]}
                    fail('stock family: the generated model is the same on every route', case, obs, exp)
                    break

    # one output: simulate a few members on the keyword, file and CLI routes
    def pick(pred):
        c = [x for x in accepted if pred(x)]
        return [rng.choice(c)] if c else []
    sims = pick(lambda x: 'sum 0.99' in x[1] or 'sum 1.00' in x[1] or ('rows, sum' in x[1] and len(x[2]) <= 16)) + \
        pick(lambda x: 16 < len(x[2]) <= 24) + pick(lambda x: 'zero' in x[1] or 'ulp' in x[1] or 'random' in x[1])
    if not quick:
        sims += [x for x in accepted if x not in sims and len(x[2]) <= 33][::3]
    runner = CliRunner()
    for si, label, rows, v, p, dd, case, r_kwargs in sims:
        ncase += 1
        outs = {}
        for rname in (('kwargs', 'uwg-file', 'cli-param') if quick else ('kwargs', 'uwg-file', 'cli-param', 'cli-model')):
            out = os.path.join(work, 'stock%d-%s' % (si, rname))
            os.makedirs(out, exist_ok=True)
            try:
                with watchdog(600):
                    if rname in ('kwargs', 'uwg-file'):
                        with quiet():
                            m = r_kwargs('out.epw', out) if rname == 'kwargs' else UWG.from_param_file(p, epw, out, 'out.epw')
                            m.generate()
                            m.simulate()
                            m.write_epw()
                        code = 0
                    elif rname == 'cli-param':
                        code = runner.invoke(cli_simulate, ['param', p, epw, '--new-epw-dir', out,
                                                            '--new-epw-name', 'out.epw']).exit_code
                    else:
                        jp = os.path.join(out, 'model.json')
                        with open(jp, 'w') as f:
                            json.dump(dd, f)
                        code = runner.invoke(cli_simulate, ['model', jp, epw, '--new-epw-dir', out,
                                                            '--new-epw-name', 'out.epw']).exit_code
                op = os.path.join(out, 'out.epw')
                outs[rname] = open(op, 'rb').read() if code == 0 and os.path.exists(op) else 'exit code %s' % code
            except Hang:
                outs[rname] = 'hang'
            except Exception as e:                                # noqa: BLE001
                outs[rname] = '%s: %s' % (type(e).__name__, str(e)[:160])
        branches['simulated'] = branches.get('simulated', 0) + 1
        for rname, data in outs.items():
            if data != outs['kwargs']:
                if isinstance(data, bytes) and isinstance(outs['kwargs'], bytes):
                    la, lb = data.split(b'\n'), outs['kwargs'].split(b'\n')
                    obs = {'route': rname, 'differing EPW lines': sum(1 for x, y in zip(la, lb) if x != y),
                           'first': str(next(((i, x[:120], y[:120]) for i, (x, y) in enumerate(zip(la, lb)) if x != y),
                                             None))}
                else:
                    obs = {'route': rname, 'result': data if not isinstance(data, bytes) else 'EPW written',
                           'kwargs': outs['kwargs'] if not isinstance(outs['kwargs'], bytes) else 'EPW written'}
                fail('stock family: routes give byte-identical output', case, obs,
                     'the EPW file of the keyword route, byte for byte')
                break
    chk.direct('stock-family(every bld the setter accepts, all routes)', ncase, ncase,
               'building stocks of 1 .. 48 distinct (type, era) rows (1, 2, .., 16, 17, 18, 24, 30, .., 48) and 50 / 64 rows '
               'with repeated pairs; fractions summing to one, to anything inside the setter tolerance (0.991 .. 1.009: '
               '0.6 + 0.395, 3 x 0.333, 3 x 0.335, one row of 0.991, random thousandths, also over 17+ rows), one ulp off '
               '(10 x 0.1, 3 x 1/3, normalised random floats), zero fractions, 1e-05; sums at and beyond the tolerance '
               '(0.99, 1.01, 0.98, 1.02, 0.5, 2, 0, no rows). Each through from_param_args, from_dict, JSON text and a '
               '.uwg file whose bld block is laid out in 7 ways (PARAMETER_LIST position, first, last with / without '
               'final newline, followed by comment / blank line, rows with trailing cells): one verdict on all routes '
               '(and the documented one away from the boundary); bld held == bld written, row for row; to_dict equal; '
               'after generate() (quick tier: every third accepted stock) the same archetypes, shares, floor areas and digest of the '
               'initial state; for %d '
               'members (one inside the tolerance, one of 17 .. 24 rows, one with zero / ulp fractions%s) the keyword, '
               'file, `simulate param` (thorough: and `simulate model`) routes write byte-identical EPW files'
               % (len(sims), '' if quick else ', every third of the rest'), mismatches=bad, branches=branches)


# ----------------------------------------------------------------------------- circumstances (fourth round)
def tie_circumstances(chk, uwg, kinds, xtab):
    """The six circumstances of harness/generic.py applied to C06: serialisation and construction must not depend on
    what the caller does with the dictionaries afterwards (or did before), on who looks at the model, on the logging
    level, on `python -O`, on the command line as a route, or on other models of the process."""
    import concurrent.futures
    import generic as G
    import u2_util as W
    import uwgutil as U
    import s3_util as S3
    from uwg import utilities
    UWG = uwg.UWG
    rng = chk.rng
    quick = chk.tier == 'quick'
    work = chk.work()
    types = set(utilities.REF_BLDTYPE_SET)
    epw = os.path.join(core.REPO, 'resources', 'SGP_Singapore.486980_IWEC.epw')
    classes = {'Material': uwg.Material, 'Element': uwg.Element, 'Building': uwg.Building, 'BEMDef': uwg.BEMDef,
               'SchDef': uwg.SchDef}
    nbad, n, br, shown = 0, 0, {}, {}
    known = {k_: v_ for k_, v_ in kinds.items() if v_[0] != 'unknown'}
    unknown = [k_ for k_, v_ in kinds.items() if v_[0] == 'unknown']
    with quiet():
        shipped = UWG.from_param_file(os.path.join(core.REPO, 'resources', 'initialize_singapore.uwg'), epw_path=epw)

    def bad(circ, what, case, observed, expected):
        nonlocal nbad
        nbad += 1
        shown[circ] = shown.get(circ, 0) + 1
        if shown[circ] <= 2 and nbad <= 8:
            chk.violation('impl-violation', '%s [%s]' % (what, circ), case=case, observed=observed, expected=expected)

    def count(circ, k=1):
        nonlocal n
        n += k
        br[circ] = br.get(circ, 0) + k

    def gen_dict(ncustom):
        names, bems, schs = [], [], []
        for i in range(ncustom):
            era = rng.choice(['pre80', 'pst80', 'new'])
            t = rng.choice(['custom%d' % i, rng.choice(sorted(types))])
            if (t, era) in names:
                t = 'custom%d' % i
            names.append((t, era))
            bems.append(gen_bem_dict(rng, t, era))
            schs.append(gen_sch_dict(rng, t, era))
        d = {'type': 'UWG'}
        d.update(gen_params(rng, known, types, customs=names))
        for name in unknown:
            # a parameter whose validator the translator does not recognise in this tree: values shaped like the shipped one
            v = getattr(shipped, name)
            if isinstance(v, (list, tuple)) and v and isinstance(v[0], (list, tuple)):
                pool_ = sorted({x for r in v for x in r if isinstance(x, (int, float))} | {0.5})
                d[name] = [[rng.choice(pool_) for _ in r] for r in v]
            else:
                d[name] = copy.deepcopy(v)
        if ncustom:
            d['ref_bem_vector'], d['ref_sch_vector'] = bems, schs
        return d

    def gen_valid(ncustom):
        """a generated dictionary that from_dict accepts (the generator also draws boundary values it refuses)"""
        for _ in range(60):
            d = gen_dict(ncustom)
            try:
                with quiet():
                    UWG.from_dict(copy.deepcopy(d))
                return d
            except Hang:
                raise
            except Exception:  # noqa: BLE001
                continue
        raise core.Infra('no accepted dictionary generated in 60 draws')

    def same_model(a, b):
        da, db = a.to_dict(include_refDOE=True), b.to_dict(include_refDOE=True)
        if canon(da) != canon(db):
            return 'to_dict differs: %s' % str(first_diff(json.loads(json.dumps(da)), json.loads(json.dumps(db))))
        for name in ('ref_bem_vector', 'ref_sch_vector'):
            df = first_diff(deep(getattr(a, name) or None), deep(getattr(b, name) or None))
            if df:
                return '%s%s: %r on the first object, %r on the second' % (name, df[0], df[1], df[2])
        return None

    def same_object(a, b):
        df = first_diff(deep(a), deep(b))
        return None if not df else 'attribute %s: %r on the first object, %r on the second' % (df[0] or '<root>', df[1], df[2])

    cl0 = W.class_digest()
    # ---- (6a) from_dict of every class, the SAME dictionary object used twice
    ndict = 12 if quick else 80
    for i in range(ndict):
        d = gen_valid(rng.choice([1, 2, 2, 3]))
        # optional keys of the sub-dictionaries: present / absent / null where the unchanged tree accepts all three
        for b in d['ref_bem_vector']:
            r = rng.random()
            if r < 0.25:
                del b['building']['heat_cap']
            elif r < 0.4:
                b['building']['heat_cap'] = None
        variant = rng.choice(['whole', 'whole', 'parts'])
        origin = {'dictionary': json.dumps(d)[:2500]}
        if variant == 'parts' or i % 3 == 0:
            for path, sub in W.sub_dicts(d):
                count('from_dict twice: ' + sub['type'])
                msg, verdict = W.from_dict_twice(classes[sub['type']], sub, same_object)
                if msg:
                    bad('caller-owned data', '%s.from_dict used twice on one dictionary' % sub['type'],
                        {'sub_dictionary_at': path, 'sub_dictionary': json.dumps(sub)[:1200]}, msg,
                        'the dictionary is left as it was; both uses give equal objects')
                    break
        count('from_dict twice: UWG')
        msg, verdict = W.from_dict_twice(UWG, d, same_model)
        if msg:
            bad('caller-owned data', 'UWG.from_dict used twice on one dictionary (custom reference buildings; optional keys '
                'present / absent / null)', origin, msg,
                'the dictionary is left as it was (keys, values, types); the second model equals the first: parameters, '
                'to_dict(include_refDOE) and every attribute of every custom object')
        elif verdict != 'ok':
            bad('caller-owned data', 'generated valid dictionary', origin, verdict, 'accepted')
    # hand-edited dictionaries: a number written as int / float / numeric text in any typed sub-dictionary, the optional
    # reference vectors absent / null / empty - wherever the tree accepts the spelling, the object is the same object
    nspell = 0
    unvalidated = set()
    for i in range(3 if quick else 30):
        d = gen_valid(2)
        for path, sub in W.sub_dicts(d):
            cls = classes[sub['type']]
            try:
                with quiet():
                    ref_obj = cls.from_dict(copy.deepcopy(sub))
            except Exception:  # noqa: BLE001 - (judged by the from_dict-twice family above)
                continue
            numeric = [k_ for k_, v_ in sub.items() if isinstance(v_, (int, float)) and not isinstance(v_, bool)]
            for key in (numeric if not quick else rng.sample(numeric, min(2, len(numeric)))):
                v = sub[key]
                forms = [float(v), repr(v), ' %r ' % v] + ([int(v), '%d' % v] if float(v) == int(v) else [])
                for f_ in forms:
                    if type(f_) is type(v):
                        continue
                    e = copy.deepcopy(sub)
                    e[key] = f_
                    nspell += 1
                    msg, verdict = W.from_dict_twice(cls, e, same_object)
                    count('number respelled: ' + verdict.split(' ')[0])
                    if msg is None and verdict == 'ok':
                        with quiet():
                            o = cls.from_dict(copy.deepcopy(e))
                        if isinstance(f_, str) and o.to_dict().get(key) == f_:
                            # unchanged-tree observation (recorded, not judged): an attribute without validator keeps
                            # the text it was given; the round trip is still the identity
                            unvalidated.add('%s.%s' % (sub['type'], key))
                        elif canon_num(o.to_dict()) != canon_num(ref_obj.to_dict()):
                            msg = 'accepted, but the object says %s' % str(first_diff(
                                json.loads(json.dumps(o.to_dict())), json.loads(json.dumps(ref_obj.to_dict())), strict=False))
                    if msg:
                        bad('caller-owned data', 'a number of a %s dictionary written as %s' % (sub['type'], type(f_).__name__),
                            {'sub_dictionary_at': path, 'key': key, 'value_as_generated': repr(v), 'value_as_written': repr(f_)}, msg,
                            'refused, or the same object as with the number itself; same verdict on second use')
    if unvalidated:
        chk.notes.append('unchanged-tree observation (recorded, not judged): %s has no validator - from_dict stores a numeric '
                         'TEXT such as "120" as text (and to_dict returns that text)'
                         % ', '.join(sorted(unvalidated)))
    for variant in ('absent', 'null', 'empty', 'one absent'):
        d = gen_valid(0)
        for key in ('ref_bem_vector', 'ref_sch_vector'):
            d.pop(key, None)
            if variant == 'null':
                d[key] = None
            elif variant == 'empty':
                d[key] = []
        if variant == 'one absent':
            d['ref_bem_vector'] = None
        count('optional reference vectors ' + variant)
        msg, verdict = W.from_dict_twice(UWG, d, same_model)
        if msg or verdict != 'ok':
            bad('caller-owned data', 'optional reference vectors %s' % variant, {'dictionary': json.dumps(d)[:1500]},
                msg or verdict, 'accepted twice, equal models, dictionary as it was')
    # refused dictionaries: refused again, unchanged
    good = gen_valid(2)
    refusals = [('albroad', 1.5), ('glzr', -0.1), ('zone', '9Z'), ('month', 13), ('bld', [['largeoffice', 'pst80', 0.4]]),
                ('flr_h', 0), ('type', 'uwg'), ('latfocc', -1)]
    for key, v in refusals:
        count('refused dictionary used twice')
        d = copy.deepcopy(good)
        d[key] = v
        msg, verdict = W.from_dict_twice(UWG, d, same_model)
        if msg or verdict == 'ok':
            bad('caller-owned data', 'a refused dictionary used twice', {'key': key, 'value': repr(v)},
                msg or 'accepted', 'refused both times with the same exception class, dictionary left as it was')
    for path, key, v in [(('ref_bem_vector', 0, 'building'), 'shgc', 1.5), (('ref_bem_vector', 1, 'wall'), 'albedo', -0.1),
                         (('ref_sch_vector', 0), 'q_elec', -1), (('ref_bem_vector', 0, 'roof', 'material_lst', 0), 'volheat', -3)]:
        count('refused dictionary used twice')
        d = copy.deepcopy(good)
        o = d
        for p_ in path:
            o = o[p_]
        o[key] = v
        msg, verdict = W.from_dict_twice(UWG, d, same_model)
        if msg or verdict == 'ok':
            bad('caller-owned data', 'a refused dictionary used twice', {'path': list(path) + [key], 'value': repr(v)},
                msg or 'accepted', 'refused both times with the same exception class, dictionary left as it was')
    # ---- (6b) the dictionary handed out by to_dict stays a record of the moment it was taken
    nlive = 6 if quick else 40
    for i in range(nlive):
        d0 = gen_valid(rng.choice([0, 1, 2]))
        nxt = gen_valid(2)
        with quiet():
            m = UWG.from_dict(copy.deepcopy(d0))
        d = m.to_dict(include_refDOE=True)
        text = json.dumps(d)
        snap = G.snapshot(d)
        held = {a: getattr(m, a) for a in ('schtraffic', 'bld')}
        held_snap = G.snapshot(held)
        count('to_dict, then the model goes on')
        # the next case of a parametric study: every parameter assigned another accepted value (plain assignment)
        done = []
        m.grasscover = 0
        m.treecover = 0
        m.blddensity = nxt['blddensity']
        for a in UWG.PARAMETER_LIST:
            if a in ('blddensity',):
                continue
            try:
                setattr(m, a, copy.deepcopy(nxt[a]))
                done.append(a)
            except Exception:  # noqa: BLE001 - (a stock naming customs this model does not have, ...)
                pass
            w = G.where_differs(snap, d)
            if w:
                bad('caller-owned data', 'the dictionary returned by to_dict() after the model was given other parameter values',
                    {'model_built_from': json.dumps(d0)[:1500], 'then': 'd = model.to_dict(include_refDOE=True); model.%s = %r'
                     % (a, nxt[a])}, 'd changed: %s' % w,
                    'a dictionary produced by to_dict keeps describing the parameter values at the time of the call (it '
                    'equals its own JSON text taken at the same moment)')
                break
        # ... and every custom object edited through its setters
        for vec, src in ((m.ref_bem_vector or [], nxt['ref_bem_vector']), (m.ref_sch_vector or [], nxt['ref_sch_vector'])):
            for o, sd in zip(vec, src):
                for part in (('building', 'mass', 'wall', 'roof') if sd['type'] == 'BEMDef' else ('',)):
                    tgt, vals = (getattr(o, part), sd[part]) if part else (o, sd)
                    for key, v in vals.items():
                        if key in ('type', 'bldtype', 'builtera', 'material_lst', 'layer_thickness_lst'):
                            continue
                        try:
                            setattr(tgt, key, copy.deepcopy(v))
                        except Exception:  # noqa: BLE001
                            pass
        w = G.where_differs(snap, d) or G.where_differs(held_snap, held)
        if w and not any('to_dict() after' in v_['theorem_or_tie'] for v_ in chk.violations[-1:]):
            bad('caller-owned data', 'the dictionary returned by to_dict() / the values read from the getters after the custom '
                'reference objects were edited', {'model_built_from': json.dumps(d0)[:1500]}, 'changed: %s' % w, 'unchanged')
        try:
            with quiet():
                ma, mb = UWG.from_dict(d), UWG.from_dict(json.loads(text))
            msg = same_model(ma, mb)
        except Exception as e:  # noqa: BLE001
            msg = '%s: %s' % (type(e).__name__, str(e)[:150])
        if msg:
            bad('caller-owned data', 'from_dict(d) and from_dict(JSON text of d taken at the same moment) after the live model '
                'went on', {'model_built_from': json.dumps(d0)[:1500], 'parameters_assigned_afterwards': done[:60]}, msg,
                'equal models: the dictionary route and the JSON text route are the same route')
    # recorded, not judged (unchanged tree): the other direction - the caller edits the dictionary he received
    with quiet():
        m = UWG.from_dict(copy.deepcopy(good))
    d = m.to_dict(include_refDOE=True)
    before = (m.schtraffic[0][0], len(m.bld))
    d['schtraffic'][0][0] = 0.123
    d['bld'].append(['hospital', 'new', 0.0])
    live = [x for x, hit in (('schtraffic', m.schtraffic[0][0] != before[0]), ('bld', len(m.bld) != before[1])) if hit]
    if live:
        chk.notes.append('unchanged-tree observation (recorded, not judged): to_dict() hands out the live list objects of %s '
                         '(and of the schedule matrices / layer lists of custom objects): a caller who edits the dictionary he '
                         'received edits the model. The tie demands only the other direction - later ASSIGNMENTS to the model '
                         'leave a dictionary handed out earlier as it was' % ', '.join(live))
    if W.class_digest() != cl0:
        bad('other models', 'module- and class-level data of the package', {'operations': 'from_dict / to_dict / setters above'},
            'digest changed', 'unchanged')
    # ---- live route members (simulable): kwargs-like object route -> dict, JSON text, .uwg file
    customs = [{'type': 'labtower', 'era': 'new', 'src': [3, 2, 0], 'bem': {'building.heateff': 0.7, 'building.heat_cap': 2.0},
                'sch': {'q_elec': 25.5}},
               {'type': 'largeoffice', 'era': 'pst80', 'src': [3, 1, 0], 'bem': {'wall.albedo': 0.35, 'building.heat_cap': 250.5},
                'sch': {'cool': {'const': 22.0}}}]
    toronto = os.path.join(core.REPO, 'tests', 'epw', 'CAN_ON_Toronto.716240_CWEC.epw')
    if not os.path.exists(toronto):
        toronto = epw
    members = [
        ('shipped parameters, ints and floats mixed, two overrides', None, epw,
         [['nday', 1], ['dtsim', 300], ['zone', rng.choice(['1A', '7', '3C'])], ['glzr', 0.25], ['albroof', 1], ['h_mix', 1],
          ['bldheight', 15], ['sensanth', 10.5], ['month', rng.randint(1, 12)]]),
        ('two custom reference buildings with small heating plants (heat_cap 2 and 250.5 W/m2), January in Toronto', customs, toronto,
         [['nday', 1], ['dtsim', 300], ['month', 1], ['day', 8], ['zone', '5A'],
          ['bld', [['labtower', 'new', 0.5], ['largeoffice', 'pst80', 0.3], ['midriseapartment', 'pre80', 0.2]]]]),
    ]
    jobs, info = [], []
    for k, (label, cust, rural, attrs) in enumerate(members):
        proto = W.new_from_spec(uwg, {'attrs': attrs, 'customs': cust, 'epw': rural, 'out': [os.path.join(work, 'c6p%d' % k), 'o.epw']})
        d = proto.to_dict(include_refDOE=True)
        jp = os.path.join(work, 'c6m%d.json' % k)
        with open(jp, 'w') as f:
            json.dump(d, f)
        case = {'member': label, 'parameters_changed_from_the_shipped_file': attrs, 'custom_reference_buildings': cust,
                'rural_file': os.path.basename(rural)}
        # plain reference of this process: the object route
        with quiet():
            proto.generate()
            proto.simulate()
            proto.write_epw()
        ref = {'records': W.records_of(proto), 'file': G.file_hash(proto.new_epw_path)}
        count('plain')
        # (1) + (2): the dictionary route while somebody looks; to_dict before / after every look
        count('observers + DEBUG logging')
        try:
            with G.debug_logging():
                with quiet():
                    m = UWG.from_dict(d, epw_path=rural, new_epw_dir=os.path.join(work, 'c6p%d' % k), new_epw_name='l.epw')
                t0 = W.typed_text(m.to_dict(include_refDOE=True))
                looks = []
                for stage in ('construction', 'generate', 'simulate'):
                    if stage == 'generate':
                        with quiet():
                            m.generate()
                    elif stage == 'simulate':
                        undo = G.poke_during(m)
                        try:
                            with quiet():
                                m.simulate()
                        finally:
                            undo()
                    G.poke(m)
                    if W.typed_text(m.to_dict(include_refDOE=True)) != t0:
                        looks.append(stage)
                with quiet():
                    m.write_epw()
            if looks:
                bad('observers', 'to_dict of a model before and after somebody looked at it', case,
                    'to_dict(include_refDOE=True) differs after the look that followed %s' % looks, 'identical')
            if W.records_of(m) != ref['records'] or G.file_hash(m.new_epw_path) != ref['file']:
                dd = G.first_diff(ref['records'], W.records_of(m))
                bad('observers', 'dictionary route while somebody looks (every stage, every 41st step, DEBUG logging) vs the object '
                    'route never looked at', case, 'hourly records / file differ (first differing hour %s)' % (dd and dd[0]),
                    'byte-identical weather file')
        except Hang:
            raise
        except Exception as e:  # noqa: BLE001
            bad('observers', 'dictionary route while somebody looks', case, '%s: %s' % (type(e).__name__, str(e)[:200]), 'the calls return')
        # (6) + (5): the same dictionary object used by a second model while the first lives and goes on
        count('caller-owned data / other models')
        try:
            with quiet():
                m2 = UWG.from_dict(d, epw_path=rural, new_epw_dir=os.path.join(work, 'c6p%d' % k), new_epw_name='s.epw')
                m2.generate()
                m2.simulate()
                m2.write_epw()
            if W.records_of(m2) != ref['records'] or G.file_hash(m2.new_epw_path) != ref['file']:
                cb = [(b.bldtype, b.building.heat_cap) for b in (m2.ref_bem_vector or [])]
                bad('caller-owned data', 'second model built from ONE dictionary (the first one generated, simulated, looked at)', case,
                    'its weather file differs from the first use / the object route; custom buildings (type, heat_cap) of the second '
                    'model: %s; dictionary now vs as produced: %s' % (cb, G.where_differs(json.load(open(jp)), d)),
                    'byte-identical weather file')
        except Hang:
            raise
        except Exception as e:  # noqa: BLE001
            bad('caller-owned data', 'second model built from ONE dictionary', case, '%s: %s' % (type(e).__name__, str(e)[:200]), 'the calls return')
        # (3) + (4): fresh processes - JSON route plain / -O, the command line plain / -O
        info.append((k, case, ref, jp, rural))
        for opt in (False, True):
            tag = 'j%d%s' % (k, '-O' if opt else '')
            jobs.append((tag, {'ops': [['newd', 'M', {'json': jp, 'epw': rural, 'out': [os.path.join(work, 'c6' + tag), 'o.epw']}],
                                       ['dict', 'M', 'dict'], ['gen', 'M'], ['sim', 'M'], ['write', 'M'], ['rec', 'M', 'run'],
                                       ['dict', 'M', 'dict_after']]}, opt))
    with concurrent.futures.ThreadPoolExecutor(max_workers=2) as ex:
        fut = ex.submit(W.children, jobs, work, 6)
        cli_jobs = []
        for k, case, ref, jp, rural in info:
            for opt in (False, True):
                od = os.path.join(work, 'c6cli%d%d' % (k, opt))
                os.makedirs(od, exist_ok=True)
                cli_jobs.append((k, opt, od, ['simulate', 'model', jp, rural, '--new-epw-dir', od, '--new-epw-name', 'o.epw']))
            if members[k][1] is None:                 # no custom objects: the parameter-file route can say the same
                dd = json.load(open(jp))
                od = os.path.join(work, 'c6clip%d' % k)
                os.makedirs(od, exist_ok=True)
                pp = os.path.join(od, 'params.uwg')
                with open(pp, 'w', newline='') as f:
                    f.write(uwg_text({n_: (dd[n_] if n_ != 'bld' else [tuple(r) for r in dd[n_]]) for n_ in xtab['plist']},
                                     xtab['plist']))
                cli_jobs.append((k, False, od, ['simulate', 'param', pp, rural, '--new-epw-dir', od, '--new-epw-name', 'o.epw']))
        with concurrent.futures.ThreadPoolExecutor(max_workers=4) as ex2:
            cli_out = list(ex2.map(lambda j: G.cli(j[3], optimize=j[1]), cli_jobs))
            surface = W.cli_surface_problems()
        outs = fut.result()
    for k, case, ref, jp, rural in info:
        want = W.typed_text(json.load(open(jp)))
        for opt in (False, True):
            mode = 'python -O' if opt else 'python'
            count(mode + ' (fresh process)')
            rc, doc, err = outs['j%d%s' % (k, '-O' if opt else '')]
            c2 = dict(case, interpreter=mode + ', fresh process', route='from_dict(json.load(file))')
            if doc is None or any(x != 'ok' for x in doc['log']):
                bad(mode, 'JSON route in a fresh interpreter', c2, 'rc=%s calls %s %s' % (rc, doc and doc['log'], err[-200:]), 'runs')
                continue
            if doc['obs']['dict'] != want or doc['obs']['dict_after'] != want:
                bad(mode, 'to_dict(from_dict(JSON)) in a fresh %s process' % mode, c2, 'differs from the JSON document',
                    'identity, types included - before and after generate(); simulate()')
            if doc['obs']['run']['records'] != ref['records'] or doc['obs']['run']['file'] != ref['file']:
                bad(mode, 'JSON route in a fresh %s process vs the object route' % mode, c2, 'hourly records / file differ',
                    'byte-identical weather file')
            if doc['class_level_changes']:
                bad(mode, 'module- and class-level data of the package', c2,
                    'changed at operation(s) %s' % doc['class_level_changes'][:3], 'unchanged')
    for (k, opt, od, args), (rc, so, se) in zip(cli_jobs, cli_out):
        count('command line (python %s-m uwg)' % ('-O ' if opt else ''))
        fp = os.path.join(od, 'o.epw')
        if rc != 0 or not os.path.exists(fp) or G.file_hash(fp) != info[k][2]['file']:
            bad('command line', '`python %s-m uwg simulate %s` vs the object route' % ('-O ' if opt else '', args[1]), info[k][1],
                'exit status %s, file %s' % (rc, 'differs' if os.path.exists(fp) else 'missing'),
                'exit status 0 and a byte-identical weather file')
    count('command line surface')
    for p_ in surface:
        bad('command line', 'options of the command line', {'command': '--help'}, p_,
            'the commands, arguments and options of the unchanged tree')
    chk.direct('circumstances(caller-owned dictionaries, observers, DEBUG logging, python -O, command line, other models)', n, n,
               '(6) %d generated UWG dictionaries with 1-3 custom BEMDef / SchDef pairs (optional key heat_cap present / absent / '
               'null): UWG.from_dict and the from_dict of every typed sub-dictionary (Material, Element, Building, BEMDef, SchDef) '
               'called TWICE on the same dictionary object - the dictionary is left as it was (keys, values, types), the second '
               'object equals the first attribute for attribute; hand-edited dictionaries: %d times a numeric value of a typed '
               'sub-dictionary written as float / int / numeric text / padded text - refused, or the same object as with the '
               'number, both uses alike - and the optional reference vectors absent / null / empty / one of them null; '
               '%d refused dictionaries (top-level and nested values out of '
               'range) are refused again with the same class; %d live models: d = to_dict(include_refDOE) and its JSON text '
               'taken, then EVERY parameter assigned another accepted value and every attribute of every custom object '
               're-assigned through its setter - d and the values read earlier from the getters are unchanged, from_dict(d) '
               'equals from_dict(JSON text); (1, 2) simulable members (%s): dictionary route under DEBUG logging with repr / '
               'str / ToString of every reachable object after construction, after generate(), every 41st step, after '
               'simulate(): to_dict identical after every look, weather file of the object route; (5, 6) a second model from the '
               'same dictionary object while the first lives: same file; class-level digest constant; (3) the JSON route in '
               'fresh `python` and `python -O` processes: to_dict(from_dict(JSON)) is the document (typed), same records and file; '
               '(4) real `python [-O] -m uwg simulate model` (and `simulate param` on a generated .uwg file for the member without '
               'customs): exit 0, byte-identical file; `--help` surface of the unchanged tree'
               % (ndict, nspell, len(refusals) + 4, nlive, '; '.join(m_[0] for m_ in members)), mismatches=nbad, branches=br)


# ----------------------------------------------------------------------------- entry point
# ----------------------------------------------------------------------------- tie 6: identifier texts (fifth round)
def tie_identifiers(chk, uwg):
    """The identifiers of a custom archetype are free text: `bld` refers to them as typed and `_compute_BEM` matches
    them exactly. Every custom name generated above is lower case (custom0, DOE names), for which a normalisation
    applied on ONE route only (dictionary readers lower-casing, stripping, ...) is the identity. Family
    (harness/v2_util.py): names with capitals, blanks, digits and punctuation, DOE names in another letter case (a NEW
    type on the keyword route, standing in the stock next to the DOE type of that name), non-ASCII text - built with the
    real constructors, then sent through to_dict -> from_dict, JSON text and (one member) `uwg simulate model`."""
    import uwgutil as U
    import v2_util as V
    UWG = uwg.UWG
    quick = chk.tier == 'quick'
    work = chk.work()
    epw = os.path.join(core.REPO, 'resources', 'SGP_Singapore.486980_IWEC.epw')
    eras = ('pre80', 'pst80', 'new')
    bad = n = 0
    br, counters = {}, {}

    def fail(what, case, observed, expected):
        nonlocal bad
        bad += 1
        if bad <= 4:
            chk.violation('impl-violation', what, case=case, observed=observed, expected=expected)

    def ids(m):
        return [[(x.bldtype, x.builtera) for x in (getattr(m, v) or [])] for v in ('ref_bem_vector', 'ref_sch_vector')]
    for k, name in enumerate(V.IDENTIFIER_TEXTS):
        era = eras[k % 3]
        era_text = (era, era.capitalize(), era.upper())[(k // 3) % 3]
        b, s_ = V.identifier_customs(uwg, name, era, k)
        other = name.lower() if name.lower() in V.DOE_TYPES else 'largeoffice'
        bld = [(name, era_text, 0.5), (other, 'pst80' if (other, 'pst80') != (name, era) else 'new', 0.5)]
        origin = {'custom_type_name': name, 'custom_builtera': era,
                  'built_by': 'BEMDef(building, mass, wall, roof, bldtype=%r, builtera=%r), SchDef(..., bldtype=%r, builtera=%r); '
                              'UWG.from_param_args(..., bld=%r, ref_bem_vector=[bem], ref_sch_vector=[sch])' % (
                                  name, era, name, era, bld)}
        shape = ('capitals' if name != name.lower() and name.lower() not in V.DOE_TYPES else
                 'DOE name in another case' if name != name.lower() else 'lower case') + \
            (', blanks' if ' ' in name else '') + ('' if name.isascii() else ', non-ASCII')
        br[shape] = br.get(shape, 0) + 1
        n += 1
        # (a) the two custom classes on their own
        for obj, cls in ((b, uwg.BEMDef), (s_, uwg.SchDef)):
            try:
                back = cls.from_dict(json.loads(json.dumps(obj.to_dict())))
                if (back.bldtype, back.builtera) != (obj.bldtype, obj.builtera) or first_diff(deep(obj), deep(back)):
                    fail('%s.from_dict(to_dict()) is the identity' % cls.__name__, origin,
                         'identifiers (%r, %r) came back as (%r, %r)%s' % (
                             obj.bldtype, obj.builtera, back.bldtype, back.builtera,
                             '' if (back.bldtype, back.builtera) != (obj.bldtype, obj.builtera) else
                             '; first differing attribute %s' % (first_diff(deep(obj), deep(back)),)),
                         'an equal object: the identifiers are text the stock list refers to as typed')
            except Exception as e:                                # noqa: BLE001
                fail('%s.from_dict(to_dict()) is accepted' % cls.__name__, origin, '%s: %s' % (type(e).__name__, str(e)[:200]),
                     'the object back')
        # (b) the model: to_dict / from_dict / JSON oracles on the OBJECT-route model (custom vectors attribute by attribute)
        try:
            with quiet():
                m = UWG.from_param_args(10.0, 0.5, 0.8, 0.1, 0.1, '1A', month=1, day=2, nday=1, dtsim=300,
                                        bld=list(bld), epw_path=epw, new_epw_dir=work, new_epw_name='ident_kw.epw',
                                        ref_bem_vector=[b], ref_sch_vector=[s_])
        except Exception as e:                                    # noqa: BLE001
            fail('from_param_args accepts a custom archetype named as typed', origin,
                 '%s: %s' % (type(e).__name__, str(e)[:200]), 'a model')
            continue
        if bad < 6:
            bad += roundtrip_oracle(chk, UWG, m, origin, counters)
        # (c) every route generates the same city
        d = m.to_dict(include_refDOE=True)
        outs = {}
        for route in ('keyword arguments', 'JSON text') + (() if quick else ('from_dict(to_dict)',)):
            try:
                with quiet():
                    mr = m if route == 'keyword arguments' else UWG.from_dict(
                        copy.deepcopy(d) if route == 'from_dict(to_dict)' else json.loads(json.dumps(d)),
                        epw_path=epw, new_epw_dir=work, new_epw_name='ident_%d.epw' % len(outs))
                    got_ids = ids(mr)
                    mr.generate()
                    res = ('generated', [(x.bldtype, x.builtera, x.frac) for x in mr.BEM],
                           [(x.bldtype, x.builtera) for x in mr.Sch],
                           U.fingerprint([mr.BEM, mr.Sch, mr.UCM, mr.UBL, mr.road, mr.r_glaze_total, mr.SHGC_total, mr.alb_wall_total]))
                    if k == 0 or (not quick and k < 4):
                        mr.simulate()
                        res += (sim_records(mr),)
            except Exception as e:                                # noqa: BLE001
                res = ('%s: %s' % (type(e).__name__, str(e).split('\n')[0][:200]),)
            outs[route] = (got_ids, res)
        ref_ids, ref = outs['keyword arguments']
        for route, (got_ids, res) in outs.items():
            if got_ids != ref_ids:
                fail('identifiers of the custom reference vectors on the %s route' % route, origin,
                     '(type, era) of ref_bem_vector / ref_sch_vector: %r; on the keyword route: %r' % (got_ids, ref_ids),
                     'the identifiers as typed')
            elif res[0] != ref[0]:
                fail('the model rebuilt by %s generates like the keyword-route model' % route, origin,
                     'generate() on the %s route: %s; on the keyword route: %s' % (route, res[0], ref[0]),
                     'the same outcome (the stock refers to the custom archetype by its name as typed)')
            elif res != ref:
                what = ['outcome', 'simulated archetypes (type, era, share)', 'schedule sets', 'state digest after generate()',
                        'hourly records'][next(i for i, (x, y) in enumerate(zip(res, ref)) if x != y)]
                fail('the model rebuilt by %s generates like the keyword-route model' % route, origin,
                     '%s differ: %r vs %r on the keyword route' % (what, res[1], ref[1]), 'identical')
    # one member through the command line (JSON text of the keyword-route model)
    if not quick:
        from click.testing import CliRunner
        from uwg.cli.simulate import simulate as cli_simulate
        name = V.IDENTIFIER_TEXTS[0]
        b, s_ = V.identifier_customs(uwg, name, 'new', 0)
        with quiet():
            m = UWG.from_param_args(10.0, 0.5, 0.8, 0.1, 0.1, '1A', month=1, day=2, nday=1, dtsim=300,
                                    bld=[(name, 'new', 0.5), ('largeoffice', 'pst80', 0.5)], epw_path=epw, new_epw_dir=work,
                                    new_epw_name='ident_lib.epw', ref_bem_vector=[b], ref_sch_vector=[s_])
            jp = os.path.join(work, 'ident_model.json')
            with open(jp, 'w') as f:
                json.dump(m.to_dict(include_refDOE=True), f)
            m.generate()
            m.simulate()
            m.write_epw()
        res = CliRunner().invoke(cli_simulate, ['model', jp, epw, '--new-epw-dir', work, '--new-epw-name', 'ident_cli.epw'])
        n += 1
        op = os.path.join(work, 'ident_cli.epw')
        if res.exit_code != 0 or not os.path.exists(op) or open(op, 'rb').read() != open(os.path.join(work, 'ident_lib.epw'), 'rb').read():
            fail('`uwg simulate model` on the JSON text of a model with a custom archetype named %r' % name,
                 {'custom_type_name': name}, 'exit status %s, file %s' % (res.exit_code, 'differs / missing'),
                 'exit status 0 and the file of the keyword-route model')
    chk.direct('identifier-texts(custom type names as typed, every route)', n, n,
               'custom archetypes built with the REAL constructors (keyword route) and named %s - capitals, blanks, digits '
               'and punctuation, a DOE name in another letter case (a new type on the keyword route; the stock holds it '
               'NEXT TO the DOE type of that name), non-ASCII text, a lower-case control - referred to by that text in `bld` '
               '(era text of the row in any case): BEMDef.from_dict(to_dict()) and SchDef.from_dict(to_dict()) are the '
               'identity on identifiers and on every attribute; to_dict / from_dict / JSON oracles of the model incl. the custom '
               'vectors attribute by attribute; the models rebuilt from JSON text (thorough tier: also from_dict(to_dict) without the text) carry the '
               'identifiers as typed and generate() the same city as the keyword-route model (same outcome, archetypes, '
               'shares, schedule sets, deep digest of BEM / Sch / UCM / UBL / road and the stock averages; hourly records of a 1-day run for %s)' % (
                   ', '.join(repr(t) for t in V.IDENTIFIER_TEXTS), 'the first member' if quick else 'four members + the command line'),
               mismatches=bad, branches=br)


def tie_sixth_round(chk, uwg):
    """Sixth round (families in harness/w2_util.py): (a) layouts of COMMENT lines the rewrites above never emitted - blanks
    other than U+0020 before the `#`, a byte-order mark, text before the `#` in the first cell; (b) the round trip
    to_dict -> from_dict judged by SIMULATING both models, for custom archetypes of every provenance (constructed, rebuilt
    from dictionaries, deep copies of un-pickled library cells, pickled), with overrides, inside the vegetation season."""
    import w2_util as W
    n, bad, br = W.comment_layouts(chk, uwg, lambda m: {a: repr(getattr(m, a)) for a in uwg.UWG.PARAMETER_LIST})
    chk.direct('comment-line-layouts(tab / no-break space / form feed / byte-order mark before the #)', n, n, W.COMMENT_RULE,
               mismatches=bad, branches=br)
    n, bad, br = W.provenance_round_trips(chk, uwg)
    chk.direct('round-trip-simulates-identically(custom archetypes of every provenance, overrides, vegetation season)', n, n,
               W.ROUND_TRIP_RULE, mismatches=bad, branches=br)


def tie_seventh_round(chk, uwg):
    """Seventh round (families in harness/x2_util.py): (a) COMMENT TEXT holding characters the csv layer gives a meaning to
    (quotes after blanks / in the middle / at the end of a cell, closed and doubled quotes, commas); (b) the value ZERO on
    the dictionary route: every numeric leaf of the dictionaries of a custom archetype and its schedule set at 0 and 0.0."""
    import v2_util as V
    import x2_util as X
    UWG = uwg.UWG
    quick = chk.tier == 'quick'
    n, bad, br = X.quoted_comments(chk, uwg, lambda m: {a: repr(getattr(m, a)) for a in UWG.PARAMETER_LIST})
    chk.direct('comment-text(double quotes after blanks / inside / at the end of cells, doubled quotes, commas)', n, n, X.QUOTE_RULE,
               mismatches=bad, branches=br)
    # (b) zero
    work = chk.work()
    epw = os.path.join(core.REPO, 'resources', 'SGP_Singapore.486980_IWEC.epw')
    b, s_ = V.constructed_archetype(uwg, 'unheatedshed', 'new', k=1)
    n = bad = 0
    br = {}

    def fail(what, case, observed, expected):
        nonlocal bad
        bad += 1
        if bad <= 3:
            chk.violation('impl-violation', what, case=case, observed=observed, expected=expected)
    accepted_building = []
    for cls, obj in ((uwg.BEMDef, b), (uwg.SchDef, s_)):
        tpl = json.loads(json.dumps(obj.to_dict()))
        for path in X.numeric_leaves(tpl):
            for z in (0, 0.0):
                n += 1
                d0 = X.with_leaf(tpl, path, z)
                case = {'dictionary': '%s.to_dict() of a custom archetype built with the real constructors' % cls.__name__,
                        'entry set to zero': '%s = %r (was %r)' % (X.path_text(path), z, X.get_path(tpl, path))}
                try:
                    back = cls.from_dict(copy.deepcopy(d0))
                except Exception:                                  # noqa: BLE001 - zero is not in the domain of this entry
                    br['refused'] = br.get('refused', 0) + 1
                    continue
                key = 'accepted:' + ('.'.join(str(p) for p in path if not isinstance(p, int)))
                br[key] = br.get(key, 0) + 1
                try:
                    d1 = back.to_dict()
                    got = X.get_path(d1, path)
                except Exception as e:                            # noqa: BLE001
                    fail('to_dict of an object accepted by from_dict', case, '%s: %s' % (type(e).__name__, str(e)[:160]), 'the dictionary')
                    continue
                if got != z or json.dumps(d1, sort_keys=True) != json.dumps(json.loads(json.dumps(d0)), sort_keys=True) and first_diff(d0, d1, strict=False):
                    fail('%s.from_dict -> to_dict is the identity on every accepted dictionary (entries typed as zero)' % cls.__name__,
                         case, 'the entry comes back as %r%s' % (got, '' if got != z else '; first difference: %s' % (first_diff(d0, d1, strict=False),)),
                         'the entry as typed: %r' % (z,))
                elif cls is uwg.BEMDef and path[0] == 'building' and z == 0 and isinstance(z, int):
                    accepted_building.append(path)
    # the model route for the building entries the constructor accepts at zero
    with quiet():
        m = UWG.from_param_args(10.0, 0.5, 0.8, 0.1, 0.1, '1A', month=1, day=2, nday=1, dtsim=300,
                                bld=[('unheatedshed', 'new', 0.4), ('largeoffice', 'pst80', 0.6)], epw_path=epw, new_epw_dir=work,
                                new_epw_name='x2_zero.epw', ref_bem_vector=[b], ref_sch_vector=[s_])
        dm = json.loads(json.dumps(m.to_dict(include_refDOE=True)))
    pick = accepted_building if not quick else accepted_building[:0] + chk.rng.sample(accepted_building, min(3, len(accepted_building)))
    pick = sorted(set(pick) | set(p for p in accepted_building if 'cap' in str(p[-1])))     # capacities: 0 = "no plant"
    for path in pick:
        n += 1
        br['model route'] = br.get('model route', 0) + 1
        full = ('ref_bem_vector', 0) + path
        d0 = X.with_leaf(dm, full, 0)
        case = {'dictionary': 'UWG.to_dict(include_refDOE=True) of a model with a custom archetype (real constructors)',
                'entry set to zero': '%s = 0 (was %r)' % (X.path_text(full), X.get_path(dm, full))}
        try:
            with quiet():
                m2 = UWG.from_dict(copy.deepcopy(d0), epw_path=epw, new_epw_dir=work, new_epw_name='x2_zero2.epw')
                d1 = m2.to_dict(include_refDOE=True)
                got = X.get_path(d1, full)
                live = []
                try:
                    m2.generate()
                    live = [getattr(x.building, path[-1], None) for x in m2.BEM if x.bldtype == 'unheatedshed']
                except Exception:                                 # noqa: BLE001 - whether zero can be GENERATED is not this tie's subject
                    br['generate() refuses the zero'] = br.get('generate() refuses the zero', 0) + 1
        except Exception as e:                                    # noqa: BLE001
            fail('UWG.from_dict of a dictionary whose custom building dictionary is accepted by BEMDef.from_dict', case,
                 '%s: %s' % (type(e).__name__, str(e).split('\n')[0][:160]), 'a model')
            continue
        if got != 0 or (live and live[0] is not None and live[0] != 0):
            fail('UWG.from_dict -> to_dict is the identity on entries typed as zero', case,
                 'the entry comes back as %r; the simulated archetype carries %s = %r' % (got, path[-1], live and live[0]), '0 on both')
    chk.direct('zero-on-the-dictionary-route(every numeric entry of BEMDef / SchDef dictionaries at 0 and 0.0)', n, n,
               'the dictionaries of a custom archetype and of its schedule set (real constructors, to_dict): EVERY numeric entry '
               '(building, mass / wall / roof elements and their materials - first and last layer -, schedule sets - first and last '
               'cell -, loads) set to 0 and to 0.0, one at a time: from_dict refuses it (zero outside the domain of the entry) or '
               'from_dict -> to_dict gives the dictionary back with the entry as typed (0 is a value, not "absent": heat_cap 0 = no '
               'heating plant, coolcap 0 = no cooling); building entries accepted at zero (quick: the capacities and three others) '
               'also inside UWG.to_dict(include_refDOE=True) -> UWG.from_dict -> to_dict and on the archetype simulated after generate()',
               mismatches=bad, branches=br)


def run(chk):
    sys.path.insert(0, os.path.join(core.VERIF, 'harness'))
    from extract import paramtable
    path, changed = paramtable.regenerate(core.REPO, core.LEAN_DIR)
    xtab = paramtable.extract(core.REPO)
    chk.measurements['param_table'] = {'regenerated_from': os.path.join(core.REPO, 'uwg', 'uwg.py'),
                                       'changed_since_last_run': changed,
                                       'parameters': len(xtab['plist']),
                                       'unknown_kinds': [p for p, k in xtab['kinds'] if k == '.unknown']}
    chk.proof(MODULE, THEOREMS)
    if chk.tier == 'thorough':
        chk.leanchecker([MODULE])
    core.repo_python_path()
    import uwg
    kinds = parse_kinds(xtab)
    tie_reader(chk, uwg)
    if all(k[0] != 'unknown' for k in kinds.values()):
        tie_dict(chk, uwg, kinds, xtab)
        tie_routes(chk, uwg, kinds, xtab)
        tie_zone_names(chk, uwg, xtab)
        tie_stocks(chk, uwg, xtab)
        tie_identifiers(chk, uwg)
        tie_sixth_round(chk, uwg)
        tie_seventh_round(chk, uwg)
    else:
        chk.notes.append('generators for the dictionary/route ties need a fully recognised table; skipped')
        # the search for a failing input goes on without the model: the shipped parameter values with the three cover
        # fractions at the exact-sum boundary, through the keyword route, the dictionary route and the round trip
        try:
            with quiet():
                base = uwg.UWG.from_param_file(os.path.join(core.REPO, 'resources', 'initialize_singapore.uwg'),
                                               epw_path=os.path.join(core.REPO, 'resources', 'SGP_Singapore.486980_IWEC.epw'))
                plain0 = base.to_dict()
            kw0 = [n for n in xtab['kw'] if n in plain0]
            cover_boundary_probe(chk, uwg.UWG, plain0, kw0)
        except Exception as e:  # noqa: BLE001
            chk.notes.append('cover-sum probe without the model could not run: %s %s' % (type(e).__name__, str(e)[:120]))
    tie_circumstances(chk, uwg, kinds, xtab)
    chk.assumptions += [
        'csv/open layer (line endings, quoting) is exercised by the generators, not by the theorems: the '
        'Lean reader starts from the rows utilities.read_csv returned',
        'numbers are compared as the exact decimal of their shortest repr; tokens have <= 15 significant '
        'digits; non-finite tokens (inf, nan), digit strings given to integer parameters and non-ASCII '
        'text are outside the model',
        'caveats reported, not violations: a key followed by a tab and a line of spaces only are rejected '
        '(fail-stop); tabs around a value are accepted by float()',
    ]
