"""Composition E - `_compute_input` (and what generate() does around it) as ONE Lean function.

Model lean/UwgVerif/Model/Generate.lean (`generateFull` / `generateState` / `generateFile` / `uwgMain`), theorems
lean/UwgVerif/Props/Generate.lean, driver Drv/Generate.lean. Called from props/c17.py (`run_generate(chk)`), whose
`chk.proof` audits the theorems listed here through `extra_modules`.

Tie (exact): the REAL `generate()` of the fractionised package (`fracexec.load()`: exact Fractions, libm = shared
rational stubs) on a small synthetic rural EPW file (generated LOCATION line of either hemisphere, ground line of
0..6 depths, cells in every spelling float() reads) with
  * EVERY scalar parameter set through its setter to a generated value of its legal range (incl. the rarely used
    h_mix, h_ubl1, h_ubl2, h_ref, h_temp, h_wind, h_obs, c_circ, c_exch, maxday, maxnight, windmin, charlength,
    albveg, latgrss, lattree, sensanth, vegstart, vegend, rurvegcover, the cover fractions, albroad, droad, kroad,
    croad, latanth, autosize) and steered to the boundaries (0, 1, the 5 cm grid of the pavement, heights that hit a
    level of the rural column exactly or within 1e-10, Python's round-half-even of charlength / 250);
  * a `z_meso` file of 0..7 levels (also non-monotone);
  * a small synthetic reference library (2 types x 3 eras, Fractions) injected through `UWG.load_refDOE`, so that the
    REAL `_customize_reference_data`-free `_compute_BEM` selects 1-3 small buildings (overrides applied);
the stock is serialised at the entry of the real `_compute_input`; after `generate()` the COMPLETE configuration and
state (serialisation of props/step.py: every attribute a pass reads or assigns) plus the extras (all 36 fields of
geoParam, the clock constants, the padded road, `_soilindex1/2`, `nz0/nz10/nzi`, `facAbsor`, `roadAbsor`, `ublWind`,
`bldWidth`, `canWidth`, the USM roughness, `int(charLength)//int(paralLength)`) are compared with `generateFile` -
or the exception class AND the stage (innermost uwg frame of the traceback).
A second tie runs `RSMDef.__init__` alone (the constructor that had no model) on generated grids, heights and
station values, incl. the shipped `z_meso.txt`. A third tie closes the pipeline: the REAL generate(); simulate() [first
hour]; write_epw() on the city generate() itself builds (no shrinking, NO configuration or state handed to Lean) vs
`Gen.uwgHours` (= `uwgMain` at one record slot): the written file byte for byte.

Oracles on the implementation's own results (what turns a broken tie into a concrete failing input): windMin handed
on unscaled; season months handed on whatever the latitude; canyon wall albedo / facade absorptivity = weighted means
of the selected buildings after the overrides; `_soilindex1` = first stated depth at or below the column and the padded
column reaches it; each level index of the rural column = first level at or above its height; lowest level at the
sensor temperature and pressure; site = cells 6..8 of line 1; initial canyon / boundary-layer state = first window
row; autosize; a second generate() on the same object and a twin with other values of the parameters that are dead at
this stage give the same state (C17); float-level: real `RSMDef(...)` of the plain package on the shipped grid -
pressure strictly decreasing, densities positive, levels as specified.
"""
import collections
import os
import time
import traceback
from fractions import Fraction as F

import core
from fracexec import frac_str, frac_list
from props import step as ST
from props import pipeline as PL

MODULE = 'UwgVerif.Props.Generate'
THEOREMS = [
    'Uwg.Gen.generate_pipeline', 'Uwg.Gen.uwgMain_stages', 'Uwg.Gen.uwgMain_no_spurious_stage',
    'Uwg.Gen.uwgMain_preserves', 'Uwg.Gen.uwgMain_causal', 'Uwg.Gen.uwgMain_fail_stop', 'Uwg.Gen.uwgMain_row_stamp',
    'Uwg.Gen.uwgMain_wind', 'Uwg.Gen.uwgMain_moisture', 'Uwg.Gen.uwgMain_site_cells', 'Uwg.Gen.uwgMain_ground_cells',
    'Uwg.Gen.uwgMain_unmodelled_irrelevant', 'Uwg.Gen.generate_history_free', 'Uwg.Gen.generate_dead_params',
    'Uwg.Gen.generate_cfg_record_free', 'Uwg.Gen.generate_site_from_header', 'Uwg.Gen.generate_windmin_handed_on',
    'Uwg.Gen.generate_season_handed_on', 'Uwg.Gen.generate_rsm_grid', 'Uwg.Gen.generate_rsm_levels',
    'Uwg.Gen.generate_rsm_profiles', 'Uwg.Gen.generate_canyon_averages', 'Uwg.Gen.generate_column_index',
    'Uwg.Gen.generate_initial_state', 'Uwg.Gen.generate_autosize', 'Uwg.Gen.generate_fail_stop_order',
    'Uwg.Gen.level_spec', 'Uwg.Gen.uwgMainLib_stock', 'Uwg.Gen.uwgMain_eq_hours',
]

GEO = ['dayBLHeight', 'nightBLHeight', 'refHeight', 'tempHeight', 'windHeight', 'circCoeff', 'dayThreshold',
       'nightThreshold', 'treeFLat', 'grassFLat', 'vegAlbedo', 'nightSetStart', 'nightSetEnd', 'windMin', 'wgmax',
       'exCoeff', 'maxdx', 'g', 'cp', 'vk', 'r', 'rv', 'lv', 'pi', 'sigma', 'waterDens', 'lvtt', 'tt', 'estt', 'cl',
       'cpv', 'b', 'cm', 'colburn']
GP = ['dtweather', 'sensocc', 'latfocc', 'radfocc', 'radfequip', 'radflight', 'h_ubl1', 'h_ubl2', 'h_ref', 'h_temp',
      'h_wind', 'c_circ', 'c_exch', 'maxday', 'maxnight', 'windmin', 'h_obs']
GQ = ['bldheight', 'h_mix', 'blddensity', 'vertohor', 'charlength', 'albroad', 'droad', 'sensanth', 'grasscover',
      'treecover', 'albveg', 'rurvegcover', 'latgrss', 'lattree', 'kroad', 'croad']
GPN = ['month', 'day', 'nday', 'dtsim', 'vegstart', 'vegend']
# parameters no statement of _compute_input / simulate hands on to the configuration or the state
DEAD = ['radfocc', 'maxnight', 'h_temp']
TYPES = ['largeoffice', 'midriseapartment']
ERAS = ['pre80', 'pst80', 'new']
ZONES = ['1A', '1B', '2A', '2B', '3A', '3B-CA', '3B', '3C', '4A', '4B', '4C', '5A', '5B', '5C', '6A', '6B', '7', '8']
K0 = F('273.15')
rq = ST.rq


def onat(x):
    return 'none' if x is None else str(int(x))


# ----------------------------------------------------------------------------- serialisation
def ser_sched(i, s):
    return ' '.join(['sch%ds=%s' % (i, frac_list([getattr(s, a) for a in ST.SCH_S]))] +
                    ['sch%d%s=%s' % (i, a, ST.table(getattr(s, a))) for a in ST.SCH_T])


def ser_stock(m):
    parts = ['tot=' + frac_list([m.r_glaze_total, m.SHGC_total, m.alb_wall_total]), 'nb=%d' % len(m.BEM)]
    parts += [ST.ser_bld(i, b) for i, b in enumerate(m.BEM)]
    parts += ['nsch=%d' % len(m.Sch)] + [ser_sched(i, s) for i, s in enumerate(m.Sch)]
    return ' '.join(parts)


def night_count(m):
    try:
        return int(m.UBL.charLength) // int(m.UBL.paralLength)
    except ZeroDivisionError:
        return None


def ser_extra(m):
    p, st, u = m.geoParam, m.simTime, m.UCM
    return ' '.join([
        'geo=' + frac_list([getattr(p, a) for a in GEO]), 'geoVeg=[%d;%d]' % (p.vegStart, p.vegEnd),
        'simt=[%d;%d;%d;%d]' % (st.julian, st.nt, st.timeInitial, st.timeFinal),
        ST.ser_elem('xroad', m.road),
        'soil1=' + onat(m._soilindex1), 'soil2=' + onat(getattr(m, '_soilindex2', None)),
        'nz0=' + onat(m.RSM.nz0), 'nz10=' + onat(m.RSM.nz10), 'nzi=' + onat(m.RSM.nzi),
        'ucmx=' + frac_list([u.facAbsor, u.roadAbsor, u.ublWind, u.bldWidth, u.canWidth]),
        'usm=' + frac_list([m.USM.z0r, m.USM.disp]), 'nightCount=' + onat(night_count(m))])


def ser_params(sp):
    return ' '.join(['gp=' + frac_list([sp[a] for a in GP]), 'gq=' + frac_list([sp[a] for a in GQ]),
                     'gpn=[' + ';'.join(str(int(sp[a])) for a in GPN) + ';%d]' % (1 if sp['autosize'] else 0),
                     'latanth=' + ST.opt(sp['latanth']), 'traffic=' + ST.table(sp['schtraffic']),
                     'zm=' + frac_list(sp['zm'])])


# ----------------------------------------------------------------------------- exceptions
def cls_of(e):
    if isinstance(e, ZeroDivisionError):
        return 'zerodiv'
    if isinstance(e, IndexError):
        return 'index'
    if isinstance(e, ValueError):
        return 'value'
    if isinstance(e, AssertionError):
        return 'assert'
    if isinstance(e, TypeError):
        return 'type'
    if type(e) is Exception and 'TIMESTEP' in str(e):
        return 'timestep'
    if type(e) is Exception and 'deeper than the deepest ground temperature depth' in str(e):
        return 'refused'
    return None


def stage_of(e):
    """`err <stage>` of an exception of generate(): class + innermost uwg frame, as Drv/Generate.lean names them."""
    names = [(os.path.basename(fr.filename), fr.name) for fr in traceback.extract_tb(e.__traceback__)
             if os.sep + 'uwg' + os.sep in fr.filename]
    files, funcs = [a for a, _ in names], [b for _, b in names]
    cls = cls_of(e)
    if cls is None:
        raise e
    if '_read_epw' in funcs and cls in ('index', 'value'):
        return 'err header-' + cls
    if '_compute_input' not in funcs:
        raise e
    if 'weather.py' in files:
        return 'err weather-' + cls
    for f, st in (('simparam.py', 'simparam'), ('UBLDef.py', 'ubl'), ('material.py', 'material'),
                  ('element.py', 'element'), ('RSMDef.py', 'rsm'), ('UCMDef.py', 'ucm')):
        if f in files:
            return 'err %s@%s' % (cls, st)
    if '_procmat' in funcs:
        return 'err %s@procmat' % cls
    return 'err %s@input' % cls


# ----------------------------------------------------------------------------- generators
def gen_zm(rng, kind):
    if kind == 'std':
        return rng.choice([[0, 10, 40, 100, 220], [0, 4, 20, 60, 130, 200], [0, 20, 120, 300], [0, 4, 8, 16, 32, 64, 128, 400],
                           [0, 20, 120, 200], [2, 30, 90, 250, 600, 1500]])
    if kind == 'short':
        return rng.choice([[], [0], [0, 400], [0, 30]])
    if kind == 'nonmono':
        return rng.choice([[0, 10, 0, 10, 300], [0, 40, 20, 60, 20, 400], [0, 100, 100, 100, 500]])
    if kind == 'decimal':
        return [F(x) for x in ['0', '4', '8.4', '13.24', '18.564', '24.4204', '30.86244', '37.948684', '45.7435524',
                               '54.31790764', '63.7496984', '74.12466824', '85.53713507', '98.09084858',
                               '111.8999334', '127.0899268', '143.7989195', '162.1788114']]
    raise ValueError(kind)


def mids(zm):
    return [(F(zm[i]) + F(zm[i + 1])) / 2 for i in range(len(zm) - 1)]


def gen_height(rng, z, lo, hi):
    """a height for the level search: random, exactly a level, within 1e-10 of a level, above every level"""
    k = rng.random()
    if z and k < 0.2:
        return rng.choice(z)
    if z and k < 0.3:
        return rng.choice(z) + rng.choice([F(1, 10 ** 11), -F(1, 10 ** 11), F(1, 10 ** 10), -F(1, 10 ** 10),
                                           F(2, 10 ** 10)])
    if k < 0.36:
        return F(0)
    return rq(rng, lo, hi, rng.choice([1, 2, 10]))


def gen_params(rng, i):
    sp = {}
    sp['month'] = rng.choice([1, 1, 1, 1, 2, 3])
    sp['day'] = rng.randint(1, 28)
    sp['nday'] = rng.choice([1, 1, 1, 2, 3])
    sp['dtsim'] = rng.choice([300, 300, 60, 600, 900, 3600, 1, 1800, 120, 450])
    sp['dtweather'] = F(3600)
    sp['autosize'] = rng.random() < 0.4
    sp['sensocc'] = rq(rng, 0, 150, 2)
    for a in ('latfocc', 'radfocc', 'radfequip', 'radflight', 'h_mix', 'albroad', 'albveg', 'rurvegcover', 'latgrss',
              'lattree'):
        sp[a] = rng.choice([F(0), F(1), rq(rng, 0, 1, 20), rq(rng, 0, 1, 100), rq(rng, 0, 1, 100)])
    sp['zm_kind'] = 'std'
    sp['zm'] = [F(x) for x in gen_zm(rng, rng.choice(['std', 'std', 'std', 'decimal']))]
    z = mids(sp['zm'])
    sp['h_ubl1'] = gen_height(rng, z, 100, 1500)
    sp['h_ubl2'] = gen_height(rng, z, 10, 120)
    sp['h_ref'] = gen_height(rng, z, 20, 160)
    sp['h_temp'] = gen_height(rng, z, 0, 20)
    sp['h_wind'] = gen_height(rng, z, 0, 30)
    sp['c_circ'] = rq(rng, 0, 3, 10)
    sp['c_exch'] = rq(rng, 0, 3, 10)
    sp['maxday'] = rq(rng, 0, 300, 2)
    sp['maxnight'] = rq(rng, 0, 100, 2)
    sp['windmin'] = rng.choice([F(0), F(1), rq(rng, 0, 6, 10), rq(rng, 0, 6, 10)])
    sp['h_obs'] = rng.choice([F(0), rq(rng, 0, 4, 10), rq(rng, 0, 1, 100)])
    sp['bldheight'] = rng.choice([rq(rng, 3, 60, 2), rq(rng, 3, 60, 2), F(10)])
    sp['blddensity'] = rng.choice([rq(rng, 0.05, 0.9, 100), rq(rng, 0.05, 0.9, 20), F(1, 4), F(9, 16)])
    sp['vertohor'] = rng.choice([rq(rng, 0.1, 3, 10), rq(rng, 0.05, 6, 100), F(1, 5), F(3, 5), F(4), F(4, 5)])
    sp['charlength'] = rng.choice([F(1000), F(250), F(375), F(625), F(875), F(124), F(1), rq(rng, 1, 3000, 1),
                                   rq(rng, 1, 3000, 4), F(1125), F(62499, 100), F(2, 5)])
    sp['droad'] = rng.choice([F('0.5'), F('0.35'), F('0.05'), F('1.0'), F('0.2'), F('0.12'), F('0.04'), F('0.015'),
                              F('0.005'), F('0.051'), rq(rng, 0.01, 1.5, 100), rq(rng, 0.01, 3, 1000)])
    sp['sensanth'] = rq(rng, 0, 60, 2)
    sp['latanth'] = rng.choice([None, None, rq(rng, 0, 20, 2)])
    free = 1 - sp['blddensity']
    sp['grasscover'] = rng.choice([F(0), free * F(rng.randint(0, 10), 20), free * F(rng.randint(0, 10), 20)])
    sp['treecover'] = rng.choice([F(0), free - sp['grasscover'], (free - sp['grasscover']) * F(rng.randint(0, 10), 10)])
    sp['vegstart'] = rng.randint(1, 12)
    sp['vegend'] = rng.randint(1, 12)
    sp['schtraffic'] = [[rq(rng, 0, 1, 10) for _ in range(24)] for _ in range(3)]
    sp['kroad'] = rq(rng, 0.1, 3, 10)
    sp['croad'] = F(rng.randint(5, 30)) * 100000
    # the file
    sp['nrec'] = [3, 4, 5, 2, 3, 1, 6, 0, 4, 3][i % 10]
    sp['hot'] = i % 2 == 0
    sp['sun'] = i % 3 != 1
    sp['days'] = sp['nday']
    sp['edge'] = None
    sp['kind'] = 'ok'
    # the stock
    sp['zone'] = rng.choice(ZONES)
    n = rng.choice([1, 2, 2, 3])
    keys = rng.sample([(t, e) for t in TYPES for e in ERAS], n)
    fr = [rng.randint(1, 9) for _ in keys]
    sp['bld'] = [(t, rng.choice([e, e.upper(), e.capitalize()]), F(x, sum(fr))) for (t, e), x in zip(keys, fr)]
    if rng.random() < 0.25 and n >= 2:
        # two rows naming the same type and era are added together
        t, e, f = sp['bld'][0]
        sp['bld'] = [(t, e, f / 2)] + sp['bld'][1:] + [(t, e.lower(), f / 2)]
    sp['ov'] = {}
    for a in ('glzr', 'albroof', 'vegroof', 'shgc', 'albwall'):
        if rng.random() < 0.25:
            sp['ov'][a] = rng.choice([F(0), F(1), rq(rng, 0, 1, 20)])
    if rng.random() < 0.25:
        sp['ov']['flr_h'] = rq(rng, 2.5, 5, 10)
    sp['lib_seed'] = rng.getrandbits(32)
    return sp


EDGES = ['charlength-0', 'blddensity-1', 'vertohor-0', 'kroad-0', 'croad-0', 'droad-0', 'refused', 'href-above',
         'hnight-above', 'zm-short', 'zm-nonmono', 'dt-0', 'dt-7', 'dtweather-0', 'dtweather-1800', 'text-wind0',
         'text-wind0+vertohor-0', 'text-wind1', 'hdr-short-loc', 'hdr-bad-ground', 'wx-text', 'wx-empty-window',
         'bldheight-0', 'south', 'veg-over-1', 'tiny-char', 'hobs-0', 'all-none-levels', 'deep-first',
         'refused+vertohor-0', 'href-above+kroad-0', 'blddensity-1+kroad-0', 'charlength-0+kroad-0']


def apply_param_edge(rng, sp, e):
    z = mids(sp['zm'])
    top = max(z) if z else F(0)
    for part in e.split('+'):
        if part == 'charlength-0':
            sp['charlength'] = F(0)
        elif part == 'blddensity-1':
            sp['blddensity'], sp['grasscover'], sp['treecover'] = F(1), F(0), F(0)
        elif part == 'vertohor-0':
            sp['vertohor'] = F(0)
        elif part == 'kroad-0':
            sp['kroad'] = F(0)
        elif part == 'croad-0':
            sp['croad'] = F(0)
        elif part == 'droad-0':
            sp['droad'] = F(0)
        elif part == 'refused':
            sp['droad'], sp['nrec'] = F(rng.choice([13, 20])), rng.choice([3, 4, 6])
        elif part == 'deep-first':
            sp['deep_first'], sp['nrec'] = True, 4
        elif part == 'href-above':
            sp['h_ref'] = top + rng.choice([F(1), F(1, 10 ** 9), F(500)])
        elif part == 'hnight-above':
            sp['h_ubl2'] = top + rng.choice([F(1), F(300)])
            sp['h_ref'] = min(sp['h_ref'], top)
        elif part == 'all-none-levels':
            sp['h_ubl1'] = sp['h_temp'] = sp['h_wind'] = top + 5
            sp['h_ref'], sp['h_ubl2'] = min(sp['h_ref'], top), min(sp['h_ubl2'], top)
        elif part == 'zm-short':
            sp['zm'] = [F(x) for x in gen_zm(rng, 'short')]
        elif part == 'zm-nonmono':
            sp['zm'] = [F(x) for x in gen_zm(rng, 'nonmono')]
            sp['h_ref'] = F(rng.choice([150, 200, 45]))
        elif part == 'dt-0':
            sp['dtsim'] = 0
        elif part == 'dt-7':
            sp['dtsim'] = rng.choice([7, 480, 3601, 7200])
        elif part == 'dtweather-0':
            sp['dtweather'] = F(0)
        elif part == 'dtweather-1800':
            sp['dtweather'] = F(rng.choice([1800, 900, 7200]))
        elif part == 'bldheight-0':
            sp['bldheight'] = F(0)
        elif part == 'hobs-0':
            sp['h_obs'] = F(0)
        elif part == 'south':
            sp['south'] = True
        elif part == 'veg-over-1':
            sp['veg_over_1'] = True
        elif part == 'tiny-char':
            sp['charlength'] = rng.choice([F(1, 2), F(99, 100), F(1, 1000)])
        elif part in ('text-wind0', 'text-wind1', 'hdr-short-loc', 'hdr-bad-ground', 'wx-text', 'wx-empty-window'):
            sp['edge'] = part
    sp['kind'] = e


def make_lib(pkg, rng, steer=None):
    """refBEM / refSchedule: 2 types x 3 eras x 16 zones of small fractionised objects (one object per type and era,
    shared by the zone columns). `steer` = (hot, canyon temperature, hour, day-type index): buildings whose first
    pass stays inside the model's own plausibility checks (as props/pipeline.py `shrink`)."""
    bems, schs = [], []
    for t in TYPES:
        rb, rs = [], []
        for e in ERAS:
            sch = ST.make_sched(pkg, rng)
            sch.bldtype, sch.builtera = t, e
            if steer is None:
                bem = ST.make_bem(pkg, rng, 'any', F(295), sch, 12, 0, (rng.choice([2, 3]), rng.choice([2, 3]), rng.choice([2, 3])))
            else:
                hot, can_t, hour, di = steer
                sch._vent = F(rng.randint(0, 3), 10000)
                mode = rng.choice(ST.HOT if hot else ST.COLD)
                mode = 'idle' if mode == 'free' else mode
                bem = ST.make_bem(pkg, rng, mode, can_t, sch, hour, di, (2, 2, 2), calm=True)
                bem.building.indoor_hum = F(rng.randint(5, 12), 1000)
            bem.bldtype, bem.builtera = t, e
            rb.append([bem] * 16)
            rs.append([sch] * 16)
        bems.append(rb)
        schs.append(rs)
    return bems, schs


PARAMS_SET = ['month', 'day', 'nday', 'dtsim', 'dtweather', 'autosize', 'sensocc', 'latfocc', 'radfocc', 'radfequip',
              'radflight', 'h_ubl1', 'h_ubl2', 'h_ref', 'h_temp', 'h_wind', 'c_circ', 'c_exch', 'maxday', 'maxnight',
              'windmin', 'h_obs', 'bldheight', 'h_mix', 'vertohor', 'charlength', 'albroad', 'droad', 'sensanth',
              'vegstart', 'vegend', 'albveg', 'rurvegcover', 'latgrss', 'lattree', 'schtraffic', 'kroad', 'croad']


class Run(object):
    pass


def set_params(m, sp):
    # the three cover fractions check their sum in the setters: clear first
    m._grasscover, m._treecover, m._blddensity = F(0), F(0), F(0)
    m.blddensity, m.grasscover, m.treecover = sp['blddensity'], sp['grasscover'], sp['treecover']
    if sp.get('veg_over_1'):
        # only reachable around the setters: road_veg_coverage > 1 is refused by the Element setter
        m._treecover = 1 - sp['blddensity'] + F(1, 10)
        sp['treecover'] = m._treecover
    for a in PARAMS_SET:
        setattr(m, a, sp[a])
    m.latanth = sp['latanth']
    m.zone, m.bld = sp['zone'], [tuple(r) for r in sp['bld']]
    for a, v in sp['ov'].items():
        setattr(m, a, v)


def real_generate(chk, pkg, idx, sp, table, tag=''):
    """the real generate() of the fractionised package on the written file `table`"""
    import random
    from props import c01
    from uwg import utilities
    r = Run()
    r.sp = sp
    d = os.path.join(chk.work(), 'gen%03d%s' % (idx, tag))
    os.makedirs(d)
    r.rural = os.path.join(d, 'rural.epw')
    PL.write_file(chk.rng, r.rural, table)
    parsed = utilities.read_csv(r.rural)
    r.hdr_in, r.rows_in = [list(x) for x in parsed[:8]], [list(x) for x in parsed[8:]]
    uwgm = ST.mod(pkg, 'uwg')
    lib = make_lib(pkg, random.Random(sp['lib_seed']), sp.get('steer'))
    uwgm.UWG.load_refDOE = staticmethod(lambda *a, **k: lib)
    m = uwgm.UWG.from_param_file(os.path.join(core.REPO, ST.PARAM), epw_path=r.rural)
    set_params(m, sp)
    zp = os.path.join(d, 'zmeso.txt')
    ST.write_zmeso(zp, [frac_dec(x) for x in sp['zm']])
    m.Z_MESO_PATH = zp
    cap = {}
    orig = m._compute_input

    def wrapped():
        cap['stock'] = ser_stock(m)
        return orig()
    m._compute_input = wrapped
    r.model, r.stage, r.ans = m, None, None
    try:
        with core.quiet():
            m.generate()
    except Exception as e:      # noqa - classified by class and stage, anything unexpected is re-raised
        r.stage = stage_of(e)
    r.stock = cap.get('stock')
    if r.stock is None:
        # generate() stopped before _compute_input (header): the Lean side still needs a (never used) stock
        r.stock = DUMMY.get('stock') or 'tot=[0/1;0/1;0/1] nb=0 nsch=0'
    elif 'stock' not in DUMMY:
        DUMMY['stock'] = r.stock
    if sp['dtweather'] != 3600 and (r.stage is None or not (r.stage.startswith('err header-') or r.stage.endswith('@simparam'))):
        # model limit (Model/Generate.lean, generateFile): hourly files only; stated as an outcome of its own
        r.stage = 'err unsupported-dtweather'
    if r.stage is None and m.RSM.nzfor is None:
        r.stage = 'err nzfor@rsm'       # generate() returned; Step.Cfg cannot carry nzfor = None (Model/Generate.lean)
        r.returned_nzfor_none = True
    r.line = 'gen hdr=%s rows=%s %s %s' % (c01.enc_rows(r.hdr_in), c01.enc_rows(r.rows_in), ser_params(sp), r.stock)
    if r.stage is None:
        r.ans = 'ok %s %s %s' % (ST.ser_cfg(m), ST.ser_state(m), ser_extra(m))
    else:
        r.ans = r.stage
    return r


DUMMY = {}


def frac_dec(x):
    """exact decimal text of a rational with a power-of-ten denominator (what z_meso.txt holds)"""
    x = F(x)
    n, k = x, 0
    while n.denominator != 1:
        n, k = n * 10, k + 1
        assert k < 40
    s = str(abs(int(n))).rjust(k + 1, '0')
    return ('-' if x < 0 else '') + (s[:-k] + '.' + s[-k:] if k else s)


# ----------------------------------------------------------------------------- oracles on the real results
def level_spec(z, h, n):
    """n is the 1-based index of the first level at (within 1e-10) or above h, None when there is none"""
    eps = F(1, 10 ** 10)
    at = [zz > h or abs(zz - h) < eps for zz in z]
    if n is None:
        return not any(at)
    return 1 <= n <= len(z) and at[n - 1] and not any(at[:n - 1])


def oracles(pkg, r, info):
    """None or a message: the statements of Props/Generate.lean evaluated on the implementation's own results"""
    sp, m = r.sp, r.model
    if r.stage is not None and not getattr(r, 'returned_nzfor_none', False):
        return None
    p, u, rsm = m.geoParam, m.UCM, m.RSM
    # C02: minimum wind handed on unscaled; C18: the season months whatever the latitude
    if p.windMin != sp['windmin']:
        return 'geoParam.windMin = %s, parameter windmin = %s' % (p.windMin, sp['windmin'])
    if (p.vegStart, p.vegEnd) != (sp['vegstart'], sp['vegend']):
        return 'geoParam season %s, configured %s (latitude %s)' % ((p.vegStart, p.vegEnd), (sp['vegstart'], sp['vegend']), m.lat)
    # site
    loc = r.hdr_in[0]
    if (rsm.lat, rsm.lon, rsm.gmt) != (PL.num(loc[6]), PL.num(loc[7]), PL.num(loc[8])):
        return 'site (%s, %s, %s) is not cells 6..8 of line 1 %r' % (rsm.lat, rsm.lon, rsm.gmt, loc[6:9])
    # C13: canyon averages after the overrides
    ov = sp['ov']
    fr = collections.OrderedDict()
    for t, e, f in sp['bld']:
        fr[(t, e.lower())] = fr.get((t, e.lower()), 0) + f
    if sorted((b.bldtype, b.builtera) for b in m.BEM) != sorted(fr):
        return 'selected buildings %s, stock %s' % ([(b.bldtype, b.builtera) for b in m.BEM], list(fr))
    for b in m.BEM:
        if b.frac != fr[(b.bldtype, b.builtera)]:
            return 'fraction of %s/%s is %s, stock says %s' % (b.bldtype, b.builtera, b.frac, fr[(b.bldtype, b.builtera)])
        for a, get in (('glzr', lambda b: b.building.glazing_ratio), ('shgc', lambda b: b.building.shgc),
                       ('albwall', lambda b: b.wall.albedo), ('albroof', lambda b: b.roof.albedo),
                       ('vegroof', lambda b: b.roof.vegcoverage), ('flr_h', lambda b: b.building.floor_height)):
            if a in ov and get(b) != ov[a]:
                return 'override %s = %s not carried by %s/%s (%s)' % (a, ov[a], b.bldtype, b.builtera, get(b))
    aw = sum(b.frac * b.wall.albedo for b in m.BEM)
    rg = sum(b.frac * b.building.glazing_ratio for b in m.BEM)
    sh = sum(b.frac * b.building.shgc for b in m.BEM)
    if u.alb_wall != aw:
        return 'UCM.alb_wall = %s, weighted mean of the selected walls after the overrides = %s' % (u.alb_wall, aw)
    if u.facAbsor != (1 - rg) * (1 - aw) + rg * (1 - F(3, 4) * sh):
        return 'UCM.facAbsor = %s is not made of the weighted glazing ratio %s, wall albedo %s, SHGC %s' % (u.facAbsor, rg, aw, sh)
    # C20 / C17: the ground-temperature index
    g = r.hdr_in[3]
    depths = [PL.num(g[2 + 16 * k]) for k in range(int(g[1]))]
    n0 = -(-F(sp['droad']) // F(1, 20))
    col = n0 * F(1, 20) if n0 > 1 else F(sp['droad'])
    want = next((j for j, dd in enumerate(depths) if dd >= col), None)
    if m._soilindex1 != want:
        return '_soilindex1 = %s, first stated depth at or below the %s m column is %s (depths %s)' % (m._soilindex1, col, want, depths)
    if want is not None and sum(m.road.layer_thickness_lst) < depths[want]:
        return 'padded road column %s m does not reach the chosen depth %s m' % (sum(m.road.layer_thickness_lst), depths[want])
    if want is not None and sum(m.rural.layer_thickness_lst) < depths[want]:
        return 'padded rural column does not reach the chosen depth'
    if sum(u.road.layer_thickness_lst) != n0 * F(1, 20):
        return 'pavement simulated by the canyon is %s m, ceil(droad / 0.05) layers of 5 cm give %s m' % (sum(u.road.layer_thickness_lst), n0 * F(1, 20))
    # C16: the rural column
    zm = sp['zm']
    if rsm.z != mids(zm) or rsm.dz != [F(zm[i + 1]) - F(zm[i]) for i in range(len(zm) - 1)]:
        return 'grid of the rural column is not mid-points / differences of z_meso'
    for name, h in (('nz0', p.tempHeight), ('nzref', p.refHeight), ('nzfor', p.nightBLHeight), ('nz10', p.windHeight),
                    ('nzi', p.dayBLHeight)):
        if not level_spec(rsm.z, h, getattr(rsm, name)):
            return 'RSM.%s = %s is not the first level at or above %s in %s' % (name, getattr(rsm, name), h, rsm.z)
    s = info['start']
    w0 = r.rows_in[s]
    t0, p0 = PL.num(w0[6]) + K0, PL.num(w0[9])
    n = rsm.nzref
    if rsm.tempProf != [t0] * n or rsm.presProf[0] != p0 or rsm.windProf != [1] * n or \
            [len(getattr(rsm, a)) for a in ST.RSM_L] != [n, n, n, n, n + 1, n]:
        return 'initial profiles: lowest level not at the sensor temperature / pressure of the first window row, or lengths'
    if rsm.densityProfS[0] != rsm.densityProfC[0] or rsm.densityProfS[n] != rsm.densityProfC[n - 1]:
        return 'densityProfS end values are not the first / last cell density'
    # initial canyon / boundary layer = first window row
    hum0 = pkg.psychrometrics.hum_from_rhum_temp(PL.num(w0[8]), PL.num(w0[6]), p0)
    wind0 = PL.num(w0[21])
    if (u.canTemp, u.roadTemp, u.canHum, u.canWind, u.ublWind) != (t0, t0, hum0, wind0, max(wind0, sp['windmin'])):
        return 'initial canyon state is not the first window row (T, hum, wind, max(wind, windMin))'
    if m.UBL.ublTemp != t0 or any(x != t0 for x in m.UBL.ublTempdx) or len(m.UBL.ublTempdx) != int(round(sp['charlength'] / min(sp['charlength'], 250))):
        return 'initial boundary layer cells'
    free = 1 - sp['blddensity']
    if m.rural.vegcoverage != sp['rurvegcover'] or u.road.vegcoverage != (sp['treecover'] + sp['grasscover']) / free or \
            (u.road.grasscoverage, u.road.treecoverage) != (sp['grasscover'] / free, sp['treecover'] / free) or \
            m.road.vegcoverage != u.road.vegcoverage or (m.rural.albedo, m.road.albedo) != (sp['albroad'], sp['albroad']):
        return 'vegetation cover / albedo of the road and rural elements are not the parameters (rural: rurvegcover; ' \
               'road: cover fractions over the unbuilt fraction)'
    if u.sensAnthrop != sp['sensanth'] or u.h_mix != sp['h_mix'] or u.latAnthrop != sp['latanth']:
        return 'sensAnthrop / h_mix / latAnthrop are not the parameters'
    for b in m.BEM:
        if sp['autosize'] and (b.building.coolcap, b.building.heat_cap) != (9999, 9999):
            return 'autosize set and capacities %s' % ((b.building.coolcap, b.building.heat_cap),)
    return None


def history_free(chk, pkg, r, info):
    """C17 at the concrete level: generate() again on the same object, and with other values of the dead parameters"""
    m, sp = r.model, r.sp
    before = (ST.ser_cfg(m), ST.ser_state(m))
    for a in DEAD:
        setattr(m, a, getattr(m, a) + F(1, 3) if a != 'radfocc' else F(1) - getattr(m, a))
    m.epw_precision = 5
    with core.quiet():
        m.generate()
    after = (ST.ser_cfg(m), ST.ser_state(m))
    if before != after:
        return 'second generate() with other values of %s gives another configuration / state: %s' % (
            DEAD, ST.diff_tokens(' '.join(before), ' '.join(after)))
    return None


# ----------------------------------------------------------------------------- the RSMDef tie
def rsm_cases(chk, pkg):
    rng = chk.rng
    R = ST.mod(pkg, 'RSMDef').RSMDef
    Param = ST.mod(pkg, 'param').Param
    U = ST.mod(pkg, 'uwg').UWG
    work = chk.work()
    cases, branches = [], collections.Counter()
    n = 60 if chk.tier == 'quick' else 300
    shipped = [F(x) for x in open(os.path.join(core.REPO, 'uwg', 'refdata', 'z_meso.txt')).read().split()]
    for i in range(n):
        kind = ['std', 'std', 'decimal', 'short', 'nonmono', 'std', 'shipped'][i % 7]
        zm = shipped if kind == 'shipped' else [F(x) for x in gen_zm(rng, kind)]
        z = mids(zm)
        hs = [gen_height(rng, z, 20, 200), gen_height(rng, z, 0, 20), gen_height(rng, z, 10, 120),
              gen_height(rng, z, 0, 30), gen_height(rng, z, 100, 1500)]
        if i % 11 == 3 and z:
            hs[0] = max(z) + 1
        height = rng.choice([F(0), rq(rng, 0, 4, 10)])
        t = rng.choice([rq(rng, 250, 310, 4), rq(rng, 250, 310, 100)]) if i % 13 != 5 else F(0)
        p = F(rng.randint(90000, 104000)) if i % 17 != 6 else F(0)
        zp = os.path.join(work, 'rsmz%d.txt' % i)
        ST.write_zmeso(zp, [frac_dec(x) for x in zm])
        par = Param(hs[4], hs[2], hs[0], hs[1], hs[3], F(1), F(150), F(20), F(1, 2), F(1, 2), F(1, 4), 4, 10, F(18),
                    F(8), F(1), U.WGMAX, F(1), F(250), U.G, U.CP, U.VK, U.R, U.RV, U.LV, F(355, 113), U.SIGMA,
                    U.WATERDENS, U.LVTT, U.TT, U.ESTT, U.CL, U.CPV, U.B, U.CM, U.COLBURN)
        line = 'rsm zm=%s h=%s height=%s t=%s p=%s' % (frac_list(zm), frac_list(hs), frac_str(height), frac_str(t), frac_str(p))
        try:
            o = R(F(1), F(2), F(3), height, t, p, par, zp)
            ans = 'ok z=%s dz=%s rsmc=%s nz0=%s nzref=%d nzfor=%s nz10=%s nzi=%s %s' % (
                frac_list(o.z), frac_list(o.dz), frac_list([o.z0r, o.disp]), onat(o.nz0), o.nzref, onat(o.nzfor),
                onat(o.nz10), onat(o.nzi), ' '.join('%s=%s' % (a, frac_list(getattr(o, a))) for a in ST.RSM_L))
            for name, h in (('nz0', hs[1]), ('nzref', hs[0]), ('nzfor', hs[2]), ('nz10', hs[3]), ('nzi', hs[4])):
                if not level_spec(o.z, h, getattr(o, name)):
                    chk.violation('impl-violation', 'RSMDef level search', case={'z_meso': [str(x) for x in zm], 'height': str(h), 'level': name},
                                  observed=getattr(o, name), expected='first level at (within 1e-10) or above the height, plus one')
            branches['ok nzref=%s' % ('1' if o.nzref == 1 else 'top' if o.nzref == len(o.z) else 'mid')] += 1
        except Exception as e:      # noqa
            c = cls_of(e)
            if c is None:
                raise
            ans = 'err ' + c
            branches[ans] += 1
        cases.append((line, ans))
    chk.correspond('RSMDef.__init__~rsmInit', 'Generate', cases,
                   rule='the REAL RSMDef(lat, lon, gmt, height, T_init, P_init, parameter, z_meso_path) of the fractionised '
                        'package (real constants G, CP, R of the UWG class) on written z_meso files (generated grids of '
                        '0..8 levels, non-monotone ones, the shipped z_meso.txt; heights random, exactly at a level, '
                        'within 1e-10 of a level, above every level; zero station temperature / pressure) vs Lean '
                        'Gen.rsmInit: z, dz, z0r, disp, the five level indices and all six initial profiles, or the '
                        'exception class (TypeError of range(None), ZeroDivisionError)',
                   classify=lambda line, impl: impl if impl.startswith('err') else 'ok')
    chk.extra_cov['rsm_init_branches'] = dict(branches)


def float_rsm_oracle(chk):
    """float level: the plain package's RSMDef on the shipped grid and default heights - pressure strictly decreasing
    with height, densities positive and decreasing, levels as specified"""
    import uwgutil as U
    n = bad = 0
    for (mo, h_ref, h_ubl2) in [(1, 150, 50), (7, 150, 80), (4, 100, 50), (10, 200, 100)]:
        m = U.new_model(month=mo, day=1, nday=1, dtsim=300)
        m.h_ref, m.h_ubl2 = h_ref, h_ubl2
        with core.quiet():
            m.generate()
        r, p = m.RSM, m.geoParam
        n += 1
        msg = None
        if any(b >= a for a, b in zip(r.presProf, r.presProf[1:])):
            msg = 'initial pressure profile not strictly decreasing with height'
        elif any(x <= 0 for x in r.densityProfC + r.densityProfS) or any(b >= a for a, b in zip(r.densityProfC, r.densityProfC[1:])):
            msg = 'initial density profile not positive / decreasing'
        elif r.tempProf != [m.weather.staTemp[0]] * r.nzref or r.presProf[0] != m.weather.staPres[0]:
            msg = 'lowest level not at the sensor temperature / pressure'
        else:
            for name, h in (('nz0', p.tempHeight), ('nzref', p.refHeight), ('nzfor', p.nightBLHeight),
                            ('nz10', p.windHeight), ('nzi', p.dayBLHeight)):
                k = getattr(r, name)
                if k is None or not (r.z[k - 1] >= h - 1e-10 and all(zz < h for zz in r.z[:k - 1])):
                    msg = 'level %s = %s for height %s' % (name, k, h)
        if m.geoParam.windMin != m.windmin or (m.geoParam.vegStart, m.geoParam.vegEnd) != (m.vegstart, m.vegend):
            msg = 'windMin / season months not handed on'
        if msg:
            bad += 1
            chk.violation('impl-violation', 'generate float oracle: ' + msg, case={'month': mo, 'h_ref': h_ref, 'h_ubl2': h_ubl2},
                          observed=msg, expected='hydrostatic initial profiles on the shipped grid, levels as specified')
    chk.direct('Generate-oracle(float: RSM initial profiles on the shipped grid)', n, n,
               'plain package, Singapore file, four starts / heights: pressure strictly decreasing, densities positive and '
               'decreasing, lowest level at the sensor values, the five level indices as specified, windMin / season handed on',
               mismatches=bad)


# ----------------------------------------------------------------------------- the whole program, first hour
def main_cases(chk, pkg):
    """generate(); simulate() [first hour]; write_epw() of the fractionised package with NOTHING handed to the model
    but the parameters, the stock, z_meso and the file: vs Lean `uwgHours` (= `uwgMain` at `hours` record slots)."""
    from props import c01
    rng = chk.rng
    want = 4 if chk.tier == 'quick' else 16
    pairs, branches, tries = [], collections.Counter(), 0
    while len(pairs) < want and tries < 6 * want:
        tries += 1
        sp = gen_params(rng, tries)
        hot = tries % 2 == 0
        sp.update(month=1, day=rng.choice([1, 2, 3]), nday=1, days=1, dtsim=3600, hot=hot, sun=tries % 3 != 1,
                  nrec=[0, 3, 2, 3][tries % 4], zm=[F(0), F(20), F(120), F(300)], h_ref=F(50), h_ubl2=F(50),
                  h_ubl1=F(1000), h_temp=F(2), h_wind=F(10), h_obs=F(1, 2), charlength=F(1000),
                  droad=rng.choice([F('0.1'), F('0.12'), F('0.15'), F('0.1')]), bldheight=F(10),
                  blddensity=F(1, 2), vertohor=F(4, 5), grasscover=F(1, 10), treecover=F(1, 10),
                  c_circ=F(6, 5), c_exch=F(1), maxday=F(150), maxnight=F(20), kroad=F(1), croad=F(1600000),
                  sensanth=F(20), latanth=None, windmin=rng.choice([F(1), F(4), F(1, 2)]))
        sp['ov'] = {}
        fsp = dict(sp)
        hdr, rows, info = PL.gen_file(rng, fsp)
        w0 = rows[info['start']]
        julian = PL.INOBIS[0] + sp['day'] - 1
        sp['steer'] = (hot, PL.num(w0[6]) + K0, 1, {0: 2, 6: 1}.get(julian % 7, 0))
        r = real_generate(chk, pkg, 900 + tries, sp, hdr + rows)
        m = r.model
        if r.stage is not None or len(m.rural.layerTemp) > 12:
            continue        # (an exception of generate() is the business of the other tie; deep columns are too slow)
        hours, p = 1, rng.choice([1, 0, 2, 4])
        m.epw_precision = p
        m.simTime.days = F(hours, 24)
        m.simTime.nt = hours * 3600 // sp['dtsim'] + 1
        stage = None
        try:
            with core.quiet():
                m.simulate()
        except Exception as e:  # noqa
            stage = 'err sim-' + ST.err_of(e)[4:]
        if stage is None:
            try:
                with core.quiet():
                    m.write_epw()
                with open(m.new_epw_path, 'r', newline='') as f:
                    ans = 'ok ' + c01.enc(f.read())
            except IndexError:
                ans = 'err write'
        else:
            ans = stage
        line = 'main' + r.line[3:] + ' hours=%d p=%d' % (hours, p)
        pairs.append((line, ans))
        branches['written' if ans.startswith('ok') else ans] += 1
    chk.correspond('generate;simulate;write_epw~uwgHours', 'Generate', pairs,
                   rule='the REAL generate(); simulate(); write_epw() of the fractionised package for the first hour of a '
                        'run (simTime.days / nt set on the generated object) with the city generate() itself builds from '
                        'the injected small library - NO configuration or state handed to the model, only the parameters, '
                        'the stock at the entry of _compute_input, z_meso and the file - vs Lean Gen.uwgHours (uwgMain at '
                        'one record slot): the complete written file byte for byte, or the failing stage',
                   nontrivial=lambda line, impl: impl.startswith('ok'),
                   classify=lambda line, impl: 'written' if impl.startswith('ok') else impl)
    chk.extra_cov['uwgHours_branches'] = dict(branches)
    if not any(a.startswith('ok') for _, a in pairs):
        chk.notes.append('uwgHours tie: no run wrote a file in this run (%s)' % dict(branches))


# ----------------------------------------------------------------------------- the check
def plan(chk):
    rng = chk.rng
    big = chk.tier == 'thorough'
    cases = []
    for i in range(70 if not big else 400):
        cases.append(gen_params(rng, i))
    for j, e in enumerate(EDGES * (1 if not big else 3)):
        sp = gen_params(rng, j)
        sp['nrec'] = max(sp['nrec'], 1) if e != 'refused' else sp['nrec']
        apply_param_edge(rng, sp, e)
        cases.append(sp)
    return cases


def run_generate(chk):
    """The composition-E tie; called from props/c17.py at the end of `run`."""
    rng = chk.rng
    if chk.tier == 'thorough':
        chk.leanchecker([MODULE])
    pkg = ST.load_pkg()
    pairs, branches, nor, bad, nh, bh = [], collections.Counter(), 0, 0, 0, 0
    t_py = time.time()
    specs = plan(chk)
    for idx, sp in enumerate(specs):
        fsp = dict(sp)
        hdr, rows, info = PL.gen_file(rng, fsp)
        if sp.get('south'):
            hdr[0][6] = '-' + hdr[0][6].strip().lstrip('+-')
        if sp['edge']:
            PL.apply_edge(rng, sp, hdr, rows, info)
        r = real_generate(chk, pkg, idx, sp, hdr + rows)
        pairs.append((r.line, r.ans))
        branches[sp['kind'] + ('' if r.stage is None else '->' + r.stage[4:])] += 1
        msg = oracles(pkg, r, info)
        if r.stage is None:
            nor += 1
            if msg is None and idx % 3 == 0:
                nh += 1
                msg = history_free(chk, pkg, r, info)
                if msg:
                    bh += 1
        if msg:
            bad += 1
            if bad <= 3:
                chk.violation('impl-violation', 'Generate oracle on a real generate()',
                              case={'parameters': {k: (frac_str(v) if isinstance(v, F) else str(v)) for k, v in sp.items()
                                                   if k not in ('schtraffic',)},
                                    'rural_file_text': open(r.rural, newline='').read()[:20000]},
                              observed=msg,
                              expected='windMin / season months handed on; canyon averages = weighted means after the overrides; '
                                       '_soilindex1 = first depth at or below the column; level indices = first level at or '
                                       'above the height; initial state = first window row; generate() history free')
    t_py = time.time() - t_py
    t_lean = time.time()
    chk.correspond('generate~generateFile', 'Generate', pairs,
                   rule='the REAL generate() of the fractionised package (exact rationals, shared libm stubs) on synthetic '
                        'rural files, EVERY scalar parameter set through its setter to a generated legal value (boundaries '
                        'included), z_meso files of several lengths, a small injected reference library selected by the real '
                        '_compute_BEM (1-3 buildings, overrides) vs Lean Gen.generateFile given the header rows, the data '
                        'rows, the parameters, z_meso and the stock serialised at the entry of _compute_input: the COMPLETE '
                        'configuration and state (serialisation of props/step.py) plus the extras (geoParam, clock constants, '
                        'padded road, _soilindex1/2, nz0/nz10/nzi, facAbsor, roadAbsor, ublWind, USM roughness, nightforc '
                        'loop bound), or the exception class and stage (header, SimParam, Weather, UBLDef, Material, '
                        'Element, RSMDef, UCMDef, _procmat, _compute_input itself: zero unbuilt fraction, refused road)',
                   nontrivial=lambda line, impl: impl.startswith('ok'),
                   classify=lambda line, impl: 'ok' if impl.startswith('ok') else impl)
    chk.measurements['generate_tie_seconds'] = {'real generate (python, exact)': round(t_py, 1),
                                                'lean driver': round(time.time() - t_lean, 1)}
    rsm_cases(chk, pkg)
    t_main = time.time()
    main_cases(chk, pkg)
    chk.measurements['uwgHours_tie_seconds'] = round(time.time() - t_main, 1)
    chk.direct('Generate-oracle(windMin, season, site, canyon averages, soil index, levels, initial state, autosize)',
               len(specs), nor,
               'on every real generate(): geoParam.windMin = windmin; vegStart / vegEnd = the configured months whatever '
               'the latitude; RSM.lat/lon/gmt = cells 6..8 of line 1; selected buildings = the stock, fractions added per '
               'type and era, overrides carried by every selected building, UCM.alb_wall and facAbsor made of the weighted '
               'means AFTER the overrides; _soilindex1 = first stated depth at or below the column, padded columns reach it, '
               'the canyon simulates ceil(droad/0.05) layers of 5 cm; grid = mid-points / differences of z_meso; the five '
               'level indices = first level at (within 1e-10) or above the height; initial profiles at the sensor values; '
               'canyon / boundary layer = first window row; autosize', mismatches=bad - bh, branches=dict(branches))
    chk.direct('Generate-oracle(history free: second generate() with other dead parameters)', nh, nh,
               'generate() again on the same object after changing radfocc, maxnight, h_temp and epw_precision: the same '
               'configuration and state', mismatches=bh)
    float_rsm_oracle(chk)
    want = ['zerodiv@ubl', 'zerodiv@input', 'zerodiv@ucm', 'assert@material', 'index@procmat', 'refused@input', 'type@rsm',
            'nzfor@rsm', 'zerodiv@rsm', 'zerodiv@simparam', 'timestep@simparam', 'unsupported-dtweather', 'type@ucm',
            'assert@element']
    seen = set(k.split('->', 1)[1] for k in branches if '->' in k)
    missing = [w for w in want if w not in seen]
    if missing:
        chk.notes.append('generate generator: stages not reached in this run: ' + ', '.join(missing))
    chk.extra_cov['generate_branches'] = dict(branches, not_reached=missing)
    if nor < 20:
        chk.corr_problems.append({'tie': 'generate~generateFile', 'case': None,
                                  'impl': 'only %d generate() calls returned' % nor, 'model': None})
    chk.assumptions.append(
        'composition E (Model/Generate.lean): generate() after _read_epw / _compute_BEM is ONE Lean function of the '
        'parameters, the stock as _compute_BEM delivers it, site and ground data of the header, the first station record '
        'and the numbers of z_meso.txt; uwgMain closes composition D with it (no configuration / initial state handed in). '
        'Still arguments: the stock (Bem.computeBEM is the tied model of its selection; the payload of an archetype is '
        'data of the library), the libm symbols. Model limits stated as explicit outcomes: RSM.nzfor = None (generate() '
        'returns, Step.Cfg cannot carry it), dtweather other than 3600 in generateFile / uwgMain')
