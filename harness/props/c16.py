"""C16 - vertical diffusion is bounded, conservative and exactly solved."""
import copy
import json
import os
import sys
from fractions import Fraction as F

import core
import fracexec
import rsmcoef
import t3_util as T3
import v4_util as V4
import u4_util as U4
import w4_util as W4
from fracexec import frac_str, frac_list

MODULE = 'UwgVerif.Props.C16'
THEOREMS = [
    'Uwg.C16.diffusion_defined', 'Uwg.C16.diffusion_rows_mrows', 'Uwg.C16.diffusion_exact',
    'Uwg.C16.bottom_dirichlet', 'Uwg.C16.top_equal', 'Uwg.C16.interior_conservation',
    'Uwg.C16.max_principle', 'Uwg.C16.max_principle_attained', 'Uwg.C16.uniform_fixed',
    'Uwg.C16.solver_exact', 'Uwg.C16.solver_exact_of_sdd', 'Uwg.C16.solver_exact_of_mrows',
    'Uwg.C16.solver_unique', 'Uwg.C16.solveChecked_exact', 'Uwg.C16.solveChecked_of_sdd',
    'Uwg.solve_sound', 'Uwg.pivots_of_sdd', 'Uwg.pivots_of_mrows',
]
# second part: the inputs vdm hands to diffusion_equation are admissible (Props/C16Coef.lean)
MODULE_COEF = 'UwgVerif.Props.C16Coef'
THEOREMS += [
    'Uwg.C16.te_pos', 'Uwg.C16.kt_nonneg', 'Uwg.C16.kt_formula', 'Uwg.C16.kt_nonneg_real', 'Uwg.C16.stub_sqrt_nonneg',
    'Uwg.C16.length_scale_start_or_ge_one', 'Uwg.C16.gridOK_of_meso', 'Uwg.C16.density_pos',
    'Uwg.C16.density_pos_real', 'Uwg.C16.stub_rpow_pos', 'Uwg.C16.vdm_step_admissible',
    'Uwg.C16.vdm_diffusion_returns', 'Uwg.C16.vdm_decompose', 'Uwg.C16.vdm_max_principle',
    'Uwg.C16.vdm_max_principle_real', 'Uwg.C16.vdm_boundaries', 'Uwg.C16.vdm_conservation', 'Uwg.C16.vdm_step_preserves',
]


# ----------------------------------------------------------------------------- generators
def rq(rng, lo, hi, den=None):
    den = den or rng.choice([1, 2, 4, 5, 10, 20, 100])
    return F(rng.randint(int(lo * den), int(hi * den)), den)


def pos(rng, lo, hi, den=None):
    v = rq(rng, lo, hi, den)
    return v if v > 0 else F(1)


CD_KINDS = ['random', 'random', 'zeros', 'allzero', 'large', 'zero-bottom', 'zero-top']
CO_KINDS = ['random', 'random', 'uniform', 'step', 'spike', 'ramp']


MAG_KINDS = ['tiny-cd', 'tiny-cd-aloft', 'tiny-dt', 'huge-dz', 'tiny-dz', 'huge-cd-dt']


def apply_magnitude(rng, cs, mag):
    """Re-write a valid diffusion call in very small / very large numbers.  The diffusion number
    K*dt/dz^2 (the off-diagonal of the system) becomes 1e-3 .. 1e-30 times (or 1e3 .. 1e20 times) what the
    ordinary generator produces: weak mixing at every level or only aloft, a very short step, a very coarse or
    very fine grid.  The step stays admissible, so every clause of the property applies unchanged."""
    nz = cs['nz']
    s = rng.choice(T3.SMALL_SCALES)
    if mag == 'tiny-cd':
        cs['cd'] = [v * s for v in cs['cd']]
    elif mag == 'tiny-cd-aloft':
        k = rng.randint(2, max(2, nz - 1))
        cs['cd'] = [v if i < k else v * s for i, v in enumerate(cs['cd'])]
    elif mag == 'tiny-dt':
        cs['dt'] = (cs['dt'] if cs['dt'] > 0 else F(300)) * s
    elif mag == 'huge-dz':
        g = rng.choice(T3.LARGE_SCALES[:3])
        cs['dz'] = [v * g for v in cs['dz']]
    elif mag == 'tiny-dz':
        g = rng.choice(T3.SMALL_SCALES[:4])
        cs['dz'] = [v * g for v in cs['dz']]
    elif mag == 'huge-cd-dt':
        g = rng.choice(T3.LARGE_SCALES)
        cs['cd'] = [v * g for v in cs['cd']]
        cs['dt'] = cs['dt'] * rng.choice([1, 1000])
    cs['mag'] = mag
    return cs


def diffusion_number(cs):
    """Largest and smallest non-zero K*dt/dz^2/rho-type entry of the interior rows (classification only)."""
    nz, dz, dt = cs['nz'], cs['dz'], cs['dt']
    vals = []
    for iz in range(1, nz - 1):
        for j in (iz, iz + 1):
            den = (dz[j] + dz[j - 1]) if j < nz else 2 * dz[nz]
            v = 2 * cs['daz'][j] * cs['cd'][j] / den * dt / dz[iz] / cs['da'][iz]
            if v != 0:
                vals.append(v)
    return (min(vals), max(vals)) if vals else (F(0), F(0))


def gen_diff(rng, nz=None, cdk=None, cok=None, mag=None):
    """A valid call: positive dz/da/daz, cd >= 0, list lengths as at the call site in vdm
    (co, da: nz; daz, cd: nz+1; dz: longer than nz)."""
    if mag:
        return apply_magnitude(rng, gen_diff(rng, nz, cdk or rng.choice(['random', 'random', 'zeros']), cok), mag)
    nz = nz if nz is not None else rng.randint(3, 60)
    cdk = cdk or rng.choice(CD_KINDS)
    cok = cok or rng.choice(CO_KINDS)
    den = rng.choice([1, 2, 10]) if nz > 25 else None
    dz = [pos(rng, 0.5, 250, den) for _ in range(nz + 1 + rng.choice([0, 0, 1, 3, 38]))]
    da = [pos(rng, 0.8, 1.3, 100) for _ in range(nz)]
    daz = [pos(rng, 0.8, 1.3, 100) for _ in range(nz + 1)]
    if cdk == 'allzero':
        cd = [F(0)] * (nz + 1)
    elif cdk == 'large':
        cd = [pos(rng, 100, 100000, 1) for _ in range(nz + 1)]
    else:
        cd = [pos(rng, 0.01, 60, den) for _ in range(nz + 1)]
        if cdk == 'zeros':
            for i in range(nz + 1):
                if rng.random() < 0.3:
                    cd[i] = F(0)
        elif cdk == 'zero-bottom':
            cd[0] = F(0)
            cd[1] = F(0)
        elif cdk == 'zero-top':
            cd[nz - 1] = F(0)
            cd[nz] = F(0)
    T = rq(rng, 250, 320, 10)
    if cok == 'uniform':
        co = [T] * nz
        co[nz - 1] = rq(rng, 200, 400, 10)       # the old top value is never read
    elif cok == 'step':
        k = rng.randint(1, nz - 1)
        co = [T] * k + [T + rq(rng, -20, 20, 10)] * (nz - k)
    elif cok == 'spike':
        co = [T] * nz
        co[rng.randrange(nz)] = T + rq(rng, -30, 30, 10)
    elif cok == 'ramp':
        s = rq(rng, -2, 2, 100)
        co = [T + s * i for i in range(nz)]
    else:
        co = [rq(rng, 250, 330, den or 10) for _ in range(nz)]
    dt = F(rng.choice([0, 1, 30, 60, 300, 300, 600, 900, 3600])) if rng.random() < 0.8 \
        else pos(rng, 0.1, 1000, 10)
    return dict(nz=nz, dt=dt, co=co, da=da, daz=daz, cd=cd, dz=dz, kind='valid',
                cdk=cdk, cok=cok)


def gen_malformed(rng):
    """Edge and malformed calls: small nz, short lists, zero spacing/density, negative values."""
    cs = gen_diff(rng, nz=rng.randint(2, 9))
    nz = cs['nz']
    how = rng.choice(['nz0', 'nz1', 'nz2', 'short-co', 'short-da', 'short-daz', 'short-cd',
                      'short-dz', 'zero-dz', 'zero-dz-sum', 'zero-da', 'neg-cd', 'neg-da',
                      'shortest', 'long-lists', 'two-faults'])
    cs['kind'] = how
    if how == 'nz0':
        cs['nz'] = 0
        if rng.random() < 0.5:
            cs['co'] = []
    elif how == 'nz1':
        cs['nz'] = 1
    elif how == 'nz2':
        cs['nz'] = 2
    elif how == 'short-co':
        cs['co'] = cs['co'][:nz - rng.choice([1, 1, 2, nz])]    # nz-1 entries are enough
    elif how == 'short-da':
        cs['da'] = cs['da'][:nz - rng.choice([1, 1, 2, nz])]    # nz-1 entries are enough
    elif how == 'short-daz':
        cs['daz'] = cs['daz'][:nz + 1 - rng.choice([1, 2, nz + 1])]
    elif how == 'short-cd':
        cs['cd'] = cs['cd'][:nz + 1 - rng.choice([1, 2, nz + 1])]
    elif how == 'short-dz':
        cs['dz'] = cs['dz'][:nz + 1 - rng.choice([1, 2, nz + 1])]
    elif how == 'zero-dz':
        cs['dz'][rng.choice([0, nz, nz - 1, rng.randrange(nz + 1)])] = F(0)
    elif how == 'zero-dz-sum':
        i = rng.randrange(1, nz)
        cs['dz'][i] = -cs['dz'][i - 1]
    elif how == 'zero-da':
        cs['da'][rng.choice([0, nz - 1, rng.randrange(nz)])] = F(0)
    elif how == 'neg-cd':
        for i in range(nz + 1):
            if rng.random() < 0.5:
                cs['cd'][i] = -cs['cd'][i]
    elif how == 'neg-da':
        cs['da'][rng.randrange(nz)] *= -1
    elif how == 'shortest':
        cs['co'] = cs['co'][:nz - 1]
        cs['da'] = cs['da'][:nz - 1]
        cs['dz'] = cs['dz'][:nz + 1]
    elif how == 'long-lists':
        for k in ('co', 'da', 'daz', 'cd'):
            cs[k] = cs[k] + [rq(rng, 1, 9) for _ in range(rng.randint(1, 4))]
    elif how == 'two-faults':
        # an IndexError and a ZeroDivisionError in the same call: the order decides
        i = rng.randrange(1, max(2, nz - 1))
        cs['dz'][i] = F(0)
        k = rng.choice(['da', 'co'])
        cs[k] = cs[k][:rng.randrange(0, nz)]
        if rng.random() < 0.5:
            cs['daz'] = cs['daz'][:rng.randrange(0, nz + 1)]
    return cs


def gen_system(rng, n=None, kind=None):
    """A raw tridiagonal system for the two `invert`s."""
    n = n if n is not None else rng.randint(1, 60)
    kind = kind or rng.choice(['sdd', 'sdd', 'sdd', 'sdd-neg', 'mrow', 'zero-pivot', 'any'])
    den = rng.choice([1, 2, 10]) if n > 25 else None
    A, C = [], []
    for i in range(n):
        a = rq(rng, -9, 9, den)
        c = rq(rng, -9, 9, den)
        if kind == 'mrow':
            a, c = -abs(a), -abs(c)
        margin = pos(rng, 0.01, 5, den)
        b = abs(a) + abs(c) + margin
        if kind in ('sdd-neg', 'any') and rng.random() < 0.5:
            b = -b
        if kind == 'any':
            b = rq(rng, -9, 9, den) or F(1)
        A.append([a, b, c])
        C.append(rq(rng, -100, 100, den))
    if kind == 'zero-pivot' and n >= 2:
        # plant the classical singular 2x2 block at the bottom: the eliminated pivot of row n-2
        # becomes 1 - 1*1/1 = 0 exactly
        A[n - 2] = [A[n - 2][0], F(1), F(1)]
        A[n - 1] = [F(1), F(1), A[n - 1][2]]
    elif kind == 'zero-pivot':
        A[0][1] = F(0)
    return dict(A=A, C=C, kind=kind, n=n)


SCALED_KINDS = ['scaled-all', 'scaled-rows', 'weak-coupling', 'mixed-magnitudes']
DOMINANT = ('sdd', 'sdd-neg', 'mrow') + tuple(SCALED_KINDS)


def gen_scaled_system(rng, n=None, kind=None):
    """A strictly diagonally dominant system written in very small / very large numbers: the whole system, or
    every row by its own factor (1e-30 .. 1e20; the solution is unchanged), or the off-diagonals alone 1e-3 ..
    1e-30 times the diagonal (weak coupling, in all rows or in some)."""
    kind = kind or rng.choice(SCALED_KINDS)
    sy = gen_system(rng, n if n is not None else rng.randint(1, 30), rng.choice(['sdd', 'sdd-neg', 'mrow']))
    A, C = sy['A'], sy['C']
    scales = T3.SMALL_SCALES + T3.LARGE_SCALES
    for i in range(len(C)):
        if kind == 'scaled-all':
            s = scales[0] if i else rng.choice(scales)
            scales = [s]
        elif kind == 'scaled-rows':
            s = rng.choice(scales + [F(1)])
        else:
            s = F(1)
        e = F(1)
        if kind == 'weak-coupling' or (kind == 'mixed-magnitudes' and rng.random() < 0.5):
            e = rng.choice(T3.SMALL_SCALES)
        A[i] = [A[i][0] * s * e, A[i][1] * s, A[i][2] * s * (e if kind != 'mixed-magnitudes' else
                                                              rng.choice([e, e, F(1)]))]
        C[i] = C[i] * s
    sy['kind'] = kind
    return sy


# ----------------------------------------------------------------------------- float level
EPS64 = 64 * 2.0 ** -52


def float_residual_msg(A, C, xs, what='equation'):
    """|A x - C| row by row, evaluated exactly on the doubles, against 64 ulp of the row's own magnitude
    (the elimination is backward stable for dominant rows: measured <= 1.1 ulp on the unchanged code)."""
    n = len(C)
    for i in range(n):
        terms = [F(A[i][1]) * F(xs[i])]
        if i > 0:
            terms.append(F(A[i][0]) * F(xs[i - 1]))
        if i < n - 1:
            terms.append(F(A[i][2]) * F(xs[i + 1]))
        r = abs(sum(terms) - F(C[i]))
        scale = sum(abs(t) for t in terms) + abs(F(C[i]))
        if r > F(EPS64) * scale:
            return '%s %d: residual %.3e is %.1e times the magnitude of the row (doubles; 64 ulp allowed)' % (
                what, i, float(r), float(r / scale))
    return None


def float_solver_oracles(chk, quick):
    """Float level, plain package: (1) both `invert`s are homogeneous - multiplying the whole system by a power
    of two is exact in binary floating point, so the solution must be bit-identical; (2) the result for dominant
    systems written in small / large numbers solves the system to 64 ulp; (3) diffusion steps written in small /
    large numbers: bottom, top, bounds (1e-12 relative) and residual of the system handed to invert."""
    core.repo_python_path()
    import importlib
    R = importlib.import_module('uwg.RSMDef').RSMDef
    E = importlib.import_module('uwg.element').Element
    rng = chk.rng
    powers = [-900, -200, -60, -50, -40, -34, -30, -20, -10, -3, 3, 10, 34, 60, 200, 900]
    for name, cls in (('RSMDef.invert', R), ('Element.invert', E)):
        n_hom, n_res, bad = 0, 0, []
        br = {}
        for _ in range(60 if quick else 600):
            sy = gen_system(rng, rng.randint(1, 30), rng.choice(['sdd', 'sdd-neg', 'mrow']))
            A = [[float(v) for v in r] for r in sy['A']]
            C = [float(v) for v in sy['C']]
            x0 = cls.invert(len(C), copy.deepcopy(A), list(C))
            for k in powers:
                s = 2.0 ** k
                big = max(abs(v) for r in A for v in r) * max(1.0, max(abs(v) for v in C))
                if k > 0 and big * s * s > 1e300 or k < 0 and s * s < 1e-300 * big:
                    continue                      # products inside the elimination would leave the double range
                xs = cls.invert(len(C), [[v * s for v in r] for r in A], [v * s for v in C])
                n_hom += 1
                br['2^%d' % k] = br.get('2^%d' % k, 0) + 1
                if list(xs) != list(x0) and len(bad) < 2:
                    i = [a != b for a, b in zip(xs, x0)].index(True)
                    bad.append(({'A': A, 'C': C, 'scale': '2**%d' % k},
                                'system multiplied by 2**%d (exact in doubles): unknown %d is %r, for the '
                                'unscaled system %r' % (k, i, xs[i], x0[i])))
        for _ in range(150 if quick else 1500):
            sy = gen_scaled_system(rng)
            A = [[float(v) for v in r] for r in sy['A']]
            C = [float(v) for v in sy['C']]
            try:
                xs = cls.invert(len(C), copy.deepcopy(A), list(C))
            except (ZeroDivisionError, OverflowError):
                continue
            n_res += 1
            br[sy['kind']] = br.get(sy['kind'], 0) + 1
            msg = float_residual_msg(A, C, xs)
            if msg and len(bad) < 3:
                bad.append(({'A': A, 'C': C, 'kind': sy['kind']}, msg))
        for case, msg in bad:
            chk.violation('impl-violation', 'float-level exact-solution oracle on %s' % name, case=case,
                          observed=msg, expected='A x = C (bit-identical under power-of-two scaling; residual '
                                                 'within 64 ulp of the row magnitude)')
        chk.direct('float-oracle(%s: homogeneity + residual)' % name, n_hom + n_res, n_hom + n_res,
                   'plain float %s on dominant systems: multiplied as a whole by 2**k, k in %s, the solution is '
                   'bit-identical (power-of-two scaling is exact in doubles, so ANY absolute threshold inside the '
                   'solver shows); written in small / large decimal numbers (whole system, single rows, '
                   'off-diagonals 1e-3..1e-30 times the diagonal) the exact residual of the doubles stays within '
                   '64 ulp of the row magnitude' % (name, powers), mismatches=len(bad), branches=br)
    # diffusion steps in floats
    orig = R.__dict__['invert']
    f = orig.__func__
    n, bad, br = 0, [], {}
    for mag in MAG_KINDS + ['ordinary']:
        for _ in range(25 if quick else 250):
            cs = gen_diff(rng, nz=rng.randint(3, 40), mag=None if mag == 'ordinary' else mag)
            dn_max = diffusion_number(cs)[1]
            if dn_max > 10 ** 6:
                # beyond ~1e16 the doubles lose the identity part of 1 + K*dt/dz^2 and a decoupled upper column
                # becomes singular: rounding, outside the exact theorems (the exact tie covers these steps)
                br['skipped(diffusion number > 1e6)'] = br.get('skipped(diffusion number > 1e6)', 0) + 1
                continue
            cap = []

            def spy(nz, A, C):
                cap.append((copy.deepcopy(A), list(C)))
                return f(nz, A, C)
            R.invert = staticmethod(spy)
            try:
                fl = {k: [float(v) for v in cs[k]] for k in ('co', 'da', 'daz', 'cd', 'dz')}
                xs = R.diffusion_equation(cs['nz'], float(cs['dt']), fl['co'], fl['da'], fl['daz'], fl['cd'],
                                          fl['dz'])
            except (ZeroDivisionError, OverflowError):
                continue
            finally:
                R.invert = orig
            n += 1
            br[mag] = br.get(mag, 0) + 1
            nz, co = cs['nz'], fl['co']
            lo, hi = min(co[:nz - 1]), max(co[:nz - 1])
            # forward error of the elimination: the pivots 1 + |a| + |c| - |c||a'|/b' cancel to relative accuracy
            # ~ ulp * diffusion number, accumulated over nz rows (measured 1.4e-12 at a diffusion number of 5e3)
            tol = max(1e-12, EPS64 * float(dn_max) * nz) * max(abs(v) for v in co)
            msg = None
            if xs[0] != co[0]:
                msg = 'lowest level %r != co[0] %r' % (xs[0], co[0])
            elif xs[nz - 1] != xs[nz - 2]:
                msg = 'top two levels differ: %r vs %r' % (xs[nz - 1], xs[nz - 2])
            elif not all(lo - tol <= v <= hi + tol for v in xs):
                i = [not (lo - tol <= v <= hi + tol) for v in xs].index(True)
                msg = 'level %d = %r outside [%r, %r] of the old profile (tolerance %.1e K)' % (i, xs[i], lo, hi, tol)
            else:
                msg = float_residual_msg(cap[-1][0], cap[-1][1], xs, 'row')
            if msg and len(bad) < 2:
                bad.append((dict(case_json(cs), float_inputs=True), msg))
    for case, msg in bad:
        chk.violation('impl-violation', 'float-level C16 oracle on RSMDef.diffusion_equation', case=case,
                      observed=msg, expected='bottom, top exact; bounds within max(1e-12, 64 ulp * diffusion number * nz) relative; rows of the system '
                                             'solved to 64 ulp')
    chk.direct('float-oracle(RSMDef.diffusion_equation, small / large numbers)', n, n,
               'plain float diffusion_equation on admissible steps whose diffusion number K*dt/dz^2 is 1e-3 .. '
               '1e-30 times the ordinary one, or larger up to 1e6 in absolute terms (%s): bottom and top identities exact, bounds '
               'within max(1e-12, 64 ulp * diffusion number * nz) * max|T|, exact residual of the doubles within 64 ulp per row' % ', '.join(MAG_KINDS),
               mismatches=len(bad), branches=br)


def float_tall_columns(chk, quick):
    """Float level, plain package: RSMDef.diffusion_equation on columns of 3 .. 1000 levels - in particular on both
    sides of 256 / 257 / 258 levels - with the whole statement: lowest level kept, top two levels equal, no new
    extreme, level-by-level balance of the whole step (= exact solution + conservation)."""
    core.repo_python_path()
    import importlib
    R = importlib.import_module('uwg.RSMDef').RSMDef
    rng = chk.rng
    n, bad, br = 0, [], {}
    for nz in (W4.TALL_NZ_QUICK if quick else W4.TALL_NZ_THOROUGH):
        for _ in range(2 if quick else 8):
            cs = W4.gen_tall_float(rng, nz)
            try:
                xs = R.diffusion_equation(nz, cs['dt'], list(cs['co']), list(cs['da']), list(cs['daz']),
                                          list(cs['cd']), list(cs['dz']))
            except Exception as e:  # noqa: BLE001 - an admissible call must return
                xs, msg = None, 'admissible call raises %s: %s' % (type(e).__name__, e)
            n += 1
            br['nz=%d' % nz] = br.get('nz=%d' % nz, 0) + 1
            if xs is not None:
                co = cs['co']
                lo, hi = min(co[:nz - 1]), max(co[:nz - 1])
                dn = max(2 * cs['daz'][j] * cs['cd'][j] / (cs['dz'][j] + cs['dz'][j - 1]) * cs['dt'] /
                         min(cs['dz'][j], cs['dz'][j - 1]) / min(cs['da']) for j in range(1, nz))
                tol = max(1e-12, EPS64 * dn * nz) * max(abs(v) for v in co)
                msg = None
                if len(xs) != nz or not all(v == v and abs(v) != float('inf') for v in xs):
                    msg = 'non-finite or mis-sized profile'
                elif xs[0] != co[0]:
                    msg = 'lowest level %r != co[0] %r' % (xs[0], co[0])
                elif xs[nz - 1] != xs[nz - 2]:
                    msg = 'top two levels differ: x[nz-2] = %r, x[nz-1] = %r' % (xs[nz - 2], xs[nz - 1])
                elif not all(lo - tol <= v <= hi + tol for v in xs):
                    i = [not (lo - tol <= v <= hi + tol) for v in xs].index(True)
                    msg = 'level %d = %r outside [%r, %r] of the old profile (tolerance %.1e K)' % (i, xs[i], lo, hi, tol)
                else:
                    msg = V4.whole_step_msg(nz, cs['dt'], co, list(xs), cs['da'], cs['daz'], cs['cd'], cs['dz'], rel=1e-9)
            if msg and len(bad) < 3:
                bad.append((dict(cs, float_inputs=True), 'column of %d levels: %s' % (nz, msg)))
            elif msg:
                bad.append(None)
    for item in [b for b in bad if b][:3]:
        chk.violation('impl-violation', 'C16 oracle on RSMDef.diffusion_equation, tall columns (doubles)', case=item[0],
                      observed=item[1], expected='lowest level kept, top two levels equal, no new extreme, every interior '
                                                 'level balances dt x (flux in - flux out) (1e-9 relative)')
    chk.direct('float-oracle(RSMDef.diffusion_equation, columns of 3..1000 levels)', n, n,
               'plain float diffusion_equation on admissible columns of %s levels (the minimum, the shipped 18, and both '
               'sides of 128 / 256 / 257 / 258 / 512 - sizes at which a byte, CPython\'s shared small integers -5..256 or a '
               'power of two end - up to 1000; random spacings 0.5..40 m, densities 0.6..1.3, coefficients 0..30 with '
               'zeros): lowest level and top-two-equal exact, bounds within max(1e-12, 64 ulp x diffusion number x nz), '
               'and level by level da dz (new - old) = dt x (flux in - flux out) of the new profile (1e-9), whose sum is '
               'the conservation clause' % (list(W4.TALL_NZ_QUICK if quick else W4.TALL_NZ_THOROUGH),),
               mismatches=len(bad), branches=br)


# ----------------------------------------------------------------------------- protocol
def line_diff(cs):
    return 'diff nz=%d dt=%s co=%s da=%s daz=%s cd=%s dz=%s' % (
        cs['nz'], frac_str(cs['dt']), frac_list(cs['co']), frac_list(cs['da']),
        frac_list(cs['daz']), frac_list(cs['cd']), frac_list(cs['dz']))


def line_sys(sy):
    A, C = sy['A'], sy['C']
    return 'solve a=%s b=%s c=%s y=%s' % (frac_list([r[0] for r in A]), frac_list([r[1] for r in A]),
                                          frac_list([r[2] for r in A]), frac_list(C))


def fmt(res):
    return res if isinstance(res, str) else 'ok ' + frac_list(res)


def guarded(f):
    try:
        return f()
    except IndexError:
        return 'err index'
    except ZeroDivisionError:
        return 'err zerodiv'
    except AssertionError:
        return 'err assert'
    except ValueError:
        return 'err value'
    except AttributeError:
        return 'err attr'


# ----------------------------------------------------------------------------- real code
def rsm_class():
    """The fractionised RSMDef class (uwg/__init__ rebinds the name `RSMDef` to the class, so
    the module is fetched by its full name)."""
    import importlib
    return importlib.import_module(fracexec.PKG + '.RSMDef').RSMDef


def element_class():
    import importlib
    return importlib.import_module(fracexec.PKG + '.element').Element


def impl_diff(pkg, cs, capture=None):
    """Run the REAL RSMDef.diffusion_equation over exact rationals. `capture` receives deep
    copies of the (A, C) it hands to RSMDef.invert."""
    R = rsm_class()
    orig = R.__dict__['invert']
    if capture is not None:
        f = orig.__func__

        def spy(nz, A, C):
            capture.append((copy.deepcopy(A), list(C)))
            return f(nz, A, C)
        R.invert = staticmethod(spy)
    try:
        return guarded(lambda: R.diffusion_equation(
            cs['nz'], cs['dt'], list(cs['co']), list(cs['da']), list(cs['daz']), list(cs['cd']),
            list(cs['dz'])))
    finally:
        if capture is not None:
            R.invert = orig


def impl_invert(cls, sy):
    A = copy.deepcopy(sy['A'])
    C = list(sy['C'])
    return guarded(lambda: cls.invert(len(C), A, C))


# ----------------------------------------------------------------------------- oracles
def residual_msg(A, C, xs):
    """A x = C exactly? (A[0][0] and A[n-1][2] multiply unknowns that do not exist.)"""
    n = len(C)
    if len(xs) != n:
        return 'solution has %d entries for %d equations' % (len(xs), n)
    for i in range(n):
        lhs = A[i][1] * xs[i]
        if i > 0:
            lhs += A[i][0] * xs[i - 1]
        if i < n - 1:
            lhs += A[i][2] * xs[i + 1]
        if lhs != C[i]:
            return 'equation %d of the tridiagonal system has residual %s' % (
                i, float(lhs - C[i]))
    return None


def is_valid(cs):
    nz = cs['nz']
    return (nz >= 2 and len(cs['co']) == nz and len(cs['da']) == nz and len(cs['daz']) == nz + 1
            and len(cs['cd']) == nz + 1 and len(cs['dz']) >= nz + 1 and cs['dt'] >= 0
            and all(v > 0 for v in cs['da']) and all(v > 0 for v in cs['daz'])
            and all(v >= 0 for v in cs['cd']) and all(v > 0 for v in cs['dz'][:nz + 1]))


def oracle_diff(cs, xs, captured):
    """The property itself on an implementation result. Returns None or a message. Never
    raises: if the call returned although an entry the statement mentions is missing or a
    spacing sum is zero (impossible for the code as modelled), that is reported as a finding."""
    try:
        return oracle_diff_(cs, xs, captured)
    except (IndexError, ZeroDivisionError) as e:
        return 'the call returned although the statement is undefined on this input (%s: %s)' % (
            type(e).__name__, e)


def oracle_diff_(cs, xs, captured):
    nz, co, da, dz, dt = cs['nz'], cs['co'], cs['da'], cs['dz'], cs['dt']
    if isinstance(xs, str):
        if is_valid(cs):
            return 'admissible input raises %s' % xs
        return None
    if nz < 2:
        return None
    if len(xs) != nz:
        return 'result has %d levels, expected %d' % (len(xs), nz)
    if xs[0] != co[0]:
        return 'lowest level %s != measured rural temperature co[0] %s' % (xs[0], co[0])
    if xs[nz - 1] != xs[nz - 2]:
        return 'top two levels differ: %s vs %s' % (float(xs[nz - 1]), float(xs[nz - 2]))
    cddz1 = 2 * cs['daz'][1] * cs['cd'][1] / (dz[1] + dz[0])
    lhs = sum(da[i] * dz[i] * (xs[i] - co[i]) for i in range(1, nz - 1))
    rhs = dt * cddz1 * (xs[0] - xs[1])
    if lhs != rhs:
        return 'interior heat change %s != dt*flux through lowest interface %s' % (
            float(lhs), float(rhs))
    if captured:
        A, C = captured[-1]
        msg = residual_msg(A, C, xs)
        if msg:
            return msg
    if is_valid(cs):
        lo, hi = min(co[:nz - 1]), max(co[:nz - 1])
        for i, x in enumerate(xs):
            if not lo <= x <= hi:
                return 'level %d: %s outside [min, max] of the old profile [%s, %s]' % (
                    i, float(x), float(lo), float(hi))
    return None


def case_json(cs):
    def j(v):
        if isinstance(v, F):
            return str(v)
        if isinstance(v, list):
            return [j(x) for x in v]
        return v
    return {k: j(v) for k, v in cs.items()}


def case_unjson(d):
    def u(v):
        if isinstance(v, float):
            return F(v)          # a double of a float-level finding, taken at its exact binary value
        if isinstance(v, str):
            try:
                return F(v)
            except ValueError:
                return v
        if isinstance(v, list):
            return [u(x) for x in v]
        return v
    return {k: (v if k in ('kind', 'cdk', 'cok', 'nz', 'n', 'tall', 'mag') else u(v)) for k, v in d.items()}


# ----------------------------------------------------------------------------- live check
def live_profiles(chk, ndays=1, coef_rec=None, hyp_rec=None, setup=None):
    """Run a short real (float) simulation with a recording wrapper around
    RSMDef.diffusion_equation and check bottom / top / bounds on every call.
    Tolerance 1e-9*max|T| (rounding can never trip it: the bottom and top identities are exact in
    doubles, the bounds hold in exact arithmetic and elimination errors are ~1e-13 relative)."""
    core.repo_python_path()
    import logging
    logging.disable(logging.CRITICAL)
    from uwg import UWG
    from uwg.RSMDef import RSMDef
    rec = []
    crash = None
    orig = RSMDef.__dict__['diffusion_equation']
    f = orig.__func__

    def spy(nz, dt, co, da, daz, cd, dz):
        co0 = list(co)
        cd0 = list(cd)
        r = f(nz, dt, co, da, daz, cd, dz)
        rec.append((nz, co0, list(r), min(cd0), (len(co0), len(da), len(daz), len(cd0), len(dz))))
        return r
    RSMDef.diffusion_equation = staticmethod(spy)
    orig_coef = RSMDef.__dict__['diffusion_coefficient']
    orig_dis = RSMDef.__dict__['dissipation_bougeault']
    tes = []

    def spy_dis(g, nz, z, dz, te, pt):
        tes.append(list(te))
        return orig_dis.__func__(g, nz, z, dz, te, pt)

    def spy_coef(self, rho, z, dz, z0, disp, tempRur, heatRur, nz, uref, th, parameter):
        kt, ustar = orig_coef(self, rho, z, dz, z0, disp, tempRur, heatRur, nz, uref, th, parameter)
        if coef_rec is not None:
            coef_rec.append(dict(kt=list(kt), te=tes[-1] if tes else None, nz=nz, heat=heatRur,
                                 uref=uref, ustar=ustar, dlu=list(self.dlu), dld=list(self.dld),
                                 grid_ok=rsmcoef.grid_ok(nz, z, dz)))
        return kt, ustar
    orig_vdm = RSMDef.__dict__['vdm']

    def spy_vdm(self, forc, rural, parameter, simTime):
        hyp_rec.append(rsmcoef.live_hyps(self, forc, parameter, simTime))
        return orig_vdm(self, forc, rural, parameter, simTime)
    if coef_rec is not None:
        RSMDef.diffusion_coefficient = spy_coef
        RSMDef.dissipation_bougeault = staticmethod(spy_dis)
    if hyp_rec is not None:
        RSMDef.vdm = spy_vdm
    out = os.path.join(chk.work(), 'epw')
    stdout = sys.stdout
    try:
        sys.stdout = open(os.devnull, 'w')
        res = os.path.join(core.REPO, 'resources')
        if not os.path.exists(os.path.join(res, 'initialize_singapore.uwg')):
            res = '/repo/resources'          # scratch trees used for mutation tests carry no data
        m = UWG.from_param_file(os.path.join(res, 'initialize_singapore.uwg'),
                                epw_path=os.path.join(res, 'SGP_Singapore.486980_IWEC.epw'),
                                new_epw_dir=out)
        m.nday = ndays
        if setup is not None:
            setup(m)
        m.generate()
        m.simulate()
    except Exception as e:      # the recorded calls are still evaluated; a crash is noted
        crash = '%s: %s' % (type(e).__name__, e)
    finally:
        sys.stdout.close()
        sys.stdout = stdout
        RSMDef.diffusion_equation = orig
        RSMDef.diffusion_coefficient = orig_coef
        RSMDef.dissipation_bougeault = orig_dis
        RSMDef.vdm = orig_vdm
        logging.disable(logging.NOTSET)
    bad = []
    shapes = {}
    for k, (nz, co, x, cdmin, shape) in enumerate(rec):
        shapes[str(shape)] = shapes.get(str(shape), 0) + 1
        tol = 1e-9 * max(abs(v) for v in co + x)
        lo, hi = min(co[:nz - 1]), max(co[:nz - 1])
        msg = None
        if not all(v == v and abs(v) != float('inf') for v in x):
            msg = 'non-finite profile'
        elif abs(x[0] - co[0]) > tol:
            msg = 'lowest level %r != forcing temperature %r' % (x[0], co[0])
        elif abs(x[nz - 1] - x[nz - 2]) > tol:
            msg = 'top two levels differ: %r vs %r' % (x[nz - 1], x[nz - 2])
        elif cdmin >= 0 and not all(lo - tol <= v <= hi + tol for v in x):
            msg = 'profile leaves [%r, %r]: %r' % (lo, hi, x)
        if msg:
            bad.append((k, msg, co, x))
    return rec, bad, shapes, crash


# ----------------------------------------------------------------------------- circumstances (round 4)
def u4_install(sink, ctx):
    """C16 around every real vdm call (doubles): the hypotheses of vdm_max_principle before it; after it the lowest
    level is the measured rural temperature, the top two levels are equal, no level leaves the range of the profile the
    step started from (1e-9 * max|T|), the heat gained by the interior column equals dt times the flux through the
    lowest interface, and the profile solves the system handed to invert (residual within 64 ulp per row)."""
    core.repo_python_path()
    from uwg.RSMDef import RSMDef
    o_vdm = RSMDef.__dict__['vdm']
    o_eq = RSMDef.__dict__['diffusion_equation']
    o_inv = RSMDef.__dict__['invert']
    last = {}

    def spy_inv(nz, A, C):
        last['sys'] = (copy.deepcopy(A), list(C))
        return o_inv.__func__(nz, A, C)

    def spy_eq(nz, dt, co, da, daz, cd, dz):
        args = (nz, dt, list(co), list(da), list(daz), list(cd), list(dz))
        r = o_eq.__func__(nz, dt, co, da, daz, cd, dz)
        last['eq'] = args + (list(r),)
        return r

    def vdm(self, forc, rural, parameter, simTime):
        hyp = rsmcoef.live_hyps(self, forc, parameter, simTime)
        sink('vdm:hypotheses', ('hypotheses of vdm_max_principle violated before the call: ' + '; '.join(hyp)) if hyp else None)
        pre = list(self.tempProf)
        last.clear()
        out = o_vdm(self, forc, rural, parameter, simTime)
        x, n = list(self.tempProf), self.nzref
        start = [forc.temp] + pre[1:]
        scale = max(abs(v) for v in start + x)
        tol = 1e-9 * scale
        lo, hi = min(start[:n - 1]), max(start[:n - 1])
        msg = None
        if 'eq' not in last:
            msg = 'vdm returned without solving the diffusion equation'
        elif not all(v == v and abs(v) != float('inf') for v in x):
            msg = 'non-finite temperature profile'
        elif x[0] != forc.temp:
            msg = 'lowest level %r is not the measured rural air temperature %r (h_temp %r, level of the sensor nz0 = %r)' % (
                x[0], forc.temp, ctx.get('h_temp'), getattr(self, 'nz0', None))
        elif abs(x[n - 1] - x[n - 2]) > tol:
            msg = 'top two levels differ: %r vs %r' % (x[n - 1], x[n - 2])
        elif min(last['eq'][5]) >= 0 and not all(lo - tol <= v <= hi + tol for v in x):
            i = [not (lo - tol <= v <= hi + tol) for v in x].index(True)
            msg = 'level %d = %r outside [%r, %r] of the profile the step started from' % (i, x[i], lo, hi)
        else:
            nz, _dt, _co, da, daz, cd, dz, res = last['eq']
            # the statement is about the step the model takes: the profile the step started from and the time step of
            # the simulation (not whatever profile / dt the last kernel call happened to be given)
            co, dt = start, simTime.dt
            if res != x:
                msg = 'the profile kept by the object is not the solution returned by diffusion_equation (first ' \
                      'difference at level %d)' % [a != b for a, b in zip(res, x)].index(True)
            else:
                cddz1 = 2 * daz[1] * cd[1] / (dz[1] + dz[0])
                lhs = sum(da[i] * dz[i] * (x[i] - co[i]) for i in range(1, nz - 1))
                rhs = dt * cddz1 * (x[0] - x[1])
                cap = sum(da[i] * dz[i] for i in range(1, nz - 1))
                if abs(lhs - rhs) > 1e-9 * cap * scale:
                    msg = 'interior heat content changed by %r but the flux through the lowest interface supplied %r ' \
                          '(rural obstacle height %r: displacement height %r, lowest level %r m)' % (
                              lhs, rhs, ctx.get('h_obs'), getattr(self, 'disp', None), self.z[0])
                elif 'sys' in last:
                    msg = float_residual_msg(last['sys'][0], last['sys'][1], x, 'row') or \
                        V4.whole_step_msg(n, dt, start, x, da, daz, cd, dz, rel=1e-9)
        sink('vdm:' + ('unstable' if rural.sens > 1e-2 else 'stable'), msg)
        return out
    RSMDef.vdm = vdm
    RSMDef.diffusion_equation = staticmethod(spy_eq)
    RSMDef.invert = staticmethod(spy_inv)

    def undo():
        RSMDef.vdm = o_vdm
        RSMDef.diffusion_equation = o_eq
        RSMDef.invert = o_inv
    return undo


def u4_after_generate(m, spec, sink, ctx):
    ctx['h_temp'], ctx['h_obs'] = m.h_temp, m.h_obs
    hyp = rsmcoef.grid_ok(m.RSM.nzref, m.RSM.z, m.RSM.dz)
    sink('generate:grid', None if hyp else 'the grid of the generated RSM object violates GridOK')


U4_HOOKS = U4.Hooks(install=u4_install, after_generate=u4_after_generate,
                    kernels=[('uwg.RSMDef', 'RSMDef', 'vdm', (1, 2, 3, 4)),
                             ('uwg.RSMDef', 'RSMDef', 'diffusion_coefficient', (2, 3, 10, 11)),
                             ('uwg.RSMDef', 'RSMDef', 'diffusion_equation', (2, 3, 4, 5, 6))])


def circumstance_ties(chk, quick):
    work = chk.work()
    par_t, epw_t = U4.toronto()
    scen = [U4.make_spec('singapore 1 Jan, sensor at 10 m (nz0 = 3), rural obstacles 5 m (displacement height above the '
                         'lowest level)', month=1, day=1, nday=1, dtsim=300, h_temp=10.0, h_obs=5.0),
            U4.make_spec('singapore 1 Jul, shipped heights (h_temp 2, h_obs 0.1)', month=7, day=1, nday=1, dtsim=300)]
    if not quick:
        scen += [U4.make_spec('toronto 10 Jan, sensor at 30 m, obstacles 15 m, wind mast 50 m', epw=epw_t, param=par_t,
                              month=1, day=10, nday=2, dtsim=300, zone='5A', h_temp=30.0, h_obs=15.0, h_wind=50.0),
                 U4.make_spec('singapore 30 Apr, h_temp 2.5, h_obs 3.9, dt 150', month=4, day=30, nday=2, dtsim=150,
                              h_temp=2.5, h_obs=3.9),
                 U4.make_spec('singapore 1 Oct, dt 225 (a legal time step that no shipped file uses)', month=10, day=1,
                              nday=1, dtsim=225, h_temp=6.0),
                 U4.make_spec('singapore 10 Feb, dt 80', month=2, day=10, nday=1, dtsim=80)]
    counts, nbad, _ = U4.live_battery(
        chk, 'C16', U4_HOOKS, scen, U4.others_default(work), 'C16 statement on the vdm steps of live runs',
        full=1 if quick else len(scen), required=('vdm:', 'generate:grid'))
    chk.direct('C16-circumstances(live runs: observers, logging, -O, CLI, other models, caller data)',
               sum(counts.values()), len(scen),
               'oracle = around every real vdm call: hypotheses of vdm_max_principle before; after it lowest level = '
               'measured rural temperature (exact), top two levels equal, no level outside the range of the profile the '
               'step started from (1e-9 max|T|), interior heat gain = dt x flux through the lowest interface, the profile '
               'kept by the object is the one diffusion_equation returned and solves the system handed to invert (64 '
               'ulp per row). Kernel routines rendered around their calls: RSMDef.vdm (forcing, rural element, '
               'parameters, clock read-only), diffusion_coefficient (grid and profile read-only), diffusion_equation '
               '(all five lists read-only). Scenarios with the sensor above the first level and obstacles taller than '
               'the first level: %s. %s' % ('; '.join(s_['label'] for s_ in scen), U4.BATTERY_RULE),
               mismatches=nbad, branches=counts)


# ----------------------------------------------------------------------------- check
def run(chk):
    chk.proof(MODULE, THEOREMS, extra_modules=[MODULE_COEF])
    if chk.tier == 'thorough':
        chk.leanchecker([MODULE, MODULE_COEF])
    pkg = fracexec.load()
    quick = chk.tier == 'quick'

    # ---- diffusion_equation
    cases = [gen_diff(chk.rng, nz=nn) for nn in range(3, 61) for _ in ((0, 1) if quick else range(6))]
    cases += [gen_diff(chk.rng, nz=chk.rng.randint(3, 30)) for _ in range(300 if quick else 3000)]
    cases += [gen_diff(chk.rng, nz=nn, cdk=k) for nn in (3, 4, 17) for k in sorted(set(CD_KINDS))]   # sorted: set order depends on PYTHONHASHSEED
    cases += [gen_diff(chk.rng, nz=chk.rng.randint(3, 24), mag=m) for m in MAG_KINDS
              for _ in range(20 if quick else 200)]
    cases += [gen_malformed(chk.rng) for _ in range(300 if quick else 3000)]
    # tall columns, exact: both sides of 256 / 257 / 258 levels (small numbers keep the rational elimination cheap)
    tall_nz = (129, 256, 257, 258, 259, 300) if quick else tuple(
        nn for nn in W4.TALL_NZ_THOROUGH if 60 < nn <= 640) + (256, 257, 258, 259, 1000)
    cases += [W4.gen_tall_exact(chk.rng, nn) for nn in tall_nz]
    results, caps = [], []
    for cs in cases:
        cap = []
        results.append(impl_diff(pkg, cs, cap))
        caps.append(cap)
    pairs = [(line_diff(cs), fmt(r)) for cs, r in zip(cases, results)]
    kinds = {line_diff(cs): cs['kind'] if cs['kind'] != 'valid' else 'valid/cd-' + cs['cdk'] +
             ('/' + cs['mag'] if cs.get('mag') else '') + ('/' + cs['tall'] if cs.get('tall') else '') for cs in cases}
    dn = [diffusion_number(cs) for cs in cases if cs['kind'] == 'valid' and cs.get('mag')]
    chk.measurements['diffusion_number_range(small / large families)'] = {
        'smallest_nonzero': float(min(v[0] for v in dn if v[0] > 0)), 'largest': float(max(v[1] for v in dn)),
        'cases_with_an_entry_below_1e-10': sum(1 for v in dn if 0 < v[0] < F(1, 10 ** 10))}
    chk.correspond(
        'RSMDef.diffusion_equation~diffusion', 'C16', pairs,
        rule='fractionised RSMDef.diffusion_equation vs Lean `diffusion` (guard in Python '
             'evaluation order + rows + checked solver) on profiles with nz = 3..60 (every count), '
             'cd with zeros / all zero / large, uniform / step / spike / ramp / random profiles, '
             'plus edge and malformed calls (nz = 0,1,2, short lists, zero spacing or density, '
             'negative coefficients, two simultaneous faults); steps written in very small / very large numbers '
             '(weak mixing at every level or only aloft, cd x 1e-3..1e-30; a very short step, dt x 1e-3..1e-30; a '
             'very coarse / very fine grid, dz x 1e3..1e12 / 1e-3..1e-10; cd x 1e3..1e20): the diffusion number '
             'K*dt/dz^2 ranges over sixty orders of magnitude; tall columns in small numbers (spacings 1..10 m, integer '
             'kelvins) with %s levels: both sides of 256 / 257 / 258 (branches .../tall/nz<=256, nz=257, nz>=258); '
             'exact equality of the rational '
             'profile or of the error class; non-trivial = non-error result' % (sorted(set(tall_nz)),),
        classify=lambda line, impl: kinds.get(line, '?'))
    bad = 0
    for cs, r, cap in zip(cases, results, caps):
        msg = oracle_diff(cs, r, cap)
        if msg:
            bad += 1
            if bad <= 3:
                chk.violation('impl-violation', 'C16 oracle on RSMDef.diffusion_equation',
                              case=case_json(cs), observed=msg,
                              expected='bottom = co[0], top two equal, min/max principle, interior '
                                       'heat change = dt*lowest-interface flux, zero residual')
    chk.direct('diffusion-oracle(RSMDef.diffusion_equation)', len(cases),
               sum(1 for r in results if not isinstance(r, str)),
               'C16 statement (bottom, top, bounds, conservation, zero residual of the system handed '
               'to invert) evaluated on the exact result of the real diffusion_equation; bounds only '
               'for admissible inputs, the identities for every call that returns with nz >= 2',
               mismatches=bad,
               branches={k: sum(1 for c in cases if c['kind'] == k)
                         for k in sorted(set(c['kind'] for c in cases))})

    # ---- the two solvers
    systems = [gen_system(chk.rng, n=nn) for nn in range(1, 61)]
    systems += [gen_system(chk.rng, n=chk.rng.randint(1, 25)) for _ in range(300 if quick else 3000)]
    systems += [gen_system(chk.rng, n=nn, kind='zero-pivot') for nn in (1, 2, 3, 7)]
    systems += [gen_scaled_system(chk.rng, kind=k) for k in SCALED_KINDS for _ in range(40 if quick else 400)]
    systems += [dict(A=[], C=[], kind='empty', n=0)]
    skinds = {line_sys(sy): sy['kind'] for sy in systems}
    for name, cls in (('RSMDef.invert', rsm_class()), ('Element.invert', element_class())):
        res = [impl_invert(cls, sy) for sy in systems]
        chk.correspond(
            name + '~solve', 'C16', [(line_sys(sy), fmt(r)) for sy, r in zip(systems, res)],
            rule='fractionised %s vs Lean `solveChecked` on tridiagonal systems with 1..60 '
                 'unknowns: strictly diagonally dominant (positive and negative diagonals, '
                 'off-diagonals of both signs), M-matrix rows, arbitrary rows, planted zero '
                 'pivots (ZeroDivisionError on both sides); dominant systems written in very small / very large '
                 'numbers (whole system or single rows x 1e-30..1e20, off-diagonals 1e-3..1e-30 times the '
                 'diagonal in all or some rows); exact equality' % name,
            classify=lambda line, impl: skinds.get(line, '?'))
        bad = 0
        for sy, r in zip(systems, res):
            if isinstance(r, str):
                msg = ('strictly diagonally dominant system raises %s' % r
                       if sy['kind'] in DOMINANT else None)
            else:
                msg = residual_msg(sy['A'], sy['C'], r)
            if msg:
                bad += 1
                if bad <= 2:
                    chk.violation('impl-violation', 'exact-solution oracle on ' + name,
                                  case=case_json(sy), observed=msg, expected='A x = C exactly')
        chk.direct('residual-oracle(%s)' % name, len(systems),
                   sum(1 for r in res if not isinstance(r, str)),
                   'A x = C checked exactly on the result of the real solver', mismatches=bad,
                   branches={k: sum(1 for s in systems if s['kind'] == k)
                             for k in sorted(set(s['kind'] for s in systems))})

    float_solver_oracles(chk, quick)
    float_tall_columns(chk, quick)

    # ---- live profiles (floats; sanity only, with a tolerance that rounding cannot reach)
    coef_rec, hyp_rec = [], []
    rec, badl, shapes, crash = live_profiles(chk, ndays=1 if quick else 7, coef_rec=coef_rec,
                                             hyp_rec=hyp_rec)
    if crash:
        chk.notes.append('live simulation stopped early with %s after %d diffusion calls' % (
            crash, len(rec)))
        chk.measurements['live_crash'] = crash
    for k, msg, co, x in badl[:2]:
        chk.violation('impl-violation', 'live vdm profile (float run, Singapore, call %d)' % k,
                      case={'co': co, 'result': x}, observed=msg,
                      expected='bottom = forcing temperature, top two equal, no new extremum '
                               '(tolerance 1e-9*max|T|)')
    chk.direct('live-profiles(RSM.vdm)', len(rec), len(rec),
               'every call of RSMDef.diffusion_equation during a real float simulation '
               '(initialize_singapore.uwg): bottom, top and bounds within 1e-9*max|T|',
               mismatches=len(badl), branches=shapes)
    if not quick:
        # the same through the public model with a FINER mesoscale height file (UWG.Z_MESO_PATH is what the model hands
        # to RSMDef(..., z_meso_path)): 0.5 m levels, so the 150 m reference height is level 301
        fine = os.path.join(chk.work(), 'z_meso_live_fine.txt')
        W4.write_z_meso(fine, 0.5, 320.0)
        rec2, bad2, shapes2, crash2 = live_profiles(chk, ndays=1, setup=lambda m: setattr(m, 'Z_MESO_PATH', fine))
        if crash2:
            chk.notes.append('live simulation with the fine height file stopped early with %s after %d diffusion calls' % (
                crash2, len(rec2)))
        for k, msg, co, x in bad2[:2]:
            chk.violation('impl-violation', 'live vdm profile (float run, Singapore, Z_MESO_PATH = a file with 0.5 m '
                          'levels, call %d)' % k,
                          case={'run': 'initialize_singapore.uwg, 1 day, m.Z_MESO_PATH = height file 0, 0.5, .. 320 m then '
                                       'stretched by 1.25 up to 1500 m', 'levels': len(co), 'co (lowest 6, top 3)': co[:6] + co[-3:],
                                'result (lowest 6, top 3)': x[:6] + x[-3:], 'model stopped with': crash2},
                          observed=msg, expected='bottom = forcing temperature, top two equal, no new extremum '
                                                 '(tolerance 1e-9*max|T|)')
        chk.direct('live-profiles(RSM.vdm, finer z_meso file through UWG.Z_MESO_PATH)', len(rec2), len(rec2),
                   'every call of RSMDef.diffusion_equation during a real float simulation whose mesoscale height file '
                   'has 0.5 m levels (rural column of 301 levels, urban column accordingly): bottom, top and bounds '
                   'within 1e-9*max|T|', mismatches=len(bad2), branches=shapes2)
        if not rec2 and not crash2:
            raise core.Infra('the live run with the fine height file never called diffusion_equation')
    # live diffusion_coefficient: min(Kt) >= 0, te >= 0.01, grid hypotheses at the real call site
    badc = []
    lb = {}
    for k, c in enumerate(coef_rec):
        tag = ('unstable' if c['heat'] > 1e-2 else 'stable') + ('' if c['grid_ok'] else '|grid-not-ok')
        lb[tag] = lb.get(tag, 0) + 1
        msg = None
        if not all(v == v and abs(v) != float('inf') for v in c['kt']):
            msg = 'non-finite Kt'
        elif min(c['kt']) < 0:
            msg = 'min(Kt) = %r < 0' % min(c['kt'])
        elif c['te'] is not None and min(c['te']) < 0.01:
            msg = 'min(te) = %r < 0.01' % min(c['te'])
        elif not c['grid_ok']:
            msg = 'the grid handed to diffusion_coefficient violates GridOK'
        elif len(c['kt']) != c['nz'] + 1:
            msg = 'Kt has %d entries for nz = %d' % (len(c['kt']), c['nz'])
        elif c['te'] is not None and any(
                abs(c['kt'][i] - 0.4 * min(c['dlu'][i], c['dld'][i]) * c['te'][i] ** 0.5) >
                1e-12 * max(1.0, abs(c['kt'][i])) for i in range(c['nz'])):
            msg = 'Kt is not 0.4*min(dlu, dld)*sqrt(te)'
        if msg:
            badc.append((k, msg, c))
    for k, msg, c in badc[:2]:
        chk.violation('impl-violation', 'live diffusion_coefficient (float run, Singapore, dtSim 300, '
                      'call %d)' % k, case={k2: c[k2] for k2 in ('nz', 'heat', 'uref', 'kt', 'te')},
                      observed=msg, expected='min(Kt) >= 0, finite, min(te) >= 0.01, GridOK at the call')
    chk.direct('live-coefficients(RSM.diffusion_coefficient)', len(coef_rec), len(coef_rec),
               'every call of RSMDef.diffusion_coefficient during the same real float simulation '
               '(the RSM object): min(Kt) >= 0 and finite, te >= 0.01, nz+1 entries, Kt = '
               '0.4*min(dlu, dld)*sqrt(te), the grid passed satisfies GridOK (in doubles)', mismatches=len(badc), branches=lb)
    badh = [(k, b) for k, b in enumerate(hyp_rec) if b]
    for k, b in badh[:1]:
        chk.violation('impl-violation', 'hypotheses of vdm_max_principle at a live vdm call (call %d)' % k,
                      case={'call': k}, observed='violated: ' + '; '.join(b),
                      expected='StepHyp holds before every vdm call of a real run (vdm_step_preserves)')
    chk.direct('live-hypotheses(RSM.vdm)', len(hyp_rec), len(hyp_rec),
               'StepHyp of Props/C16Coef.lean (list lengths, positive temperatures / top pressure / '
               'spacings / constants / forcing, GridOK, nzref >= 2, dt >= 0) evaluated in doubles on the '
               'object right before every real vdm call of the same simulation (first call = state '
               'left by the constructor)', mismatches=len(badh))
    chk.measurements['live_coefficient_calls'] = len(coef_rec)
    if coef_rec:
        chk.measurements['live_min_Kt'] = min(min(c['kt']) for c in coef_rec)
        chk.measurements['live_min_te'] = min(min(c['te']) for c in coef_rec if c['te'])
    chk.measurements['live_calls'] = len(rec)
    chk.measurements['live_list_lengths(co,da,daz,cd,dz)'] = shapes
    chk.assumptions.append(
        'diffusion_equation and both invert functions are exercised through fracexec (exact '
        'rationals); rounding of doubles is outside the theorems (the live float run is a sanity '
        'check with tolerance, not part of the proof)')
    chk.notes.append('theorems are proved for nz >= 2 (the property asks nz >= 3); with nz = 1 the '
                     'code returns [0] and with nz = 0 it raises IndexError')

    circumstance_ties(chk, quick)

    # ---- the real vdm in doubles at every legal simulation time step (whole-step oracle)
    rsmcoef.run_all_timesteps(chk)

    # ---- second part: where cd, da, daz come from (diffusion_coefficient, vdm)
    rsmcoef.run_coef(chk)


def replay(chk, path):
    v = json.load(open(path))
    if isinstance(v.get('case'), dict) and 'scenario' in v['case']:
        # a finding of the circumstance ties: the scenarios derive from the seed, re-run them
        core.repo_python_path()
        circumstance_ties(chk, chk.tier == 'quick')
        for x in chk.violations[:3]:
            print('observed:', str(x['observed'])[:600])
        if chk.violations:
            print('VIOLATION property=C16 replay=%s' % path)
        return 1 if chk.violations else 0
    r = rsmcoef.replay_case(v['case'])
    if r is not None:
        print(r[1])
        if not r[0]:
            print('VIOLATION property=C16 replay=%s' % path)
        return 0 if r[0] else 1
    cs = case_unjson(v['case'])
    pkg = fracexec.load()
    if 'A' in cs:
        bad = []
        for name, cls in (('RSMDef.invert', rsm_class()),
                          ('Element.invert', element_class())):
            r = impl_invert(cls, cs)
            msg = residual_msg(cs['A'], cs['C'], r) if not isinstance(r, str) else r
            print('%s: %s' % (name, msg or 'exact solution'))
            bad.append(msg)
        ok = not any(bad)
    elif 'nz' in cs:
        cap = []
        r = impl_diff(pkg, cs, cap)
        msg = oracle_diff(cs, r, cap)
        print('diffusion_equation: %s' % (msg or 'property holds on this input'))
        ok = msg is None
    else:
        print('live replay: rerun bin/check C16')
        return 2
    if not ok:
        print('VIOLATION property=C16 replay=%s' % path)
    return 0 if ok else 1
