"""C15, inputs - where the exchange weights of the air-node updates come from.

`c15.py` ties the three node updates; their theorems assume `uExch >= 0`, `aeroCond >= 0`,
densities >= 0, areas >= 0, rural wind profile >= 0 and (night) loop count = number of cells.
This module ties the code that PRODUCES those quantities to `lean/UwgVerif/Model/UrbFlux.lean`
(all exact, real source over rationals through fracexec) and evaluates the theorems of
`Props/C15Inputs.lean` on the real results:

* `urbflux` (everything after the road's SurfFlux)   ~ `Uwg.Urb.urbTail`      op `urb`
  driven with a REAL fractionised UCMDef (built by its constructor, so `z0u`, `l_disp`,
  the geometry are the constructor's), a REAL fractionised road Element, SimpleNamespace
  stand-ins for RSM / UBL / forc / parameter / simTime and one inert building stand-in
  (`urbflux` with `BEM = []` raises UnboundLocalError: `e_wall` is only bound inside the loop)
* `Element.SurfFlux` (`aeroCond`, density guard)     ~ `Uwg.Urb.surfHead`     op `surf`
* `UCMDef.__init__` (geometry + z0u, l_disp, ...)    ~ `Uwg.Urb.ucmInit`      op `ucminit`
* `UBLDef.__init__` (numdx, paralLength, cells)      ~ `Uwg.Urb.ublInit`      op `ublinit`
* the wind-profile loop of `RSMDef.vdm`              ~ `Uwg.Urb.rsmWindLoop`  op `rsmwind`
  (real `vdm` on an object built without its constructor; `diffusion_coefficient` replaced by
  an instance attribute returning a chosen `(cd, ustarRur)`)
"""
import importlib
import types
from fractions import Fraction as F

import core
import fracexec
import u4_util as U4
from fracexec import frac_str, frac_list
from props import c13, c14

MODULE = 'UwgVerif.Props.C15Inputs'
THEOREMS = [
    'Uwg.C15.kahan_exact', 'Uwg.C15.dens_pos', 'Uwg.C15.aeroCond_pos', 'Uwg.C15.surfHead_ok',
    'Uwg.C15.ustarMod_ge_wstar', 'Uwg.C15.uExch_nonneg', 'Uwg.C15.uExch_nonneg_real',
    'Uwg.C15.canWind_nonneg', 'Uwg.C15.urbTail_ok',
    'Uwg.C15.areas_pos', 'Uwg.C15.areas_pos_real', 'Uwg.C15.areas_partition', 'Uwg.C15.z0u_ldisp_bounds',
    'Uwg.C15.urban_log_args',
    'Uwg.C15.rsmWind_nonneg', 'Uwg.C15.rsm_windProf_nonneg', 'Uwg.C15.rsmWind_neg_real',
    'Uwg.C15.pyRound_bounds', 'Uwg.C15.loopCount_div', 'Uwg.C15.cells_count',
    'Uwg.C15.cells_count_int', 'Uwg.C15.cells_count_250', 'Uwg.C15.cells_count_fails',
    'Uwg.C15.nightforc_returns', 'Uwg.C15.night_mean_of_constructor',
    'Uwg.C15.canyon_weights_nonneg', 'Uwg.C15.canyon_convex_of_code',
]
NS = types.SimpleNamespace
rq = c14.rq
HUM0 = -F(1000000, 1607858)        # 1 + 1.607858 * hum = 0


def mod(pkg, name):
    return importlib.import_module(pkg.__name__ + '.' + name)


def err_of(e):
    if isinstance(e, ZeroDivisionError):
        return 'err zerodiv'
    if isinstance(e, ValueError):
        return 'err value'
    if isinstance(e, IndexError):
        return 'err index'
    if isinstance(e, TypeError):
        return 'err type'
    raise e


# ================================================================================ UBLDef.__init__
def gen_ublinit(rng):
    out = []
    for m in (250, 250, 100, 30, 7, 3):
        sq = m * m
        for L in (1, 2, m - 1, m, m + 1, m + m // 2, m + m // 2 + 1, 2 * m + m // 2, sq - 2, sq - 1,
                  sq, sq + 1, sq + m // 2, sq + m // 2 + 1, sq + m, 2 * sq):
            if L >= 1:
                out.append((F(L), F(m)))
    for _ in range(120):
        m = rng.choice([250, 250, 250, 100, 400, 1000, 50, 10])
        L = rng.choice([rng.randint(1, 5000), rng.randint(1, 70000), rng.randint(1, 3 * m)])
        out.append((F(L), F(m)))
    for _ in range(40):                       # non-integral lengths, ties, small values
        m = rng.choice([F(250), F(100), F(75, 2), F(1, 2), rq(rng, 1, 300, 4)])
        L = rng.choice([rq(rng, 0, 3000, 4), m * F(rng.randint(1, 9), 2), rq(rng, 0, 3, 8)])
        out.append((L, m))
    out += [(F(0), F(250)), (F(0), F(-5)), (F(10), F(0)), (F(10), F(-4)), (F(10), F(-30)),
            (F(-10), F(250)), (F(1, 2), F(250)), (F(375), F(250)), (F(625), F(250)),
            (F(62499), F(250)), (F(62498), F(250)), (F(62500), F(250))]
    return out


def ublinit_line(L, m):
    return 'ublinit charLength=%s maxdx=%s' % (frac_str(L), frac_str(m))


def impl_ublinit(pkg, L, m):
    try:
        u = mod(pkg, 'UBLDef').UBLDef('C', L, F(290), m, F(1000), F(80))
    except ZeroDivisionError:
        return None, 'err zerodiv'
    ncells = len(u.ublTempdx)
    numdx = F(u.charLength) / F(u.paralLength) if u.paralLength != 0 else None
    if numdx is None or numdx.denominator != 1:
        raise core.Infra('paralLength %s does not divide charLength %s' % (u.paralLength, L))
    try:        # the loop bound exactly as `nightforc` writes it, on the constructor's attributes
        # (a negative bound leaves `range(1, bound)` empty like 0 does; the model reports 0)
        count = str(max(int(u.charLength) // int(u.paralLength), 0))
    except ZeroDivisionError:
        count = 'zerodiv'
    ans = 'ok %s numdx=%d ncells=%d count=%s' % (
        frac_list([u.perimeter, u.urbArea, u.orthLength, u.paralLength]), int(numdx), ncells, count)
    return u, ans


def exact_count_ok(A, n):
    """`cells_count`: the loop bound equals n  iff  A // n >= 1 and A mod n < A // n."""
    return n >= 1 and A // n >= 1 and A % n < A // n


def ublinit_oracle(L, m, u, ans):
    if u is None:
        return None
    n = len(u.ublTempdx)
    if L >= 1 and m > 0:
        if n < 1:
            return 'constructor created %d cells for charLength %s' % (n, L)
        if u.paralLength * n != L or u.paralLength <= 0:
            return 'paralLength %s * %d cells != charLength %s' % (u.paralLength, n, L)
        if 2 * abs(L / min(L, m) - n) > 1:
            return 'pyRound_bounds: %d cells for charLength/min(charLength, maxdx) = %s' % (
                n, float(L / min(L, m)))
        count = ans.split('count=')[1]
        A = int(L)                      # floor for L >= 0
        want = exact_count_ok(A, n)
        got = count == str(n)
        if want != got:
            return 'loop bound %s vs %d cells: criterion (A//n>=1 and A%%n<A//n) says %s' % (
                count, n, want)
        if count != 'zerodiv' and int(count) < n:
            return 'loop bound %s smaller than the number of cells %d' % (count, n)
        if L.denominator == 1 and m.denominator == 1 and 2 * A < 2 * m * m + m and A + 1 != m * m \
                and not got:
            return 'cells_count_int: loop bound %s != %d cells for charLength %s, maxdx %s' % (
                count, n, L, m)
        if L.denominator == 1 and m.denominator == 1 and m >= 3 and A + 1 == m * m and \
                count != str(m + 1):
            return 'cells_count_fails: expected loop bound %s, got %s' % (m + 1, count)
    return None


def float_loop_count_enumeration(upto, maxdx=250.):
    """REAL float constructor for every integer charLength: loop bound vs number of cells."""
    core.repo_python_path()
    import logging
    logging.disable(logging.CRITICAL)
    ub = importlib.import_module('uwg.UBLDef')
    bad, disagree = [], []
    M = int(maxdx)
    for L in range(1, upto + 1):
        u = ub.UBLDef('C', float(L), 290., maxdx, 1000., 80.)
        n = len(u.ublTempdx)
        try:
            ok = int(u.charLength) // int(u.paralLength) == n
        except ZeroDivisionError:
            ok = False
        if not ok:
            bad.append(L)
        nx = round(F(L, min(L, M)))                 # exact arithmetic
        if n != nx or ok != exact_count_ok(L, nx):
            disagree.append(L)
    return bad, disagree


# ================================================================================ UCMDef.__init__
VTH_STEER = [F(1, 10), F(19, 100), F(1, 5), F(21, 100), F(2, 5), F(59, 100), F(3, 5), F(61, 100),
             F(2), F(399, 100), F(4), F(401, 100), F(6)]


def gen_ucminit(rng, kind=None):
    g = c13.gen_geom(rng, 'stub')
    if rng.random() < 0.6:
        g['vth'] = rng.choice(VTH_STEER)
    g['ralb'] = rq(rng, 0, 0.6, 20)
    g['wind'] = rng.choice([F(0), rq(rng, 0, 12, 4)])
    g['windMin'] = rng.choice([F(1), F(0), rq(rng, 0, 3, 4)])
    g['rglaze'] = rq(rng, 0, 0.9, 20)
    g['shgc'] = rq(rng, 0.1, 0.9, 20)
    g['walb'] = rq(rng, 0, 0.7, 20)
    g['kind'] = kind or 'random'
    return g


def ucminit_edges(rng):
    out = []
    for e in c13.edge_geoms():
        g = gen_ucminit(rng, 'edge')
        g.update({k: e[k] for k in ('h', 'dens', 'vth', 'tree', 'veg')})
        out.append(g)
    return out


UCMINIT_KEYS = ('h', 'dens', 'vth', 'tree', 'veg', 'ralb', 'wind', 'windMin', 'rglaze', 'shgc', 'walb')
UCMINIT_ATTRS = ('ublWind', 'canWind', 'ustar', 'ustarMod', 'z0u', 'l_disp', 'facAbsor', 'roadAbsor')


def ucminit_line(g):
    return 'ucminit ' + ' '.join('%s=%s' % (k, frac_str(g[k])) for k in UCMINIT_KEYS)


def mk_road(pkg, ralb, veg, conv=F, layers=2, t=293):
    if conv is F:
        Mat, El = pkg.material.Material, pkg.element.Element
    else:
        Mat, El = pkg.Material, pkg.Element
    return El(conv(ralb), conv(F(9, 10)), [conv(F(1, 2))] * layers,
              [Mat(conv(F(1)), conv(F(10 ** 6)), 'm')] * layers, conv(veg), conv(F(t)), 1, 'road')


def build_ucm(pkg, g, conv=F):
    road = mk_road(pkg, g['ralb'], g['veg'], conv)
    par = NS(windMin=conv(g['windMin']))
    return pkg.UCMDef(conv(g['h']), conv(g['dens']), conv(g['vth']), conv(g['tree']), conv(F(0)),
                      conv(F(0)), conv(F(293)), conv(F(1, 100)), conv(g['wind']), par,
                      conv(g['rglaze']), conv(g['shgc']), conv(g['walb']), road)


def impl_ucminit(pkg, g):
    try:
        u = build_ucm(pkg, g)
    except (ZeroDivisionError, ValueError) as e:
        return None, err_of(e)
    return u, 'ok %s %s' % (frac_list([getattr(u, k) for k in c13.GEOM_ATTRS]),
                            frac_list([getattr(u, k) for k in UCMINIT_ATTRS]))


def ucminit_oracle(g, u):
    """areas_pos, z0u_ldisp_bounds, urban_log_args on the object the real constructor built (the
    stub root (d+1)/2 lies in (0,1) for 0 < d < 1, so the symbol hypothesis holds)."""
    if u is None:
        return None
    h, v = g['h'], g['vth']
    r = (g['dens'] + 1) / 2                  # the stub's value for sqrt(bldDensity)
    if u.roofArea != r * r * (u.roadArea + u.roofArea):
        return 'areas_partition: roofArea %s is not r^2 = %s of the site %s' % (
            float(u.roofArea), float(r * r), float(u.roadArea + u.roofArea))
    if u.facArea * g['dens'] != v * u.roofArea:
        return 'areas_partition: facArea * bldDensity != verToHor * roofArea'
    if 0 < g['dens'] < 1 and h > 0 and v > 0 and g['tree'] >= 0:
        if not (u.roadArea > 0 and u.roofArea > 0 and u.facArea > 0):
            return 'areas not positive: road %s roof %s facade %s' % (
                float(u.roadArea), float(u.roofArea), float(u.facArea))
        if not (0 <= u.roadShad <= 1):
            return 'roadShad %s outside [0,1]' % float(u.roadShad)
    if h > 0 and v >= 0:
        if not (0 <= u.z0u <= F(15, 100) * h):
            return 'z0u %s outside [0, 0.15 h]' % float(u.z0u)
        if not (0 <= u.l_disp < F(399, 400) * h):
            return 'l_disp %s outside [0, 0.9975 h)' % float(u.l_disp)
        if v > 0:
            if not (u.z0u > 0 and u.l_disp > 0):
                return 'z0u / l_disp not positive'
            if not ((2 * h - u.l_disp) / u.z0u > 1 and 2 * h / u.z0u > 1 and
                    (h - u.l_disp) / u.z0u > 0):
                return 'logarithm arguments of urbflux not in range'
    return None


def ldisp_branch(g):
    f = g['vth'] / 4
    return ('f<0.05' if f < F(5, 100) else 'f<0.15' if f < F(15, 100) else 'f<1' if f < 1 else 'f>=1')


# ================================================================================ Element.SurfFlux
def surf_param(conv=F):
    return NS(vegStart=4, vegEnd=10, vegAlbedo=conv(F(1, 4)), grassFLat=conv(F(1, 2)),
              treeFLat=conv(F(7, 10)), waterDens=conv(F(1000)), lv=conv(F(2260000)),
              colburn=conv(F(1)), wgmax=conv(F(1, 200)))


def gen_surf(rng):
    c = dict(pres=rq(rng, 90000, 104000, 1), tempRef=rq(rng, 260, 320, 4),
             humRef=rq(rng, 0, 0.025, 2000), windRef=rng.choice([F(0), rq(rng, 0, 15, 20)]),
             horizontal=rng.choice([0, 1]), month=rng.randint(1, 12))
    c['circ'] = U4.circ_pick(rng)
    return c


def surf_edges(rng):
    out = []
    for kw in (dict(tempRef=F(0)), dict(humRef=HUM0), dict(windRef=-F(2)), dict(windRef=-F(58, 37)),
               dict(pres=F(0))):
        c = gen_surf(rng)
        c.update(kw)
        out.append(c)
    return out


def surf_line(c):
    return 'surf ' + ' '.join('%s=%s' % (k, frac_str(c[k])) for k in ('pres', 'tempRef', 'humRef',
                                                                        'windRef'))


def impl_surf(pkg, c):
    Mat = pkg.material.Material
    e = pkg.element.Element(F(1, 5), F(9, 10), [F(1, 10), F(1, 10)], [Mat(F(1), F(10 ** 6), 'm')] * 2,
                            F(1, 10), F(293), c['horizontal'], 'x')
    par = surf_param()
    par.cp = F(1004)
    forc = NS(pres=c['pres'], deepTemp=F(290), prec=F(0))
    circ = c.get('circ', '')       # circumstance that is no input: Element rendered around the call / DEBUG logging
    try:
        if U4.rendered(circ):
            U4.observe(e)
        with U4.under(circ):
            e.SurfFlux(forc, par, NS(dt=F(300), month=c['month']), c['humRef'], c['tempRef'],
                       c['windRef'], F(1), F(0))
        if U4.rendered(circ):
            U4.observe(e)
    except ZeroDivisionError:
        return 'err zerodiv'
    return 'ok %s' % frac_str(e.aeroCond)


# ================================================================================ urbflux (tail)
URB_FIELDS = ['z0r', 'paralLength', 'ublTemp', 'urbArea', 'wind', 'pres', 'cp', 'windHeight', 'vk',
              'g', 'exCoeff', 'canTemp', 'canHum', 'bldHeight', 'z0u', 'lDisp', 'sensHeat',
              'verToHor']
RSM_LISTS = ['densityProfC', 'dz', 'z', 'tempProf', 'windProf']
URB_OUT = ['advHeat', 'ustar', 'ustarMod', 'uExch', 'canWind', 'turbU', 'turbV', 'turbW']


def gen_urb(rng, kind=None):
    kind = kind or rng.choice(['random', 'random', 'windy', 'hot', 'calm'])
    c = {'kind': kind, 'geom': gen_ucminit(rng), 'override': {}}
    nz = rng.randint(2, 8)
    c['nzref'] = rng.randint(1, nz)
    c['nzfor'] = rng.randint(1, c['nzref'])
    c['dz'] = [rq(rng, 2, 40, 2) for _ in range(nz)]
    z, acc = [], F(0)
    for d in c['dz']:
        z.append(acc + d / 2)
        acc += d
    c['z'] = z
    c['densityProfC'] = [rq(rng, 0.9, 1.3, 100) for _ in range(nz)]
    c['tempProf'] = [rq(rng, 270, 315, 4) for _ in range(nz)]
    c['windProf'] = [rng.choice([F(0), rq(rng, 0, 9, 4)]) for _ in range(nz)]
    c['z0r'] = rng.choice([F(15, 1000), rq(rng, 0.005, 0.9, 200)])
    c['paralLength'] = rq(rng, 50, 1000, 1)
    c['ublTemp'] = rq(rng, 270, 315, 4)
    c['urbArea'] = rq(rng, 10000, 10 ** 7, 1)
    c['wind'] = rq(rng, 0, 15, 4)
    c['pres'] = rq(rng, 90000, 104000, 1)
    c['infra'] = rq(rng, 250, 450, 1)
    c['cp'] = rng.choice([F(1004), rq(rng, 990, 1020, 1)])
    c['windHeight'] = rng.choice([F(10), rq(rng, 2, 30, 2)])
    c['vk'] = rng.choice([F(2, 5), rq(rng, 0.3, 0.5, 100)])
    c['g'] = F('9.81')
    c['exCoeff'] = rng.choice([F(3, 10), rq(rng, 0, 1, 20)])
    c['canTemp'] = rq(rng, 265, 315, 4)
    c['canHum'] = rq(rng, 0.001, 0.025, 2000)
    c['sensHeat'] = rng.choice([rq(rng, -100, 0, 2), rq(rng, 0, 500, 2), F(0)])
    c['canWind0'] = rng.choice([F(0), rq(rng, 0, 6, 20)])
    c['windProf0'] = rng.choice([[], [], [rq(rng, 0, 8, 4) for _ in range(rng.randint(1, 4))]])
    c['month'] = rng.randint(1, 12)
    if kind == 'windy':      # friction velocity above the (stub) convective velocity
        c['wind'] = rq(rng, 20, 400, 1)
        c['sensHeat'] = rq(rng, -50, 5, 2)
    if kind == 'hot':
        c['sensHeat'] = rq(rng, 200, 900, 1)
        c['wind'] = rq(rng, 0, 2, 4)
    if kind == 'calm':
        c['wind'] = F(0)
    c['circ'] = U4.circ_pick(rng)
    return c


def urb_edges(rng):
    out = []

    def mk(**kw):
        c = gen_urb(rng, 'random')
        ov = kw.pop('override', {})
        post = kw.pop('post', None)
        c.update(kw)
        c['override'] = ov
        c['kind'] = 'edge'
        if post:
            post(c)
        out.append(c)
    mk(z0r=F(0))
    mk(z0r=-F(1, 10))
    mk(windHeight=F(0))
    mk(post=lambda c: c.update(windHeight=c['z0r']))                     # log(...) = 0
    mk(override={'z0u': F(0)})
    mk(override={'z0u': -F(1)})
    mk(post=lambda c: c['override'].update(z0u=c['z'][c['nzref'] - 1]))    # log(zref/z0u) = 0
    mk(canTemp=F(0))
    mk(canHum=HUM0)
    mk(post=lambda c: c['override'].update(l_disp=3 * c['geom']['h']))     # log argument < 0
    mk(post=lambda c: c['override'].update(l_disp=2 * c['geom']['h']))     # log argument = 0
    mk(override={'l_disp_from_z0u': True})                                  # log(...) = 0
    mk(pres=F(0))
    mk(cp=F(0))
    mk(vk=F(0))
    mk(urbArea=F(0))
    mk(exCoeff=-F(1, 2))
    mk(post=lambda c: c['z'].__setitem__(c['nzfor'] - 1, -c['dz'][c['nzfor'] - 1] / 2))   # forDens /0
    mk(post=lambda c: c.update(densityProfC=c['densityProfC'][:c['nzfor'] - 1]))
    mk(post=lambda c: c.update(windProf=c['windProf'][:c['nzfor'] - 1]))
    mk(post=lambda c: c.update(tempProf=c['tempProf'][:c['nzfor'] - 1]))

    def short_z(c):
        c['nzref'] = len(c['z']) + 2
    mk(post=short_z)

    def low_level(c):           # an urban wind-profile level whose log argument is negative
        c['nzref'] = max(c['nzref'], 2)
        c['nzfor'] = 1
        c['z'][0] = -F(1000)
    mk(post=low_level)
    return out


def urb_build(pkg, c, conv=F):
    """(UCM, UBL, BEM, forc, parameter, simTime, RSM) for one `urbflux` call."""
    ucm = build_ucm(pkg, c['geom'], conv)
    ucm.canTemp, ucm.canHum = conv(c['canTemp']), conv(c['canHum'])
    ucm.sensHeat = conv(c['sensHeat'])
    ucm.canWind = conv(c['canWind0'])
    ucm.treeLatHeat = conv(F(0))
    ucm.windProf = [conv(x) for x in c['windProf0']]
    for k, v in c['override'].items():
        if k == 'l_disp_from_z0u':
            ucm.l_disp = 2 * ucm.bldHeight - ucm.z0u
        else:
            setattr(ucm, k, conv(v))

    def noop(*a, **k):
        return None
    t = conv(F(295))
    bem = NS(building=NS(BEMCalc=noop, ElecTotal=conv(F(0)), fluxMass=conv(F(0)),
                         fluxRoof=conv(F(0)), fluxWall=conv(F(0))),
             fl_area=conv(F(100)), frac=conv(F(1)),
             roof=NS(emissivity=conv(F(9, 10)), layerTemp=[t], SurfFlux=noop, infra=None),
             wall=NS(emissivity=conv(F(9, 10)), layerTemp=[t], SurfFlux=noop, infra=None),
             mass=NS(Conduction=lambda *a: [t], layerTemp=[t]))
    rsm = NS(nzref=c['nzref'], nzfor=c['nzfor'], z0r=conv(c['z0r']),
             **{k: [conv(x) for x in c[k]] for k in RSM_LISTS})
    ubl = NS(paralLength=conv(c['paralLength']), ublTemp=conv(c['ublTemp']),
             urbArea=conv(c['urbArea']), advHeat=None)
    forc = NS(wind=conv(c['wind']), pres=conv(c['pres']), infra=conv(c['infra']),
              deepTemp=conv(F(290)), prec=conv(F(0)))
    par = surf_param(conv)
    par.cp, par.windHeight, par.vk = conv(c['cp']), conv(c['windHeight']), conv(c['vk'])
    par.g, par.exCoeff = conv(c['g']), conv(c['exCoeff'])
    st = NS(dt=conv(F(300)), month=c['month'])
    return ucm, ubl, [bem], forc, par, st, rsm


def urb_line(c, ucm):
    vals = dict(c)
    vals.update(bldHeight=ucm.bldHeight, z0u=ucm.z0u, lDisp=ucm.l_disp, verToHor=ucm.verToHor)
    s = 'urb nzref=%d nzfor=%d ' % (c['nzref'], c['nzfor'])
    s += ' '.join('%s=%s' % (k, frac_str(F(vals[k]))) for k in URB_FIELDS)
    for k in RSM_LISTS:
        s += ' %s=%s' % (k, frac_list(c[k]))
    return s + ' windProf0=%s' % frac_list(c['windProf0'])


def impl_urb(pkg, c):
    """Run the REAL urbflux over exact rationals: (line, surf_line, result)."""
    try:
        args = urb_build(pkg, c)
    except (ZeroDivisionError, ValueError):
        return None, None, None
    ucm, ubl = args[0], args[1]
    line = urb_line(c, ucm)
    sline = 'surf pres=%s tempRef=%s humRef=%s windRef=%s' % tuple(
        frac_str(x) for x in (c['pres'], c['canTemp'], c['canHum'], c['canWind0']))
    circ = c.get('circ', '')       # circumstance that is no input: UCMDef / UBLDef / road rendered around the call,
    try:                           # DEBUG logging on around it
        if U4.rendered(circ):
            U4.observe(ucm, ubl, getattr(ucm, 'road', None))
        with U4.under(circ):
            mod(pkg, 'urbflux').urbflux(*args)
        if U4.rendered(circ):
            U4.observe(ucm, ubl, getattr(ucm, 'road', None))
    except (ZeroDivisionError, ValueError, IndexError, TypeError) as e:
        return line, sline, err_of(e)
    r = {k: F(getattr(ucm, k)) for k in URB_OUT[1:]}
    r['advHeat'] = F(ubl.advHeat)
    r['windProf'] = [F(x) for x in ucm.windProf]
    r['aeroCond'] = F(ucm.road.aeroCond)
    r['ucm'] = ucm
    return line, sline, r


def urb_fmt(r):
    return r if isinstance(r, str) else 'ok %s %s' % (frac_list([r[k] for k in URB_OUT]),
                                                      frac_list(r['windProf']))


def air_dens(pres, T, hum):
    return pres / (1000 * F(287042, 1000000) * T * (1 + F(1607858, 1000000) * hum))


def urb_oracle(c, r):
    """uExch_nonneg, ustarMod_ge_wstar, canWind_nonneg, aeroCond_pos, dens_pos on the exact
    results of the real urbflux (stub powers: a/3 + 1 and 1 - a/2, both >= 0 on the ranges used,
    so the symbol hypotheses of the theorems hold for the stub)."""
    if isinstance(r, str) or r is None:
        return None
    ucm = r['ucm']
    zref = c['z'][c['nzref'] - 1]
    dens = air_dens(c['pres'], c['canTemp'], c['canHum'])
    if c['pres'] > 0 and c['canTemp'] > 0 and c['canHum'] >= 0 and not dens > 0:
        return 'air density %s not positive' % float(dens)
    if r['ustarMod'] < r['ustar']:
        return 'ustarMod %s below ustar %s' % (float(r['ustarMod']), float(r['ustar']))
    if r['uExch'] != c['exCoeff'] * r['ustarMod']:
        return 'uExch is not exCoeff * ustarMod'
    base_ok = c['g'] >= 0 and zref >= 0 and dens > 0 and c['cp'] > 0 and c['canTemp'] > 0
    if base_ok:
        base = c['g'] * max(c['sensHeat'], 0) * zref / dens / c['cp'] / c['canTemp']
        wstar = base / 3 + 1                 # stub for ** (1/3.)
        if r['ustarMod'] < wstar:
            return 'ustarMod %s below wstar %s' % (float(r['ustarMod']), float(wstar))
        if r['ustarMod'] != max(r['ustar'], wstar):
            return 'ustarMod is neither ustar nor wstar'
        if c['exCoeff'] >= 0 and r['uExch'] < 0:
            return 'uExch %s negative' % float(r['uExch'])
        if 0 <= ucm.verToHor <= 16 and (r['canWind'] < 0 or r['turbU'] < 0 or r['turbW'] < 0):
            return 'canWind / turbulent velocities negative'
    if c['canWind0'] >= 0 and not r['aeroCond'] >= F(58, 10):
        return 'road aeroCond %s below 5.8 for reference wind %s' % (
            float(r['aeroCond']), float(c['canWind0']))
    return None


def urb_branch(c, r):
    if r is None:
        return 'constructor-raised'
    if isinstance(r, str):
        return r.replace(' ', '-')
    return 'ustarMod=ustar' if r['ustarMod'] == r['ustar'] else 'ustarMod=wstar'


FLOAT_EDGES = [
    # what real doubles do where the rational stub cannot raise
    ('verToHor=0: 0.0 ** (-1/2.)', {'override': {'verToHor': F(0)}}),
    ('negative base ** (1/3.) is complex: max() raises TypeError', {'g': -F('9.81'),
                                                                    'sensHeat': F(200)}),
    ('negative base through cp < 0', {'cp': -F(1004), 'sensHeat': F(150)}),
]


def float_edges(chk):
    """Model answer vs the PLAIN float package for the two float-only exceptions."""
    core.repo_python_path()
    up = importlib.import_module('uwg')
    uf = importlib.import_module('uwg.urbflux')
    pairs = []
    for label, kw in FLOAT_EDGES:
        c = gen_urb(chk.rng, 'random')
        c['sensHeat'] = F(100)
        ov = kw.get('override', {})
        c.update({k: v for k, v in kw.items() if k != 'override'})
        c['override'] = dict(ov)
        args = urb_build(up, c, conv=float)
        line = urb_line(c, build_ucm_exact_attrs(c, ov))
        try:
            with core.quiet():
                uf.urbflux(*args)
            ans = 'ok'
        except (ZeroDivisionError, ValueError, IndexError, TypeError) as e:
            ans = err_of(e)
        pairs.append((line, ans, label))
    return pairs


def build_ucm_exact_attrs(c, ov):
    """z0u / l_disp / verToHor as exact rationals (spec of the constructor's piecewise formulas,
    itself tied exactly by the `ucminit` tie) for the protocol line of a float run."""
    g = c['geom']
    f = g['vth'] / 4
    z0u = f * g['h'] if f < F(15, 100) else F(15, 100) * g['h']
    if f < F(5, 100):
        ld = 3 * f * g['h']
    elif f < F(15, 100):
        ld = (F(15, 100) + F(55, 10) * (f - F(5, 100))) * g['h']
    elif f < 1:
        ld = (F(7, 10) + F(35, 100) * (f - F(15, 100))) * g['h']
    else:
        ld = F(1, 2) * g['h']
    return NS(bldHeight=g['h'], z0u=ov.get('z0u', z0u), l_disp=ov.get('l_disp', ld),
              verToHor=ov.get('verToHor', g['vth']))


# ================================================================================ RSMDef.vdm
def gen_rsm(rng, kind=None):
    kind = kind or rng.choice(['random', 'random', 'low-level', 'tall-obstacles'])
    nz = rng.randint(2, 7)
    c = {'kind': kind, 'nzref': nz, 'nzfor': rng.randint(1, nz)}
    c['dz'] = [rq(rng, 1, 20, 2) for _ in range(nz + 1)]
    z, acc = [], F(0)
    for d in c['dz']:
        z.append(acc + d / 2)
        acc += d
    c['z'] = z
    h = rng.choice([F(15, 100), rq(rng, 0.05, 1, 20)])
    if kind == 'tall-obstacles':          # levels below the displacement height: ValueError branch
        h = rq(rng, 2, 30, 2)
    if kind == 'low-level':               # 0 < z - disp < z0r : negative logarithm
        h = z[0] * rng.choice([F(17, 10), F(18, 10), F(19, 10)])
    c['z0r'], c['disp'] = h / 10, h / 2
    c['ustarRur'] = rng.choice([rq(rng, 0, 1, 100), rq(rng, 0, 1, 100), F(0), -rq(rng, 0, 1, 100)])
    c['vk'] = rng.choice([F(2, 5), rq(rng, 0.3, 0.5, 100)])
    c['old'] = [rq(rng, 0, 9, 4) for _ in range(nz)]
    c['tempProf'] = [rq(rng, 280, 305, 4) for _ in range(nz)]
    c['presProf'] = [F(101325) - 12 * int(x) for x in z[:nz]]
    return c


def rsm_edges(rng):
    out = []
    for kw in (dict(vk=F(0)), dict(z0r=F(0)), dict(z0r=-F(1, 10))):
        c = gen_rsm(rng, 'random')
        c.update(kw)
        c['kind'] = 'edge'
        out.append(c)
    c = gen_rsm(rng, 'random')
    c['old'] = c['old'][:-1]
    c['kind'] = 'edge'
    out.append(c)
    return out


def rsm_line(c):
    return 'rsmwind ustarRur=%s vk=%s disp=%s z0r=%s nzref=%d z=%s old=%s' % (
        frac_str(c['ustarRur']), frac_str(c['vk']), frac_str(c['disp']), frac_str(c['z0r']),
        c['nzref'], frac_list(c['z']), frac_list(c['old']))


def impl_rsm(pkg, c):
    """REAL RSMDef.vdm (object built without its constructor; diffusion_coefficient replaced by
    an instance attribute returning the chosen friction velocity)."""
    R = mod(pkg, 'RSMDef').RSMDef
    r = object.__new__(R)
    nz = c['nzref']
    r.nzref, r.nzfor = nz, c['nzfor']
    r.z, r.dz = list(c['z']), list(c['dz'])
    r.z0r, r.disp = c['z0r'], c['disp']
    r.tempProf, r.presProf = list(c['tempProf']), list(c['presProf'])
    r.tempRealProf = [F(0)] * nz
    r.densityProfC = [F(0)] * nz
    r.densityProfS = [F(0)] * (nz + 1)
    r.windProf = list(c['old'])
    cd = [F(1)] * (nz + 1)
    r.diffusion_coefficient = lambda *a: (cd, c['ustarRur'])
    forc = NS(temp=c['tempProf'][0], pres=F(101325), wind=F(3))
    par = NS(r=F(287), cp=F(1004), g=F('9.81'), vk=c['vk'])
    try:
        r.vdm(forc, NS(sens=F(50)), par, NS(dt=F(300)))
    except (ZeroDivisionError, IndexError) as e:
        return err_of(e)
    return [F(x) for x in r.windProf]


def rsm_oracle(c, r):
    """rsm_windProf_nonneg (stub log x = x - 1 >= 0 for x >= 1)."""
    if isinstance(r, str):
        return None
    if len(r) != len(c['old']):
        return 'wind profile changed its length'
    if c['vk'] != 0 and c['z0r'] != 0 and c['ustarRur'] / c['vk'] >= 0:
        args = [(z - c['disp']) / c['z0r'] for z in c['z'][:c['nzref']]]
        if all(a <= 0 or a >= 1 for a in args) and any(w < 0 for w in r):
            return 'negative rural wind %s although every level is caught or >= z0r above disp' % (
                [float(w) for w in r])
    return None


def rsm_branch(c, r):
    if isinstance(r, str):
        return r.replace(' ', '-')
    if c['z0r'] == 0:
        return 'z0r=0'
    args = [(z - c['disp']) / c['z0r'] for z in c['z'][:c['nzref']]]
    k = []
    if any(a <= 0 for a in args):
        k.append('caught')
    if any(0 < a < 1 for a in args):
        k.append('log<0')
    return '+'.join(k) or 'all>=1'


# ================================================================================ live wrappers
LIVE_STATS = {}


def live_install(sink):
    """Wrap urbflux (as bound in uwg.uwg), Element.SurfFlux and RSMDef.vdm of the plain package."""
    def install(uwg_pkg, label):
        um = importlib.import_module('uwg.uwg')
        em = importlib.import_module('uwg.element')
        rm = importlib.import_module('uwg.RSMDef')
        o_urb, o_surf, o_vdm = um.urbflux, em.Element.SurfFlux, rm.RSMDef.vdm
        first = [True]

        def urb(UCM, UBL, BEM, forc, parameter, simTime, RSM):
            T_can, hum = UCM.canTemp, UCM.canHum
            out = o_urb(UCM, UBL, BEM, forc, parameter, simTime, RSM)
            dens = forc.pres / (1000 * 0.287042 * T_can * (1. + 1.607858 * hum))
            msg = None
            if not UCM.uExch >= 0:
                msg = 'urbflux: uExch %r < 0' % UCM.uExch
            elif not UCM.ustarMod >= UCM.ustar:
                msg = 'urbflux: ustarMod %r < ustar %r' % (UCM.ustarMod, UCM.ustar)
            elif not dens > 0:
                msg = 'urbflux: air density %r not positive' % dens
            elif not UCM.road.aeroCond > 0:
                msg = 'urbflux: road aeroCond %r not positive' % UCM.road.aeroCond
            elif not (UCM.canWind >= 0 and UCM.turbU >= 0):
                msg = 'urbflux: canWind %r / turbU %r negative' % (UCM.canWind, UCM.turbU)
            elif not (UCM.roadArea > 0 and UCM.roofArea > 0 and UCM.facArea > 0 and
                      0 <= UCM.roadShad <= 1):
                msg = 'urbflux: canyon areas not positive'
            elif not (0 < UCM.z0u <= 0.15 * UCM.bldHeight * (1 + 1e-12) and
                      0 <= UCM.l_disp < UCM.bldHeight):
                msg = 'urbflux: z0u %r / l_disp %r out of range' % (UCM.z0u, UCM.l_disp)
            for e in BEM:
                if msg is None and not (e.wall.aeroCond > 0 and e.roof.aeroCond > 0):
                    msg = 'urbflux: wall / roof aeroCond not positive'
            sink('urbflux', label, 'ustarMod=ustar' if UCM.ustarMod == UCM.ustar else
                 'ustarMod=wstar', msg)
            st = LIVE_STATS.setdefault(label, {'urbflux_calls': 0})
            st['urbflux_calls'] += 1
            st['nzref'] = RSM.nzref
            st['len_UCM_windProf'] = len(UCM.windProf)
            if first[0]:
                first[0] = False
                n = len(UBL.ublTempdx)
                try:
                    cnt = int(UBL.charLength) // int(UBL.paralLength)
                except ZeroDivisionError:
                    cnt = None
                ok = cnt == n and abs(n * UBL.paralLength - UBL.charLength) <= 1e-9 * UBL.charLength
                sink('ubl-cells', label, 'charLength=%g,cells=%d' % (UBL.charLength, n), None if ok
                     else 'UBL: loop bound %r vs %d cells of %r m (charLength %r)' % (
                         cnt, n, UBL.paralLength, UBL.charLength))
            return out

        def surf(self, forc, parameter, simTime, humRef, tempRef, windRef, boundCond, intFlux):
            o_surf(self, forc, parameter, simTime, humRef, tempRef, windRef, boundCond, intFlux)
            dens = forc.pres / (1000 * 0.287042 * tempRef * (1. + 1.607858 * humRef))
            msg = None
            if not self.aeroCond > 0:
                msg = 'SurfFlux: aeroCond %r not positive (windRef %r)' % (self.aeroCond, windRef)
            elif not dens > 0:
                msg = 'SurfFlux: air density %r not positive' % dens
            elif windRef >= 0 and abs(self.aeroCond - (5.8 + 3.7 * windRef)) > 1e-9 * self.aeroCond:
                msg = 'SurfFlux: aeroCond %r is not 5.8 + 3.7 * %r' % (self.aeroCond, windRef)
            sink('surfflux', label, 'windRef>=0' if windRef >= 0 else 'windRef<0', msg)

        def vdm(self, forc, rural, parameter, simTime):
            o_vdm(self, forc, rural, parameter, simTime)
            neg = any(w < 0 for w in self.windProf[:self.nzref])
            sink('vdm', label, 'windProf-has-negative' if neg else 'windProf>=0', None)
        um.urbflux = urb
        em.Element.SurfFlux = surf
        rm.RSMDef.vdm = vdm

        def undo():
            um.urbflux = o_urb
            em.Element.SurfFlux = o_surf
            rm.RSMDef.vdm = o_vdm
        return undo
    return install


def case_json(c):
    def j(v):
        if isinstance(v, F):
            return str(v)
        if isinstance(v, (list, tuple)):
            return [j(x) for x in v]
        if isinstance(v, dict):
            return {k: j(x) for k, x in v.items()}
        return v
    return j(c)


def unjson(v):
    if isinstance(v, list):
        return [unjson(x) for x in v]
    if isinstance(v, dict):
        return {k: unjson(x) for k, x in v.items()}
    if isinstance(v, str):
        try:
            return F(v)
        except (ValueError, ZeroDivisionError):
            return v
    return v


def replay(what, case, pkg):
    """Re-run one recorded input of the ties of this module; returns the oracle's message, or
    False when `what` is not one of ours."""
    c = unjson(case)
    if 'UBLDef.__init__' in what:
        L, m = c['charLength'], c['maxdx']
        u, ans = impl_ublinit(pkg, L, m)
        print('case   :', ublinit_line(L, m))
        print('result :', ans)
        return ublinit_oracle(L, m, u, ans)
    if 'UCMDef.__init__' in what:
        u, ans = impl_ucminit(pkg, c)
        print('case   :', ucminit_line(c))
        print('result :', ans[:400])
        return ucminit_oracle(c, u)
    if 'Element.SurfFlux' in what:
        ans = impl_surf(pkg, c)
        print('case   :', surf_line(c))
        print('result :', ans)
        if ans.startswith('ok') and c['windRef'] >= 0 and not F(ans[3:]) >= F(58, 10):
            return 'aeroCond %s below 5.8 for windRef %s' % (ans[3:], c['windRef'])
        return None
    if 'oracle on urbflux' in what:
        line, sline, r = impl_urb(pkg, c)
        print('case   :', (line or '')[:600])
        print('result :', urb_fmt(r)[:400] if r is not None else 'constructor raised')
        return urb_oracle(c, r)
    if 'RSMDef.vdm' in what:
        r = impl_rsm(pkg, c)
        print('case   :', rsm_line(c)[:600])
        print('result :', r if isinstance(r, str) else frac_list(r))
        return rsm_oracle(c, r)
    return False


def correspond_batched(chk, driver, ties):
    """Several ties, ONE Lean process: the driver is started once on the union of the protocol
    lines, then `chk.correspond` is called per tie with the answers looked up (the comparison,
    the bookkeeping and the failure handling stay those of `core.Check.correspond`)."""
    real = chk.lean_run
    lines = [l for t in ties for l, _ in t['cases']]
    err, ans = None, {}
    try:
        ans = dict(zip(lines, real(driver, lines)))
    except core.Infra as e:
        err = e

    def looked_up(drv, ls, timeout=1800):
        if err is not None:
            raise err
        return [ans[l] for l in ls]
    chk.lean_run = looked_up
    try:
        for t in ties:
            chk.correspond(t['tie'], driver, t['cases'], rule=t['rule'], classify=t['classify'])
    finally:
        del chk.lean_run


# ================================================================================ run
def run_inputs(chk, pkg, quick):
    rng = chk.rng
    viol = [0]

    def violation(what, case, msg, expected):
        viol[0] += 1
        if viol[0] <= 6:
            chk.violation('impl-violation', what, case=case_json(case), observed=msg,
                          expected=expected)

    # ---------------------------------------------------------------- real code: producers
    pairs_a, cls_a = [], {}
    ub = gen_ublinit(rng)
    ub_res = [impl_ublinit(pkg, L, m) for L, m in ub]
    for (L, m), (u, ans) in zip(ub, ub_res):
        line = ublinit_line(L, m)
        cls_a[line] = 'ublinit/' + ('err' if u is None else 'one-cell' if len(u.ublTempdx) == 1 else
                                    'count=cells' if ans.endswith('count=%d' % len(u.ublTempdx))
                                    else 'count!=cells')
        pairs_a.append((line, ans))
    geos = [gen_ucminit(rng) for _ in range(250 if quick else 2500)] + ucminit_edges(rng)
    geo_res = [impl_ucminit(pkg, g) for g in geos]
    for g, (u, ans) in zip(geos, geo_res):
        line = ucminit_line(g)
        cls_a[line] = 'ucminit/' + ('err' if u is None else ldisp_branch(g))
        pairs_a.append((line, ans))
    surfs = [gen_surf(rng) for _ in range(150 if quick else 1500)] + surf_edges(rng)
    surf_res = [impl_surf(pkg, c) for c in surfs]
    for c, ans in zip(surfs, surf_res):
        line = surf_line(c)
        cls_a[line] = 'surf/' + ('horizontal' if c['horizontal'] else 'vertical') + (
            '/err' if ans.startswith('err') else '')
        pairs_a.append((line, ans))
    rcases = [gen_rsm(rng) for _ in range(200 if quick else 2000)] + rsm_edges(rng)
    rres = [impl_rsm(pkg, c) for c in rcases]
    for c, r in zip(rcases, rres):
        line = rsm_line(c)
        cls_a[line] = 'vdm/' + rsm_branch(c, r)
        pairs_a.append((line, r if isinstance(r, str) else 'ok ' + frac_list(r)))

    cases = [gen_urb(rng) for _ in range(300 if quick else 3000)] + urb_edges(rng)
    res = [impl_urb(pkg, c) for c in cases]
    pairs_b, cls_b = [], {}
    for c, (line, sline, r) in zip(cases, res):
        if line is None:
            continue
        cls_b[line] = '%s/%s' % (c['kind'] if c['kind'] == 'edge' else 'gen', urb_branch(c, r))
        pairs_b.append((line, urb_fmt(r)))
        if isinstance(r, dict):
            cls_b[sline] = 'road.SurfFlux-inside-urbflux'
            pairs_b.append((sline, 'ok %s' % frac_str(r['aeroCond'])))
    fl = float_edges(chk)
    for line, ans, label in fl:
        cls_b[line] = 'float-edge/' + ans.replace(' ', '-')
        pairs_b.append((line, ans))

    # ---------------------------------------------------------------- exact ties (one Lean run)
    correspond_batched(chk, 'C15', [
        dict(tie='UBLDef/UCMDef.__init__,SurfFlux,vdm(windProf)~ublInit,ucmInit,surfHead,'
                 'rsmWindLoop',
             cases=pairs_a, classify=lambda line, impl: cls_a[line],
             rule='fractionised constructors and Element.SurfFlux vs Lean `Uwg.Urb.ublInit` (4 '
                  'lengths, numdx, number of cells, and the loop bound int(charLength)//'
                  'int(paralLength) evaluated on the constructor\'s attributes), `Uwg.Urb.ucmInit` '
                  '(10 geometry attributes + ublWind, canWind, ustar, ustarMod, z0u, l_disp, '
                  'facAbsor, roadAbsor) and `Uwg.Urb.surfHead` (aeroCond; ZeroDivisionError of the '
                  'density); fractionised RSMDef.vdm (object built without its constructor, '
                  'diffusion_coefficient replaced by a stand-in returning the chosen ustarRur) vs '
                  '`Uwg.Urb.rsmWindLoop` (wind profile, ValueError branch -> 0); exact equality or '
                  'equal error class'),
        dict(tie='urbflux(tail)~urbTail',
             cases=pairs_b, classify=lambda line, impl: cls_b[line],
             rule='fractionised urbflux (REAL UCMDef from its constructor, REAL road Element, '
                  'stand-ins for RSM/UBL/forc/parameter and one inert building) vs Lean '
                  '`Uwg.Urb.urbTail` at Q with the shared stubs for log and the two fractional '
                  'powers: exact equality of advHeat, ustar, ustarMod, uExch, canWind, turbU/V/W '
                  'and the appended urban wind profile, or of the error class; road.aeroCond of '
                  'the same call vs `surfHead`; plus %d plain-float calls for the two exceptions '
                  'only doubles raise (0.0**-0.5, complex cube root -> TypeError): error class vs '
                  'the model\'s guard' % len(fl))])

    # ---------------------------------------------------------------- oracles: constructors
    bad = 0
    br = {}
    for (L, m), (u, ans) in zip(ub, ub_res):
        msg = ublinit_oracle(L, m, u, ans)
        k = cls_a[ublinit_line(L, m)]
        br[k] = br.get(k, 0) + 1
        if msg:
            bad += 1
            violation('C15 oracle on UBLDef.__init__ (exact)', {'charLength': L, 'maxdx': m}, msg,
                      'cells_count / cells_count_int / cells_count_fails / pyRound_bounds')
    for g, (u, ans) in zip(geos, geo_res):
        msg = ucminit_oracle(g, u)
        k = cls_a[ucminit_line(g)]
        br[k] = br.get(k, 0) + 1
        if msg:
            bad += 1
            violation('C15 oracle on UCMDef.__init__ (exact)', g, msg,
                      'areas_pos / areas_partition / z0u_ldisp_bounds / urban_log_args')
    for c, ans in zip(surfs, surf_res):
        if ans.startswith('ok') and c['windRef'] >= 0 and not F(ans[3:]) >= F(58, 10):
            bad += 1
            violation('C15 oracle on Element.SurfFlux (exact)', c,
                      'aeroCond %s below 5.8 for windRef %s' % (ans[3:], c['windRef']), 'aeroCond_pos')
    n_a = len(ub) + len(geos) + len(surfs)
    chk.direct('C15-oracle(constructors, SurfFlux, exact)', n_a, n_a,
               'cells_count (loop bound = cells iff A//n>=1 and A mod n < A//n; never smaller), '
               'cells_count_int / _fails on integer inputs, |ratio - cells| <= 1/2, areas_pos, '
               'areas_partition, z0u_ldisp_bounds, urban_log_args, aeroCond_pos on the objects the '
               'real code built', mismatches=bad, branches=br)
    for need in ('ucminit/f<0.05', 'ucminit/f<0.15', 'ucminit/f<1', 'ucminit/f>=1',
                 'ublinit/count!=cells', 'ublinit/count=cells', 'ublinit/one-cell'):
        if br.get(need, 0) < 3:
            raise core.Infra('inputs generator no longer reaches %s (%s)' % (need, br))

    # ---------------------------------------------------------------- oracles: rural wind profile
    bad = 0
    br = {}
    neg = 0
    for c, r in zip(rcases, rres):
        k = rsm_branch(c, r)
        br[k] = br.get(k, 0) + 1
        if isinstance(r, list) and any(w < 0 for w in r) and c['ustarRur'] > 0:
            neg += 1
        msg = rsm_oracle(c, r)
        if msg:
            bad += 1
            violation('C15 oracle on RSMDef.vdm wind profile (exact)', c, msg, 'rsm_windProf_nonneg')
    chk.direct('C15-oracle(vdm wind profile, exact)', len(rcases), len(rcases),
               'rsm_windProf_nonneg on the exact results of the real vdm', mismatches=bad,
               branches=br)
    chk.measurements['rural_wind_negative'] = {
        'what': 'generated vdm calls with ustarRur > 0 whose wind profile has a negative entry '
                '(a level with 0 < (z - disp)/z0r < 1: the logarithm is negative, no exception)',
        'count': neg}
    for need in ('caught', 'log<0', 'all>=1'):
        if not any(need in k for k in br):
            raise core.Infra('vdm generator no longer reaches %s (%s)' % (need, br))

    # ---------------------------------------------------------------- oracles: urbflux
    bad = 0
    br = {}
    for c, (line, sline, r) in zip(cases, res):
        k = urb_branch(c, r)
        br[k] = br.get(k, 0) + 1
        msg = urb_oracle(c, r)
        if msg:
            bad += 1
            violation('C15 oracle on urbflux (exact)', dict(c), msg,
                      'uExch_nonneg / ustarMod_ge_wstar / canWind_nonneg / aeroCond_pos / dens_pos')
    nok = sum(1 for _, _, r in res if isinstance(r, dict))
    chk.direct('C15-oracle(urbflux, exact)', nok, nok,
               'uExch = exCoeff*ustarMod >= 0, ustarMod = max(ustar, wstar), canWind and turbulent '
               'velocities >= 0, road aeroCond >= 5.8, air density > 0 on the exact results of the '
               'real urbflux', mismatches=bad, branches=br)
    for need in ('ustarMod=ustar', 'ustarMod=wstar', 'err-value', 'err-zerodiv', 'err-index'):
        if br.get(need, 0) < 3:
            raise core.Infra('urbflux generator no longer reaches %s (%s)' % (need, br))

    # ---------------------------------------------------------------- float enumeration
    upto = 70000
    badL, disagree = float_loop_count_enumeration(upto)
    chk.measurements['night_loop_count_float'] = {
        'what': 'REAL float UBLDef constructor, maxdx = 250 m, every integer charLength in 1..%d: '
                'charLength values for which int(charLength)//int(paralLength) differs from the '
                'number of cells' % upto,
        'count': len(badL), 'first': badL[:8],
        'agrees_with_exact_criterion': not disagree}
    if disagree:
        violation('float UBLDef constructor vs cells_count', {'charLength': disagree[:5]},
                  'number of cells / loop bound differ from the exact-arithmetic criterion',
                  'cells_count')
    want = [L for L in badL if L <= 62624]
    if want != [62499]:
        violation('cells_count_250 on the float constructor', {'failing': want[:5]},
                  'failing charLength values up to 62624: %s' % want[:8], '[62499]')
    chk.direct('C15-oracle(float UBLDef constructor, L=1..%d)' % upto, upto, upto,
               'loop bound vs number of cells on real float objects; failing set compared with the '
               'exact criterion of cells_count and with cells_count_250 (only 62499 up to 62624)',
               mismatches=len(disagree) + (0 if want == [62499] else 1),
               branches={'equal': upto - len(badL), 'differs': len(badL)})
    chk.notes.append(
        'cells_count_int: for integer charLength A and maxdx M the loop bound equals the number of '
        'cells when A < M^2 + M/2 and A != M^2 - 1; measured on the float constructor (M = 250): '
        'first failing charLength %s, %d failing values up to %d' % (
            badL[0] if badL else None, len(badL), upto))
    chk.assumptions.append(
        'C15 inputs: `log`, `** (1/3.)`, `** (-1/2.)`, `sqrt` are symbols in the model (shared '
        'rational stubs in the ties, real functions in the `_real` theorems); the Kahan '
        'compensation of urbflux is exactly zero in the model (kahan_exact) - what it does under '
        'IEEE rounding is outside the theorems')
