"""C01 - the morphed EPW preserves every rural field it does not model.

Ties (model = lean/UwgVerif/Model/Csv.lean, driver Drv/C01.lean):
  (a) parseLine ~ csv.reader as called by utilities.read_csv, renderRow ~ UWG._csv_field join,
      parseFile ~ the real utilities.read_csv on whole files, endSt ~ "record continues on next line";
  (b) fmtFixed ~ CPython '{0:.{1}f}' on doubles sent as exact rationals;
  (n) defaultName ~ the real new_epw_path property;
  (c) writeEpw ~ the REAL UWG.write_epw driven on synthetic state (no simulation), byte for byte;
  (d) the statement of T2/T3 evaluated independently (python csv) on every file written in (c)/(e),
      rural file hashed before/after;
  (e) real generate/simulate/write_epw runs on the shipped EPW files with the same oracle, and the window
      region compared with writeEpw;
  (m) composition A (props/morph.py, model Model/Morph.lean, theorems Props/Morph.lean): the whole pipeline
      generate; simulate(toy physics); write_epw vs Lean `morph`, complete files byte for byte.
  (y) round 5 (helpers in harness/v1_util.py): output names NEAR the rural name (near_name_family: the stem, other cases
      of the extension, trailing dot / blank, './' spellings ... - a name normalised after the refusal was decided),
      also through the command line; simulate() failed or interrupted at a chosen step, the caller goes on with
      write_epw() (interrupted_family: no partial morph, then the normal sequence equals a fresh object).
"""
import contextlib
import csv
import hashlib
import io
import os
import re
import shutil
import string
import types
from fractions import Fraction as F

import core

MODULE = 'UwgVerif.Props.C01'
THEOREMS = ['Uwg.C01.parse_render_row', 'Uwg.C01.parse_render_single_empty',
            'Uwg.C01.newline_cell_splits', 'Uwg.C01.render_closed',
            'Uwg.C01.parseFile_writeText', 'Uwg.C01.write_preserves', 'Uwg.C01.write_fails_outside',
            'Uwg.C01.fmtFixed_shape', 'Uwg.C01.fmtFixed_plain', 'Uwg.C01.default_name_ne',
            'Uwg.C01.asis_dup_field', 'Uwg.C01.asis_header_split']

COLS = (6, 7, 8, 21)

# ----------------------------------------------------------------------------- line protocol encoding
PLAIN = set(string.ascii_letters + string.digits + '._-')


def enc(s):
    out = []
    for c in s:
        if c in PLAIN:
            out.append(c)
        else:
            assert ord(c) < 128, 'driver protocol is ASCII only'
            out.append('%%%02X' % ord(c))
    return ''.join(out)


def enc_row(r):
    return '%d|%s' % (len(r), ';'.join(enc(c) for c in r))


def enc_rows(rs):
    return '%d:%s' % (len(rs), '/'.join(enc_row(r) for r in rs))


def frac(x):
    x = F(x)
    return '%d/%d' % (x.numerator, x.denominator)


def err_class(e):
    if isinstance(e, IndexError):
        return 'err index'
    if isinstance(e, AssertionError):
        return 'err assert'
    if isinstance(e, ZeroDivisionError):
        return 'err zerodiv'
    if isinstance(e, AttributeError):
        return 'err attr'
    if isinstance(e, (ValueError, TypeError, csv.Error)):
        return 'err value'
    return 'err fatal'


# ----------------------------------------------------------------------------- generators
WEIRD = 'abXz09 .-?*/:;|%_{}()#\t' + ',,,' + '"""'


def gen_cell(rng, weird=0.3):
    k = rng.random()
    if k < 0.12:
        return ''
    if k < 1 - weird:
        return rng.choice(['%d' % rng.randint(-50, 100000), '%.1f' % rng.uniform(-40, 45),
                           '%.4f' % rng.random(), ' %d/%2d' % (rng.randint(1, 12), rng.randint(1, 31)),
                           'C9C9C9C9*0?9?9?9?9?9?9?9*0B8B8B8B8*0*0E8*0*0', '999999999', '9', 'Data'])
    n = rng.choice([1, 1, 2, 3, 4, 6, 10, 25])
    return ''.join(rng.choice(WEIRD) for _ in range(n))


COMMENT1 = ('IWEC- WMO#486980 - South-west Pacific -- Original Source Data (c) 2001 American Society of '
            'Heating, Refrigerating and Air-Conditioning Engineers (ASHRAE), Inc., Atlanta, GA, USA.  '
            'www.ashrae.org  All rights reserved')


def gen_header(rng):
    k = rng.choice([0, 1, 3])
    ground = ['GROUND TEMPERATURES', str(k)]
    for i in range(k):
        ground += [rng.choice(['.5', '2', '4']), '', '', ''] + ['%.2f' % rng.uniform(-5, 30) for _ in range(12)]
    if rng.random() < 0.3:
        ground.append(gen_cell(rng))
    c1 = rng.choice([COMMENT1, COMMENT1 + ' "as is", no warranty', 'plain comment', 'a,b', '"', ',',
                     'say ""hi"", twice', ' leading blank, and comma'])
    hdr = [
        ['LOCATION', rng.choice(['SINGAPORE', 'St. John\'s, NL', 'Frankfurt "Main"', 'X']), '-', 'SGP',
         'IWEC Data', '486980', '%.2f' % rng.uniform(-60, 60), '%.2f' % rng.uniform(-179, 179),
         '%.1f' % rng.randint(-11, 12), '%.1f' % rng.uniform(0, 3000)],
        ['DESIGN CONDITIONS', '1', 'Climate Design Data 2009 ASHRAE Handbook', ''] +
        [gen_cell(rng) for _ in range(rng.randint(0, 12))],
        ['TYPICAL/EXTREME PERIODS', '3', 'No Dry Season - Week Near Average Annual', 'Typical', '7/30',
         '8/ 5'] + [gen_cell(rng) for _ in range(rng.randint(0, 6))],
        ground,
        ['HOLIDAYS/DAYLIGHT SAVINGS', 'No', '0', '0', '0'],
        ['COMMENTS 1', c1] + ([gen_cell(rng)] if rng.random() < 0.2 else []),
        ['COMMENTS 2', ' -- Ground temps produced with a standard soil diffusivity of 2.3225760E-03 '
                       '{m**2/day}'],
        ['DATA PERIODS', '1', '1', 'Data', 'Sunday', ' 1/ 1', '12/31'],
    ]
    return hdr


def gen_rows(rng, nrows, weird):
    ncols = rng.choice([35, 35, 35, 22, 23, 30, 40])
    rows = []
    for i in range(nrows):
        n = ncols if rng.random() < 0.9 else rng.randint(22, 42)
        r = ['1989', str(1 + i // 24 % 12), str(1 + i // 24), str(1 + i % 24), '60']
        r += [gen_cell(rng, weird) for _ in range(n - 5)]
        rows.append(r)
    return rows


def raw_cell(rng, c):
    """One of the spellings of cell `c` that csv.reader accepts ("any header quoting")."""
    must = (',' in c) or c.startswith('"') or ('\n' in c)
    if must or ('"' in c and rng.random() < 0.6) or rng.random() < 0.07:
        return '"' + c.replace('"', '""') + '"'
    return c


def raw_text(rng, table, eol='\n', last_eol=True):
    lines = [','.join(raw_cell(rng, c) for c in r) for r in table]
    return eol.join(lines) + (eol if last_eol else '')


def gen_double(rng, p):
    k = rng.random()
    if k < 0.45:
        return rng.uniform(-60, 120)
    if k < 0.55:
        return float(rng.randint(-50, 400))
    if k < 0.70:   # exact ties at precision p (binary fractions k/2^j with the tie digit 5)
        base = rng.randint(-2000, 2000)
        return (2 * base + 1) / 2.0 / (2 ** rng.choice([0, 1, 2, 3])) if p else base + 0.5
    if k < 0.78:   # negatives that round to zero, and tiny values
        return -rng.random() * 0.5 * 10.0 ** (-p) * rng.choice([1, 0.1, 1e-9, 1e-300])
    if k < 0.86:
        return rng.choice([1, -1]) * rng.random() * 10.0 ** rng.randint(5, 25)
    if k < 0.93:   # decimal ties as written (not exact in binary)
        return rng.randint(-999, 999) / 10.0 ** p + rng.choice([-5, 5]) / 10.0 ** (p + 1)
    return rng.choice([0.0, 0.5, 1.5, 2.5, 0.125, 0.375, 2.675, 1e22, 0.05, 0.15, 0.25, 0.35, 1e-7,
                       -0.04, -0.05, -0.5, 99.95, 100.0, 273.15, 5e-324, 1.7976931348623157e308])


# ----------------------------------------------------------------------------- oracle (T2/T3 on a written file)
def pyparse(path):
    # strict UTF-8: a written file that is not valid UTF-8 cannot be examined (= reported)
    with open(path, 'r', newline='', encoding='utf-8', errors='strict') as f:
        return list(csv.reader(f))


def oracle_file(rural_path, out_path, s, vals, p, rural_hash):
    """The property itself on a written file. vals: list of (tdb, tdp, rh, wind) doubles."""
    try:
        return oracle_file_(rural_path, out_path, s, vals, p, rural_hash)
    except Exception as e:  # noqa
        return 'written file cannot be examined: %s %s' % (type(e).__name__, e)


def oracle_file_(rural_path, out_path, s, vals, p, rural_hash):
    if hashlib.sha256(open(rural_path, 'rb').read()).hexdigest() != rural_hash:
        return 'rural file was modified'
    if os.path.abspath(out_path) == os.path.abspath(rural_path):
        return 'output path equals rural path'
    rural, out = pyparse(rural_path), pyparse(out_path)
    if len(out) != len(rural):
        return 'row count %d != %d' % (len(out), len(rural))
    pat = re.compile(r'^-?\d+\.\d{%d}$' % p if p else r'^-?\d+$')   # -?d+(.d{p})? with the group iff p > 0
    half = F(1, 2 * 10 ** p)
    for i, (a, b) in enumerate(zip(rural, out)):
        if len(a) != len(b):
            return 'line %d: %d fields written, %d in the rural file' % (i, len(b), len(a))
        k = i - 8 - s
        for j, (x, y) in enumerate(zip(a, b)):
            if i >= 8 and 0 <= k < len(vals) and j in COLS:
                v = vals[k][COLS.index(j)]
                if not pat.match(y):
                    return 'line %d field %d: %r is not a decimal number with %d places' % (i, j, y, p)
                if abs(F(y) - F(v)) > half:
                    return 'line %d field %d: %r is not within half a unit of %r' % (i, j, y, v)
            elif x != y:
                return 'line %d field %d: rural %r written as %r' % (i, j, x, y)
    return None


# ----------------------------------------------------------------------------- the real write_epw on synthetic state
class Synth(object):
    """A synthetic rural EPW on disk + a window + results."""
    pass


def make_synth(chk, rng, idx, kind, p=None):
    sy = Synth()
    sy.kind = kind
    sy.dir = os.path.join(chk.work(), 'syn%04d' % idx)
    os.makedirs(sy.dir)
    sy.name = rng.choice(['rural.epw', 'SGP_Singapore.486980_IWEC.epw', 'R.EPW', 'noext', 'a.epw.Epw'])
    sy.path = os.path.join(sy.dir, sy.name)
    nrows = rng.choice([24, 24, 30, 48, 72, 96])
    weird = rng.choice([0.05, 0.3, 0.6])
    sy.hdr = gen_header(rng)
    sy.rows = gen_rows(rng, nrows, weird)
    n = rng.choice([0, 1, 24, 24, 24, 48]) if nrows >= 48 else rng.choice([0, 1, 24, 24])
    s = rng.choice([0, nrows - n, rng.randint(0, nrows - n)])
    sy.wellformed = True
    sy.hdr_cut = None
    if kind == 'overrun':
        s = nrows - n + rng.randint(1, 3)
        n = max(n, 1)
    elif kind == 'shortrow':
        n = max(n, 1)
        s = min(s, nrows - n)
        k = s + rng.randrange(n)
        sy.rows[k] = sy.rows[k][:rng.choice([0, 1, 6, 7, 8, 9, 21])]
        if sy.rows[k] == ['']:
            sy.rows[k] = []
    elif kind == 'blankrow':       # blank line / one-empty-cell row outside the window
        n = min(n, nrows - 2)
        s = min(s, nrows - 2 - n)
        sy.rows[nrows - 1] = rng.choice([[], ['']])
        sy.wellformed = False      # [''] is the documented exception of T1, [] is fine but keep apart
    elif kind == 'hdrcut':
        sy.hdr_cut = rng.randint(0, 7)
    elif kind == 'nlcell':         # a quoted header cell spanning two physical lines: outside well-formedness
        sy.hdr[5][1] = 'first line' + '\n' + sy.hdr[5][1]
        sy.wellformed = False
    sy.s, sy.n = s, n
    sy.p = rng.choice([0, 1, 1, 1, 2, 3, 4, 6]) if p is None else p
    sy.vals = []
    for _ in range(n):
        can = 273.15 + gen_double(rng, sy.p) if rng.random() < 0.8 else gen_double(rng, sy.p)
        sy.vals.append((can, gen_double(rng, sy.p), abs(gen_double(rng, sy.p)), abs(gen_double(rng, sy.p))))
    eol = rng.choice(['\n', '\n', '\r\n'])
    # (an empty last row is only representable with a final end-of-line: without it the file simply has
    #  one line fewer - a generator artefact, not a reader defect)
    text = raw_text(rng, sy.hdr + sy.rows, eol, last_eol=(rng.random() < 0.9) or sy.rows[-1] == [])
    with open(sy.path, 'w', newline='') as f:
        f.write(text)
    sy.text_lf = text.replace('\r\n', '\n')
    sy.hash = hashlib.sha256(open(sy.path, 'rb').read()).hexdigest()
    sy.default_out = rng.random() < 0.5
    return sy


NONASCII = ['Z\u00fcrich-Kloten', 'S\u00e3o Paulo', '\u5317\u4eac', 'ground temps in \u00b0C, \u00a9 2001 ASHRAE \u2013 x',
            '\u00b0', 'na\u00efve "quoted" \u00e9', '\u00c5', '\U0001f321 20\u00b0', 'e\u0301', '\u00a0', '\ufeffx']


def make_utf8(chk, rng, idx):
    """A well-formed rural EPW whose header cells and unmodelled columns hold non-ASCII text (UTF-8 on disk)."""
    sy = make_synth(chk, rng, idx, 'ok')
    sy.kind = 'utf8'
    sy.hdr[0][1] = rng.choice(NONASCII[:3])
    sy.hdr[rng.choice([5, 6])][1] = rng.choice(NONASCII)
    if rng.random() < 0.5:
        sy.hdr[1].append(rng.choice(NONASCII))
    for r in sy.rows:
        if len(r) > 22 and rng.random() < 0.3:
            r[rng.choice([5, 9, len(r) - 1])] = rng.choice(NONASCII)
    text = raw_text(rng, sy.hdr + sy.rows, rng.choice(['\n', '\r\n']), last_eol=True)
    if idx % 3 == 0:
        # round 8: "UTF-8 with signature" - the file starts with a byte-order mark (EF BB BF), as saved by Excel /
        # Notepad; it is content of the first header cell like any other character and must come back
        text = '\ufeff' + text
    with open(sy.path, 'w', newline='', encoding='utf-8') as f:
        f.write(text)
    sy.text_lf = text.replace('\r\n', '\n')
    sy.hash = hashlib.sha256(open(sy.path, 'rb').read()).hexdigest()
    return sy


# characters that are ordinary cell content for a csv reader fed by a text file (records end at LF / CR / CRLF only) but
# that str.splitlines(), some editors and some "read everything, then split" idioms take for line ends
SEPARATORS = ['\x0b', '\x0c', '\x1c', '\x1d', '\x1e', '\x85', '\u2028', '\u2029']


def make_separators(chk, rng, idx, sep):
    """A well-formed rural EPW whose free text holds one such character: in an unquoted COMMENTS cell, inside the
    quoted city name, in a data-source flag cell of a row outside the window and of a row inside it."""
    sy = make_synth(chk, rng, idx, 'ok')
    sy.kind = 'utf8'                     # judged by the oracle only (the line protocol of the model is ASCII)
    sy.sep = sep
    sy.hdr[0][1] = 'Singapore, Changi' + sep + 'Airport'
    sy.hdr[6][1] = ' -- see report p.3' + sep + 'Appendix B'
    if rng.random() < 0.5:
        sy.hdr[5].append('rev' + sep)
    for k in sorted(set([0, len(sy.rows) - 1, min(len(sy.rows) - 1, sy.s + max(sy.n, 1) - 1), rng.randrange(len(sy.rows))])):
        r = sy.rows[k]
        if len(r) > 22:
            r[5] = '?9' + sep + '?9'
    text = raw_text(rng, sy.hdr + sy.rows, rng.choice(['\n', '\r\n']), last_eol=True)
    with open(sy.path, 'w', newline='', encoding='utf-8') as f:
        f.write(text)
    sy.text_lf = text.replace('\r\n', '\n')
    sy.hash = hashlib.sha256(open(sy.path, 'rb').read()).hexdigest()
    return sy


def run_synth(UWG, sy):
    """Drive the real write_epw. Returns (protocol line, impl answer, out_path or None, written values)."""
    if sy.default_out:
        m = UWG(sy.path)
    else:
        outdir = os.path.join(sy.dir, 'out')
        os.makedirs(outdir, exist_ok=True)
        m = UWG(sy.path, new_epw_dir=outdir, new_epw_name='morphed.epw')
    m._read_epw()
    if sy.hdr_cut is not None:
        m._header = m._header[:sy.hdr_cut]
    hdr_in = [list(r) for r in m._header]
    rows_in = [list(r) for r in m.epwinput]
    m.UCMData = [types.SimpleNamespace(canTemp=v[0], Tdp=v[1], canRHum=v[2]) for v in sy.vals]
    m.WeatherData = [types.SimpleNamespace(wind=v[3]) for v in sy.vals]
    m.simTime = types.SimpleNamespace(timeInitial=sy.s + 8)
    m.epw_precision = sy.p
    written = [(v[0] - 273.15, v[1], v[2], v[3]) for v in sy.vals]
    res = '[' + ';'.join(frac(x) for w in written for x in w) + ']'
    line = None if sy.kind == 'utf8' else \
        'write hdr=%s rows=%s s=%d res=%s p=%d' % (enc_rows(hdr_in), enc_rows(rows_in), sy.s, res, sy.p)
    out_path = None
    try:
        with contextlib.redirect_stdout(io.StringIO()):
            m.write_epw()
        out_path = m.new_epw_path
        if sy.kind == 'utf8':
            ans = 'ok'
        else:
            with open(out_path, 'r', newline='') as f:
                ans = 'ok ' + enc(f.read())
    except Exception as e:  # noqa
        ans = err_class(e)
    return line, ans, out_path, written, (hdr_in, rows_in)


# ----------------------------------------------------------------------------- end-to-end runs
def e2e_configs(chk):
    res_epw = os.path.join(core.REPO, 'resources', 'SGP_Singapore.486980_IWEC.epw')
    res_uwg = os.path.join(core.REPO, 'resources', 'initialize_singapore.uwg')
    # (large time steps such as 1800 s trip the simulation's own FATAL ERROR guard: such runs write nothing
    # and are reported as notes, not verdicts)
    cfg = [(res_epw, res_uwg, 3, 5, 1, 300, 1), (res_epw, res_uwg, 1, 1, 1, 600, 2),
           (res_epw, res_uwg, 12, 31, 1, 300, 0), (res_epw, res_uwg, 6, 29, 2, 150, 3)]
    if chk.tier == 'thorough':
        tp = os.path.join(core.REPO, 'tests', 'parameters')
        te = os.path.join(core.REPO, 'tests', 'epw')
        pairs = [('CAN_ON_Toronto.716240_CWEC.epw', 'initialize_toronto.uwg'),
                 # (initialize_beijing/boston.uwg are not accepted by the current reader)
                 ('CHN_Beijing.Beijing.545110_IWEC.epw', 'initialize_singapore.uwg'),
                 ('USA_MA_Boston-Logan.Intl.AP.725090_TMY3.epw', 'initialize_toronto.uwg'),
                 ('USA_PA_Philadelphia.Intl.AP.724080_TMY3.epw', 'initialize_singapore.uwg'),
                 ('SGP_Singapore.486980_IWEC.epw', 'initialize_singapore.uwg')]
        inob = [31, 28, 31, 30, 31, 30, 31, 31, 30, 31, 30, 31]
        for e, u in pairs:
            ep, up = os.path.join(te, e), os.path.join(tp, u)
            if not (os.path.exists(ep) and os.path.exists(up)):
                continue
            for _ in range(4):
                mo = chk.rng.randint(1, 12)
                nd = chk.rng.choice([1, 1, 2, 3])
                dy = chk.rng.randint(1, inob[mo - 1])
                if mo == 12:
                    dy = min(dy, 31 - nd + 1)
                cfg.append((ep, up, mo, dy, nd, chk.rng.choice([60, 100, 150, 200, 300, 300, 300, 400, 600, 600, 900]),
                            chk.rng.choice([0, 1, 1, 2, 3, 5])))
    return cfg


def run_e2e(chk, UWG, idx, cfg):
    epw, uwgf, mo, dy, nd, dt, prec = cfg
    d = os.path.join(chk.work(), 'e2e%03d' % idx)
    os.makedirs(d)
    rural = os.path.join(d, os.path.basename(epw))
    shutil.copy(epw, rural)
    h = hashlib.sha256(open(rural, 'rb').read()).hexdigest()
    m = UWG.from_param_file(uwgf, rural)      # default output dir and name: beside the rural file
    m.month, m.day, m.nday, m.dtsim = mo, dy, nd, dt
    m.epw_precision = prec
    with contextlib.redirect_stdout(io.StringIO()):
        m.generate()
        hdr_in = [list(r) for r in m._header]
        rows_in = [list(r) for r in m.epwinput]
        m.simulate()
        vals = [(u.canTemp - 273.15, u.Tdp, u.canRHum, w.wind) for u, w in zip(m.UCMData, m.WeatherData)]
        s = m.simTime.timeInitial - 8
        m.write_epw()
    out = m.new_epw_path
    msg = None
    if len(vals) != 24 * nd:
        msg = '%d hourly records for %d days' % (len(vals), nd)
    if os.path.dirname(os.path.abspath(out)) != os.path.abspath(d):
        msg = 'default output directory is not the rural directory'
    msg = msg or oracle_file(rural, out, s, vals, prec, h)
    # the window region against the model: 2 rows of context on either side
    lo, hi = max(0, s - 2), min(len(rows_in), s + len(vals) + 2)
    res = '[' + ';'.join(frac(x) for w in vals for x in w) + ']'
    line = 'write hdr=%s rows=%s s=%d res=%s p=%d' % (
        enc_rows(hdr_in), enc_rows(rows_in[lo:hi]), s - lo, res, prec)
    with open(out, 'r', newline='') as f:
        lines = f.read().split('\n')
    ans = 'ok ' + enc('\n'.join(lines[:8] + lines[8 + lo:8 + hi]) + '\n')
    if msg is None:
        # the same finished run written again at other precisions (0..20): the records are the same doubles, the
        # rewritten cells must carry exactly the configured number of decimals each time
        for q in sorted(set(chk.rng.sample(range(0, 21), 1 if chk.tier == 'quick' else 8) + [chk.rng.randint(15, 20)])):
            m.epw_precision = q
            with contextlib.redirect_stdout(io.StringIO()):
                m.write_epw()
            msgq = oracle_file(rural, m.new_epw_path, s, vals, q, h)
            if msgq:
                msg = 'the same run written again with epw_precision = %d: %s' % (q, msgq)
                prec = q
                break
        m.epw_precision = prec
    if msg is None:
        # the same object again with another window: the second file must again differ from the
        # rural file in its own window only (nothing of the first run may leak into it)
        mo2, dy2 = (mo % 12) + 1, 10
        m.month, m.day, m.nday = mo2, dy2, 1
        with contextlib.redirect_stdout(io.StringIO()):
            m.generate()
            m.simulate()
            vals2 = [(u.canTemp - 273.15, u.Tdp, u.canRHum, w.wind) for u, w in zip(m.UCMData, m.WeatherData)]
            s2 = m.simTime.timeInitial - 8
            m.write_epw()
        msg2 = oracle_file(rural, m.new_epw_path, s2, vals2, prec, h)
        if msg2:
            msg = 'second run on the same object (window %d/%d after %d/%d): %s' % (mo2, dy2, mo, dy, msg2)
    case = {'replay_kind': 'e2e', 'rewritten_with_precisions': '0..20 (sample)', 'epw_path': epw, 'uwg_path': uwgf, 'epw': os.path.basename(epw), 'month': mo, 'day': dy, 'nday': nd, 'dtsim': dt,
            'precision': prec, 'window_start_row': s}
    return line, ans, msg, case


# ----------------------------------------------------------------------------- circumstances (round 4)
def circumstances(chk):
    """The property under the six circumstances of harness/generic.py (applied through u1_util): the SAME real
    generate; simulate; write_epw on a copy of a shipped rural file, run plainly / while every reachable object is
    rendered at every stage / with DEBUG logging / in a fresh `python -O` interpreter / through both command-line
    routes (also `python -O -m uwg`) / interleaved with another model that morphs the same rural file / from the
    caller's own dictionary which the caller goes on editing. Every written file is judged by the T2/T3 oracle and
    must be byte-identical to the plain one. Second part: every way of naming the rural file as the output, in a plain
    and in a `python -O` interpreter and through the command line: the rural bytes must not change and the verdict
    (refused / exit status) must be the same in both interpreter modes."""
    import generic as G
    import u1_util as U1
    rng = chk.rng
    thorough = chk.tier == 'thorough'
    work = os.path.join(chk.work(), 'circ')
    os.makedirs(work)
    src_epw = os.path.join(core.REPO, 'resources', 'SGP_Singapore.486980_IWEC.epw')
    scen = [(rng.choice([(3, 5), (6, 29), (10, 14), (1, 1), (12, 31)]), 300)]
    if thorough:
        scen += [((2, 28), 150), ((7, 4), 600), (rng.choice([(4, 30), (9, 9)]), 200)]
    n = bad = 0
    branches = {}
    for si, ((mo, dy), dt) in enumerate(scen):
        d = os.path.join(work, 's%d' % si)
        os.makedirs(d)
        rural = os.path.join(d, 'rural_SGP.epw')
        shutil.copy(src_epw, rural)
        h = hashlib.sha256(open(rural, 'rb').read()).hexdigest()
        sp = U1.spec(rural, attrs=[('month', mo), ('day', dy), ('nday', 1), ('dtsim', dt)],
                     outdir=os.path.join(d, 'out'), outname='morphed.epw')
        other = U1.spec(rural, attrs=[('month', (mo % 12) + 1), ('day', 10), ('nday', 1), ('dtsim', 300),
                                      ('bldheight', 30), ('sensanth', 9)], outdir=os.path.join(d, 'out'),
                        outname='other.epw', label='another model morphing the SAME rural file: other window, other canyon')
        out = U1.run_circumstances(d, sp, other, tag='s%d' % si)
        plain = out[0][1]
        s = 24 * U1.doy0(mo, dy)
        for nm, r, msgs in out:
            n += 1
            branches[nm] = branches.get(nm, 0) + 1
            msg = msgs[0] if msgs else None
            if not msg and r.error:
                msg = 'the run did not complete (%s): %s' % (r.stage, r.error)
            if not msg and plain.records:
                recs = r.records if r.records is not None else plain.records
                vals = [(float(x['u'][0]) - 273.15, float(x['u'][3]), float(x['u'][2]), float(x['w'][1])) for x in recs]
                msg = oracle_file(rural, r.file, s, vals, 1, h)
                if not msg:
                    ap = U1.against_plain(U1.reference_for(out, nm), r)
                    msg = ap and '%s: %r instead of %r' % ap
            if msg:
                bad += 1
                if bad <= 3:
                    chk.violation('impl-violation', 'T2/T3 oracle / byte-equality with the plain run under a circumstance '
                                  'that is not an input (%s)' % nm,
                                  case={'circumstance': nm, 'route': r.route, 'month': mo, 'day': dy, 'nday': 1, 'dtsim': dt,
                                        'epw': 'copy of resources/SGP_Singapore.486980_IWEC.epw', 'epw_precision': 1,
                                        'how': 'harness/u1_util.py run_circumstances(spec)'},
                                  observed=msg, expected='the rural file with fields 6,7,8,21 of the 24 window rows '
                                                         'rewritten - the same bytes as the plain library run')
    chk.direct('T2/T3-oracle under circumstances (observers, DEBUG, python -O, command line, neighbours, caller data)',
               n, n,
               'real generate; simulate; write_epw of one parameter set on a copy of the shipped Singapore file (random '
               'start, 1 day; thorough: 4 starts / time steps) run (1) plainly, (2) while repr / str / ToString of the '
               'model and of EVERY reachable uwg object is taken after construction, after generate(), every 41st step of '
               'simulate(), after simulate() and after write_epw(), (3) with DEBUG logging on the root and uwg loggers, '
               '(4) in a fresh `python -O` interpreter, (5) through `python -m uwg simulate model` (JSON of the real '
               'to_dict, also with every whole number typed without a decimal point) and `simulate param` (.uwg file), also `python -O -m uwg`, (6) interleaved with another model that '
               'morphs the SAME rural file (generated / simulated / written before, between and after), (7) from the '
               'caller\'s own dictionary (JSON round trip), which must come back unchanged from from_dict and is scribbled '
               'over after generate(); records kept from the run must not change when the object is run again. Each '
               'written file: T2/T3 oracle against the rural copy (hashed before / after) and byte-equality with (1)',
               mismatches=bad, branches=branches)

    # ---- every way of naming the rural file as the output x interpreter mode x route --------------------------------
    small = U1.small_epw(src_epw, os.path.join(work, 'small.epw'))
    hows = list(U1.PROTECTED_HOWS)
    full_hows = rng.sample(hows, 2 if not thorough else 5)
    ptext = U1.param_text(U1.spec(src_epw, attrs=[('month', 1), ('day', 1), ('nday', 1), ('dtsim', 300)]))
    puwg = os.path.join(work, 'one_day.uwg')
    with open(puwg, 'w', newline='') as f:
        f.write(ptext)

    def cli_case(how, opt):
        dd = os.path.join(work, 'cli_%s_%s' % (how, 'O' if opt else 'plain'))
        os.makedirs(dd)
        rural = os.path.join(dd, 'rural.epw')
        shutil.copy(src_epw, rural)
        h0 = U1.fhash(rural)
        if how == 'explicit-dir':
            extra = ['--new-epw-dir', dd, '--new-epw-name', 'rural.epw']
        elif how == 'default-dir':
            extra = ['--new-epw-name', 'rural.epw']
        elif how == 'stem-as-name':            # (round 5) the name of the rural file without its extension: another file
            extra = ['--new-epw-name', 'rural']
        elif how == 'stem-as-name, explicit-dir':
            extra = ['--new-epw-dir', dd, '--new-epw-name', 'rural']
        else:
            os.makedirs(os.path.join(dd, 'out'))
            if how == 'hardlinked-name':
                os.link(rural, os.path.join(dd, 'out', 'morphed.epw'))
            else:
                os.symlink(rural, os.path.join(dd, 'out', 'morphed.epw'))
            extra = ['--new-epw-dir', os.path.join(dd, 'out'), '--new-epw-name', 'morphed.epw']
        rc, so, se = G.cli(['simulate', 'param', puwg, rural] + extra, optimize=opt)
        return {'how': 'command line, ' + how, 'raised': None if rc == 0 else 'exit status %d' % rc,
                'rural_unchanged': U1.fhash(rural) == h0, 'message': (se or so).strip().split('\n')[-1][:160]}
    cli_hows = ['explicit-dir', 'symlinked-name'] + (['default-dir', 'hardlinked-name'] if thorough else
                                                      [rng.choice(['default-dir', 'hardlinked-name'])])
    cli_hows += ['stem-as-name', 'stem-as-name, explicit-dir'] if thorough else [rng.choice(['stem-as-name', 'stem-as-name, explicit-dir'])]
    jobs = [lambda: U1.call_child(work, 'u1_util:child_protected',
                                  dict(base=os.path.join(work, 'prot_plain'), hows=hows, source=small, full=False),
                                  optimize=False, tag='prot'),
            lambda: U1.call_child(work, 'u1_util:child_protected',
                                  dict(base=os.path.join(work, 'prot_O'), hows=hows, source=small, full=False),
                                  optimize=True, tag='prot'),
            lambda: U1.call_child(work, 'u1_util:child_protected',
                                  dict(base=os.path.join(work, 'protfull_plain'), hows=full_hows, source=src_epw, full=True),
                                  optimize=False, tag='protfull'),
            lambda: U1.call_child(work, 'u1_util:child_protected',
                                  dict(base=os.path.join(work, 'protfull_O'), hows=full_hows, source=src_epw, full=True),
                                  optimize=True, tag='protfull')]
    for how in cli_hows:
        jobs.append(lambda how=how: [cli_case(how, False)])
        jobs.append(lambda how=how: [cli_case(how, True)])
    res = U1.parallel(jobs, workers=8)
    np_, bp, pb = 0, 0, {}
    for k in range(0, len(res), 2):
        pl, op = res[k], res[k + 1]
        kind = ('synthetic one-hour state' if k == 0 else 'after a real generate + simulate' if k == 2 else 'command line')
        if isinstance(pl, dict) or isinstance(op, dict):      # an interpreter died inside the package
            bp += 1
            chk.violation('impl-violation', 'rural-file protection: a fresh interpreter fails', case={'kind': kind},
                          observed=(pl if isinstance(pl, dict) else op).get('child_error', '')[-400:],
                          expected='the refusal of the plain interpreter')
            continue
        for a, b in zip(pl, op):
            for mode, row in (('python', a), ('python -O', b)):
                np_ += 1
                pb['%s, %s' % (kind, mode)] = pb.get('%s, %s' % (kind, mode), 0) + 1
                problem = None
                if not row['rural_unchanged']:
                    problem = 'the rural file was overwritten'
                elif (a['raised'] is None) != (b['raised'] is None) and mode == 'python -O':
                    problem = 'the verdict depends on the interpreter mode (python: %s; python -O: %s)' % (
                        a['raised'] or 'completed', b['raised'] or 'completed')
                if problem:
                    bp += 1
                    if bp <= 3:
                        chk.violation('impl-violation', 'rural file protected whatever the interpreter mode and the route: '
                                      'the output path names the rural file (%s)' % row['how'],
                                      case={'how the output names the rural file': row['how'], 'interpreter': mode,
                                            'state': kind,
                                            'how': 'harness/u1_util.py child_protected / c01.circumstances cli_case'},
                                      observed='%s (write_epw / the command: %s%s)' % (
                                          problem, row['raised'] or 'returned normally',
                                          ': ' + row.get('message', '') if row.get('message') else ''),
                                      expected='rural bytes unchanged, the same refusal in both interpreter modes')
    chk.direct('rural-file-protected(output path = rural path) x {python, python -O} x {library, command line}', np_, np_,
               'the ten ways of naming the rural file as the output (same spelling, ./ and ../, symlinked directory, '
               'symlinked / chained / relative-symlinked / hard-linked name, rural file given through a symlink) with a '
               'synthetic one-hour state, %d of them after a real generate + simulate, each in a plain and in a `python -O` '
               'interpreter (asserts stripped); and %s through `python [-O] -m uwg simulate param --new-epw-dir/--new-epw-'
               'name` (stem-as-name: the name of the rural file without its extension - ANOTHER file, which a name '
               'normalisation after the refusal must not turn into the rural file): the rural bytes are hashed before / after '
               'and must not change, and the verdict (refused / exit '
               'status) must be the same in both interpreter modes' % (len(full_hows), ', '.join(cli_hows)),
               mismatches=bp, branches=pb)



# ----------------------------------------------------------------------------- round 5: names near the rural name
def near_name_family(chk, UWG):
    """Output names NEAR the rural name. The refusal "the output is the rural file itself" is decided on one spelling of
    the output path; whatever the writer does to the name afterwards (appending an extension, trimming, changing case)
    must not turn an accepted name into the rural file. Every case: a synthetic rural file under one of several names
    (with / without / with an unusual extension), the real write_epw with new_epw_name derived from it (the stem, the
    stem + '.', other cases of the extension, the extension doubled, a trailing blank, the last character dropped,
    './' spellings, ...) and new_epw_dir = None / the rural directory / a dotted spelling of it: the rural bytes must not
    change; if write_epw returns, the file it reports is judged by the T2/T3 oracle."""
    import v1_util as V
    rng = chk.rng
    big = chk.tier == 'thorough'
    n = bad = 0
    br = {}
    idx = 9500
    for rname in V.RURAL_NAMES:
        cands = V.near_names(rname)
        for lab, oname in cands:
            dirs = ['default', 'rural-dir', 'dotted'] if big else [rng.choice(['default', 'rural-dir', 'dotted'])]
            for dk in dirs:
                idx += 1
                sy = make_synth(chk, rng, idx, 'plain')
                newp = os.path.join(sy.dir, rname)
                os.rename(sy.path, newp)
                sy.name, sy.path = rname, newp
                ndir = None if dk == 'default' else sy.dir if dk == 'rural-dir' else os.path.join(sy.dir, '.', '')
                m = UWG(sy.path, new_epw_dir=ndir, new_epw_name=oname)
                m._read_epw()
                m.UCMData = [types.SimpleNamespace(canTemp=273.15 + v[0], Tdp=v[1], canRHum=v[2]) for v in sy.vals]
                m.WeatherData = [types.SimpleNamespace(wind=v[3]) for v in sy.vals]
                m.simTime = types.SimpleNamespace(timeInitial=sy.s + 8)
                m.epw_precision = sy.p
                written = [((273.15 + v[0]) - 273.15, v[1], v[2], v[3]) for v in sy.vals]
                raised = None
                try:
                    with contextlib.redirect_stdout(io.StringIO()):
                        m.write_epw()
                except Exception as e:  # noqa: BLE001
                    raised = '%s: %s' % (type(e).__name__, str(e)[:120])
                n += 1
                same = os.path.realpath(os.path.join(sy.dir, oname)) == os.path.realpath(sy.path)
                br['names the rural file (refused)' if same else 'another file'] = br.get(
                    'names the rural file (refused)' if same else 'another file', 0) + 1
                msg = None
                if hashlib.sha256(open(sy.path, 'rb').read()).hexdigest() != sy.hash:
                    msg = 'the rural file was modified (write_epw %s; it reports the output path %r)' % (
                        'raised ' + raised if raised else 'returned normally', m.new_epw_path)
                elif raised is None:
                    msg = oracle_file(sy.path, m.new_epw_path, sy.s, written, sy.p, sy.hash)
                elif not same:
                    msg = 'write_epw refused an output name that is not the rural file: %s' % raised
                if msg:
                    bad += 1
                    if bad <= 3:
                        chk.violation('impl-violation', 'rural file protected / morph written for an output name near the rural '
                                      'name (%s)' % lab,
                                      case={'replay_kind': 'near-name', 'rural file name': rname, 'new_epw_name': oname, 'how the name is derived': lab,
                                            'new_epw_dir': {'default': None, 'rural-dir': '<directory of the rural file>',
                                                            'dotted': '<directory of the rural file>/./'}[dk],
                                            'window_start_row': sy.s, 'hours': sy.n, 'precision': sy.p,
                                            'how': 'harness/props/c01.py near_name_family (synthetic state, the real write_epw)'},
                                      observed=msg, expected='rural bytes unchanged; the written file is the rural file with '
                                                             'fields 6,7,8,21 of the window rows rewritten')
    chk.direct('rural-file-protected(output names NEAR the rural name)', n, n,
               'the real write_epw (synthetic state) with new_epw_name derived from the name of the rural file - rural names '
               'with the usual extension, an upper-case / mixed-case one, two extensions, a foreign last extension, none at '
               'all (%d names) x the stem, the stem + ".", the stem + .epw / .EPW / .Epw, the name + .epw / .EPW / .bak, the '
               'name without its last character, with a trailing blank, in upper / lower / swapped case, the stem + '
               '.epw.epw, "./" spellings, the stem + _UWG, the stem of the stem - x new_epw_dir None / the rural directory / '
               'a dotted spelling (quick: one of the three at random). Where the name is another spelling of the rural file the '
               'call must be refused; otherwise it must succeed. Always: rural bytes unchanged (hash), and the file reported '
               'by new_epw_path after the call passes the T2/T3 oracle' % len(V.RURAL_NAMES), mismatches=bad, branches=br)


# ----------------------------------------------------------------------------- round 5: failed / interrupted simulate()
def interrupted_family(chk, UWG):
    """simulate() fails or is interrupted at a chosen step (an Exception as the building model raises it, ValueError,
    ZeroDivisionError, and the BaseExceptions KeyboardInterrupt / SystemExit / GeneratorExit, MemoryError), the caller
    catches it and calls write_epw() all the same: no file may claim to be the morph of the window unless every hour of
    the window was simulated (the call raises and nothing is written, an earlier file stays as it was) and the rural file
    is untouched. Then the normal sequence generate(); simulate(); write_epw() on the SAME object: the file passes the
    T2/T3 oracle and equals, byte for byte, the file of a fresh object."""
    import v1_util as V
    import u1_util as U1
    rng = chk.rng
    big = chk.tier == 'thorough'
    work = os.path.join(chk.work(), 'intr')
    os.makedirs(work)
    src_epw = os.path.join(core.REPO, 'resources', 'SGP_Singapore.486980_IWEC.epw')
    res_uwg = os.path.join(core.REPO, 'resources', 'initialize_singapore.uwg')
    n = bad = 0
    br = {}

    def model(rural, outdir, name, mo, dy, nd, dt, prec):
        m = UWG.from_param_file(res_uwg, rural, new_epw_dir=outdir, new_epw_name=name)
        m.month, m.day, m.nday, m.dtsim = mo, dy, nd, dt
        m.epw_precision = prec
        return m

    def vals_of(m):
        return [(u.canTemp - 273.15, u.Tdp, u.canRHum, w.wind) for u, w in zip(m.UCMData, m.WeatherData)]

    def report(what, case, observed, expected):
        nonlocal bad
        bad += 1
        if bad <= 3:
            chk.violation('impl-violation', what, case=case, observed=observed, expected=expected)

    scen = 1 if not big else 3
    for si in range(scen):
        d = os.path.join(work, 's%d' % si)
        os.makedirs(d)
        rural = U1.small_epw(src_epw, os.path.join(d, 'rural_first_weeks.epw'), nrows=24 * 21)
        rural_rows = pyparse(rural)
        h0 = hashlib.sha256(open(rural, 'rb').read()).hexdigest()
        nd = rng.choice([1, 2, 2, 3])
        dy = rng.randint(1, 18)
        dt = rng.choice([300, 600, 900, 450])
        prec = rng.choice([0, 2, 3, 4])          # (the rural text has one decimal in the dry-bulb column)
        s = 24 * (dy - 1)
        N = 24 * nd
        # the fresh object: what the normal sequence must give (physics stubbed here and there alike)
        fresh = model(rural, os.path.join(d, 'fresh'), 'morph.epw', 1, dy, nd, dt, prec)
        os.makedirs(os.path.join(d, 'fresh'))
        with core.quiet():
            fresh.generate()
            with V.failing_physics(fresh, None):
                fresh.simulate()
            fresh.write_epw()
        fresh_bytes = open(fresh.new_epw_path, 'rb').read()
        fmsg = oracle_file(rural, fresh.new_epw_path, s, vals_of(fresh), prec, h0)
        if fmsg:
            report('T2/T3 oracle on a run with the physics stubbed', {'month': 1, 'day': dy, 'nday': nd, 'dtsim': dt,
                                                                      'precision': prec}, fmsg, 'a morph of the window')
        kinds = list(V.FAILURES) if big else rng.sample(V.FAILURES[:3], 2) + rng.sample(V.FAILURES[3:], 3)
        for ki, (kname, make) in enumerate(kinds):
            point = V.FAIL_POINTS[(ki + si) % len(V.FAIL_POINTS)] if not big else rng.choice(V.FAIL_POINTS)
            if nd == 1 and point == V.FAIL_POINTS[5]:
                point = V.FAIL_POINTS[1]
            h = rng.randint(1, N - 2)
            at_step, at_rec = V.fail_step(point, h, dt, nd)
            earlier = (ki % 2 == 0)
            od = os.path.join(d, 'k%d' % ki)
            os.makedirs(od)
            m = model(rural, od, 'morph.epw', 1, dy, nd, dt, prec)
            case = {'replay_kind': 'interrupted', 'rural file': 'first three weeks of resources/SGP_Singapore.486980_IWEC.epw', 'month': 1, 'day': dy,
                    'nday': nd, 'dtsim': dt, 'epw_precision': prec, 'failure': kname,
                    'raised': point.replace('hour h', 'hour %d' % h) + (' (step %d)' % at_step if at_step else ''),
                    'an earlier complete run of the same object had written the output file': earlier,
                    'how': 'harness/props/c01.py interrupted_family; v1_util.failing_physics (physics stubbed, the loop, the '
                           'records and write_epw are real)'}
            earlier_bytes = None
            with core.quiet():
                if earlier:                                  # a complete earlier run (another window) wrote the file
                    m.day = dy + 1 if dy < 18 else dy - 1
                    m.generate()
                    with V.failing_physics(m, None):
                        m.simulate()
                    m.write_epw()
                    earlier_bytes = open(m.new_epw_path, 'rb').read()
                    m.day = dy
                m.generate()
            failed = None
            with V.failing_physics(m, make, at_step=at_step, at_record=at_rec):
                try:
                    with core.quiet():
                        m.simulate()
                except BaseException as e:  # noqa: BLE001 - this is the caller who catches everything
                    failed = type(e).__name__
            n += 1
            br[kname.split('(')[0]] = br.get(kname.split('(')[0], 0) + 1
            if failed is None:
                report('simulate() swallowed an exception raised inside a step', case, 'simulate() returned normally',
                       'the exception reaches the caller')
                continue
            wrote = None
            try:
                with core.quiet():
                    m.write_epw()
                wrote = 'returned normally'
            except BaseException as e:  # noqa: BLE001
                wrote = 'raised %s' % type(e).__name__
            outp = os.path.join(od, 'morph.epw')
            now = open(outp, 'rb').read() if os.path.exists(outp) else None
            have = [x for x in (getattr(m, 'UCMData', None) or []) if x is not None]
            problem = None
            if hashlib.sha256(open(rural, 'rb').read()).hexdigest() != h0:
                problem = 'the rural file was modified'
            elif wrote == 'returned normally' and len(have) < N:
                k, first_same = (V.window_rows_rewritten(rural_rows, pyparse(outp), s, N) if now is not None else (None, None))
                problem = ('write_epw() returned normally although simulate() had failed after %d of %d hours: the file it '
                           'wrote has %s of the %d window rows rewritten (first window row left as in the rural file: hour %s)'
                           % (len(have), N, k, N, first_same))
            elif wrote != 'returned normally' and now != earlier_bytes:
                problem = ('write_epw() %s and left %s under the output name' % (
                    wrote, 'a file' if earlier_bytes is None else 'another content than the earlier complete file'))
            if problem:
                report('no partial morph after a failed / interrupted simulate()', case, problem,
                       'write_epw() raises and writes nothing (an earlier file stays as it was), or writes the complete morph')
                continue
            # the normal sequence on the same object
            try:
                with core.quiet():
                    m.generate()
                    with V.failing_physics(m, None):
                        m.simulate()
                    m.write_epw()
                msg = oracle_file(rural, m.new_epw_path, s, vals_of(m), prec, h0)
                if not msg and open(m.new_epw_path, 'rb').read() != fresh_bytes:
                    msg = 'the file differs from the file of a fresh object with the same parameters'
            except Exception as e:  # noqa: BLE001
                msg = 'the normal sequence raised %s: %s' % (type(e).__name__, str(e)[:160])
            if msg:
                report('generate(); simulate(); write_epw() on an object whose previous simulate() was interrupted', case, msg,
                       'the same file as a fresh object writes')
    if big:
        # un-stubbed members: the package's own fail-stop (shipped Singapore parameters, dtsim = 900, hour 41 of 72), and a
        # KeyboardInterrupt in the middle of a real run followed by the normal sequence (compared with a fresh real run)
        d = os.path.join(work, 'real')
        os.makedirs(d)
        rural = os.path.join(d, 'rural.epw')
        shutil.copy(src_epw, rural)
        rural_rows = pyparse(rural)
        h0 = hashlib.sha256(open(rural, 'rb').read()).hexdigest()
        for (label, dt, nd, make, at) in [('the building model\'s own FATAL ERROR (dtsim = 900)', 900, 3, None, None),
                                          ('KeyboardInterrupt in a real run', 300, 1, V.FAILURES[3][1], rng.randint(30, 250)),
                                          ('SystemExit in a real run', 300, 2, V.FAILURES[4][1], rng.randint(290, 570))]:
            od = os.path.join(d, label.split(' ')[0])
            os.makedirs(od)
            prec = rng.choice([2, 3])
            m = model(rural, od, 'morph.epw', 1, 1, nd, dt, prec)
            case = {'replay_kind': 'interrupted', 'rural file': 'resources/SGP_Singapore.486980_IWEC.epw', 'month': 1, 'day': 1,
                    'nday': nd, 'dtsim': dt, 'epw_precision': prec, 'failure': label, 'raised': 'step %s' % at,
                    'how': 'harness/props/c01.py interrupted_family (un-stubbed members)'}
            failed = None
            with core.quiet():
                m.generate()
            ctx = V.failing_physics(m, make, at_step=at, stub=False) if make else contextlib.nullcontext()
            with ctx:
                try:
                    with core.quiet():
                        m.simulate()
                except BaseException as e:  # noqa: BLE001
                    failed = '%s: %s' % (type(e).__name__, str(e)[:60])
            n += 1
            br['un-stubbed'] = br.get('un-stubbed', 0) + 1
            if failed is None:
                chk.notes.append('interrupted family: the un-stubbed run "%s" completed (no failure to study)' % label)
                continue
            N = 24 * nd
            try:
                with core.quiet():
                    m.write_epw()
                wrote = 'returned normally'
            except BaseException as e:  # noqa: BLE001
                wrote = 'raised %s' % type(e).__name__
            outp = os.path.join(od, 'morph.epw')
            have = [x for x in (getattr(m, 'UCMData', None) or []) if x is not None]
            problem = None
            if hashlib.sha256(open(rural, 'rb').read()).hexdigest() != h0:
                problem = 'the rural file was modified'
            elif wrote == 'returned normally' and len(have) < N:
                k, first_same = V.window_rows_rewritten(rural_rows, pyparse(outp), 0, N) if os.path.exists(outp) else (None, None)
                problem = ('write_epw() returned normally although simulate() had failed (%s) after %d of %d hours: the file has '
                           '%s of the %d window rows rewritten (first window row left as in the rural file: hour %s)'
                           % (failed, len(have), N, k, N, first_same))
            elif wrote != 'returned normally' and os.path.exists(outp):
                problem = 'write_epw() %s and left a file under the output name' % wrote
            if problem:
                report('no partial morph after a failed / interrupted simulate()', case, problem,
                       'write_epw() raises and writes nothing, or writes the complete morph')
                continue
            if make:
                fr = model(rural, os.path.join(od, 'fresh'), 'morph.epw', 1, 1, nd, dt, prec)
                os.makedirs(os.path.join(od, 'fresh'))
                try:
                    with core.quiet():
                        fr.generate(); fr.simulate(); fr.write_epw()
                        m.generate(); m.simulate(); m.write_epw()
                    msg = oracle_file(rural, m.new_epw_path, 0, vals_of(m), prec, h0)
                    if not msg and open(m.new_epw_path, 'rb').read() != open(fr.new_epw_path, 'rb').read():
                        msg = 'the file differs from the file of a fresh object with the same parameters'
                except Exception as e:  # noqa: BLE001
                    msg = None
                    chk.notes.append('interrupted family: the un-stubbed normal sequence raised %s' % str(e)[:80])
                if msg:
                    report('generate(); simulate(); write_epw() on an object whose previous simulate() was interrupted', case, msg,
                           'the same file as a fresh object writes')
    chk.direct('no partial morph after a failed / interrupted simulate(); then the normal sequence = a fresh object', n, n,
               'a copy of the first three weeks of the Singapore file, random start day, 1-3 days, dt 300 / 450 / 600 / 900, '
               'epw_precision 0 / 2 / 3 / 4; the real generate(), the real step loop, records and write_epw with the physics '
               'stubbed; inside simulate() a kernel raises - quick: two of Exception("FATAL ERROR...") / ValueError / '
               'ZeroDivisionError and three of KeyboardInterrupt / SystemExit / GeneratorExit / MemoryError (thorough: all, three '
               'scenarios) - in the first step / in the middle of an hour / in the step that completes an hour / inside the '
               'psychrometrics call of a record / in the last step / in the first step of day 2; every other member after a '
               'complete earlier run of the same object had written the output file. The caller catches (BaseException) and '
               'calls write_epw(): it must raise, nothing may appear under the output name (an earlier file keeps its bytes), '
               'rural hash unchanged - or the complete morph is written; then generate(); simulate(); write_epw() on the same '
               'object: T2/T3 oracle and byte-equality with a fresh object', mismatches=bad, branches=br)


# ----------------------------------------------------------------------------- run
def run(chk):
    from props import morph, pipeline
    chk.proof(MODULE, THEOREMS + morph.THEOREMS + pipeline.THEOREMS, extra_modules=[morph.MODULE, pipeline.MODULE])
    if chk.tier == 'thorough':
        chk.leanchecker([MODULE, morph.MODULE])
    from uwg import UWG
    from uwg import utilities
    rng = chk.rng
    big = chk.tier == 'thorough'
    rd = utilities.csv_reader

    # ---------------------------------------------------------------- (a) reader / writer on lines
    lines = []
    alpha = 'a,"'
    maxlen = 7 if not big else 8
    level = ['']
    for _ in range(maxlen + 1):
        lines += level
        level = [w + c for w in level for c in alpha]
    for _ in range(1500 if not big else 12000):
        n = rng.choice([1, 3, 5, 8, 12, 20, 40])
        lines.append(''.join(rng.choice('ab1 .-,,,"""\t;') for _ in range(n)))
    table_rows = []
    pool = ['', 'a', ',', '"', 'a,"', ' ', '""', '"a"', ' "x" ', 'a"b']
    for a in [[]] + [[x] for x in pool] + [[x, y] for x in pool for y in pool]:
        table_rows.append(a)
    for _ in range(800 if not big else 6000):
        table_rows.append([gen_cell(rng, rng.choice([0.2, 0.9])) for _ in range(rng.choice([1, 2, 3, 5, 9, 35]))])
    hdr_like = gen_header(rng)
    table_rows += hdr_like
    csv_field = getattr(UWG, '_csv_field', None)
    if csv_field is None:
        # the helper write_epw used is gone: this tie cannot be evaluated as written; the
        # write_epw ties below still decide the property on concrete files
        chk.corr_problems.append({'tie': '_csv_field-join~renderRow', 'case': None,
                                  'impl': 'UWG._csv_field does not exist', 'model': 'renderCell'})
        csv_field = lambda c: '{}'.format(c)  # noqa
    rendered = [','.join(csv_field(c) for c in r) for r in table_rows]
    lines += rendered
    pa = []
    for l in lines:
        try:
            recs = list(rd([l], delimiter=','))
            ans = 'ok ' + enc_row(recs[0]) if len(recs) == 1 else 'err value'
        except Exception as e:  # noqa
            ans = err_class(e)
        pa.append(('parse l=' + enc(l), ans))

    def cls_line(line, impl):
        l = line.split('l=', 1)[1]
        return ('quote-inside' if '%22' in l and not l.startswith('%22') else
                'quoted' if '%22' in l else 'comma-only' if '%2C' in l else 'plain')
    chk.correspond('csv.reader~parseLine', 'C01', pa,
                   rule='the reader function utilities.read_csv calls (csv.reader, delimiter=",") on one '
                        'physical line vs Lean parseLine: every string over {a , "} up to length %d, random '
                        'strings with stray/unterminated quotes (malformed stream - the model claims every '
                        'line without CR/LF), and every line produced by the real writer; exact equality of '
                        'the field lists' % maxlen,
                   nontrivial=lambda line, impl: impl not in ('ok 0|', 'ok 1|'), classify=cls_line)
    oc = []
    for l in lines:
        recs = list(rd([l + '\n', 'x\n'], delimiter=','))
        oc.append(('endst l=' + enc(l), 'ok open' if len(recs) == 1 else 'ok closed'))
    chk.correspond('record-continues~endSt', 'C01', oc,
                   rule='csv.reader continues the record on the next physical line iff Lean endSt = quoted',
                   nontrivial=lambda line, impl: '%22' in line, classify=lambda line, impl: impl[3:])
    ra = [('render cells=' + enc_row(r), 'ok ' + enc(t)) for r, t in zip(table_rows, rendered)]
    chk.correspond('_csv_field-join~renderRow', 'C01', ra,
                   rule="','.join(UWG._csv_field(c) for c in row) (the expression write_epw uses; the whole "
                        "write_epw is tie c) vs Lean renderRow on rows of generated cells (all rows of <=2 "
                        "cells over a pool with quotes/commas/blanks, random rows up to 35 cells, a header "
                        "with a COMMENTS cell containing commas)",
                   nontrivial=lambda line, impl: len(impl) > 3,
                   classify=lambda line, impl: 'needs-quoting' if '%22' in impl else 'plain')
    # T1 on the implementation: read(write(row)) = row except [''].
    bad = 0
    for r, t in zip(table_rows, rendered):
        if any('\n' in c or '\r' in c for c in r):
            continue
        back = list(rd([t], delimiter=','))[0]
        want = [] if r == [''] else r
        if back != want:
            bad += 1
            if bad <= 2:
                chk.violation('impl-violation', 'T1 parse_render_row on _csv_field/csv.reader',
                              case={'replay_kind': 'row', 'row': r},
                              observed={'written': t, 'read_back': back}, expected=want)
    chk.direct('T1-oracle(write then read one row)', len(table_rows), len(table_rows) - 2,
               'csv.reader(join(_csv_field)) = row for every generated row except [\'\']', mismatches=bad)

    # ---------------------------------------------------------------- (b) fixed-point formatting
    fa = []
    seen_branch = {}
    for _ in range(2500 if not big else 25000):
        p = rng.choice([0, 1, 1, 2, 3, 4, 5, 6])
        x = gen_double(rng, p)
        if x == 0 and str(x).startswith('-'):
            continue      # -0.0 has no rational counterpart
        q = F(x)
        fa.append(('fmt num=%d den=%d p=%d' % (q.numerator, q.denominator, p), 'ok ' + enc('{0:.{1}f}'.format(x, p))))
    # every precision 0..20 (a double carries ~17 significant digits; the digits beyond are those of its exact
    # binary value and must still be printed: "at the configured precision")
    for p in range(0, 21):
        for _ in range(24 if not big else 200):
            x = gen_double(rng, p)
            if x == 0 and str(x).startswith('-'):
                continue
            q = F(x)
            fa.append(('fmt num=%d den=%d p=%d' % (q.numerator, q.denominator, p),
                       'ok ' + enc('{0:.{1}f}'.format(x, p))))
    for x, p in [(0.125, 2), (0.375, 2), (2.5, 0), (3.5, 0), (0.5, 0), (1.5, 0), (-0.5, 0), (-0.04, 1),
                 (-0.05, 1), (1e22, 1), (2.675, 2), (0.0, 1), (0.0, 0), (99.95, 1), (-1e-300, 3), (5e-324, 6)]:
        q = F(x)
        fa.append(('fmt num=%d den=%d p=%d' % (q.numerator, q.denominator, p), 'ok ' + enc('{0:.{1}f}'.format(x, p))))

    def cls_fmt(line, impl):
        a = dict(w.split('=') for w in line.split()[1:])
        q = F(int(a['num']), int(a['den'])) * 10 ** int(a['p'])
        t = 'tie' if (q - q.__floor__()) == F(1, 2) else 'no-tie'
        if impl.startswith('ok -0') and set(impl[4:]) <= set('0.'):
            t += ',negative-zero'
        return 'p=%s,%s' % ('0' if a['p'] == '0' else '1..6' if int(a['p']) <= 6 else '7..15' if int(a['p']) <= 15
                            else '16..20', t)
    chk.correspond("'{0:.{1}f}'~fmtFixed", 'C01', fa,
                   rule="CPython '{0:.{1}f}'.format(x, p) (the format string of write_epw) on generated doubles "
                        "vs Lean fmtFixed on the exact rational value of the double, p in 0..6 (bulk) and every p in "
                        "0..20: uniform values, integers, exact binary ties, negatives rounding to zero, 1e5..1e25, "
                        "denormals",
                   classify=cls_fmt)

    # ---------------------------------------------------------------- (n) default output name
    names = ['abc.epw', 'ABC.EPW', 'x.Epw', '.epw', 'epw', 'a.epw.epw', 'a.ep', 'a.epw ', 'a_UWG.epw', '',
             'a.b.c', 'aepw', 'a.EPW_UWG.epw', 'w', 'pw', '.ePw', 'SGP_Singapore.486980_IWEC.epw', 'a b.epw',
             'a,b.epw', 'x.epwx', 'E.PW', 'a.ePW']
    for _ in range(150 if not big else 1500):
        names.append(''.join(rng.choice('ab.ePpWw_ ') for _ in range(rng.randint(0, 9))) +
                     rng.choice(['', '.epw', '.EPW', '.ePw', 'epw', '.epw_']))
    na, nbad = [], 0
    for nm in names:
        m = UWG()
        m._epw_path = os.path.join('/nonexistent-dir', nm)
        try:
            newp = m.new_epw_path
            d, newn = os.path.split(newp)
            ans = 'ok ' + enc(newn)
            if newp == m._epw_path or d != '/nonexistent-dir':
                nbad += 1
                if nbad <= 2:
                    chk.violation('impl-violation', 'T4 default_name_ne on new_epw_path',
                                  case={'replay_kind': 'name', 'name': nm}, observed=newp,
                                  expected='a path different from the rural path, same directory')
        except Exception as e:  # noqa
            ans = err_class(e)
        na.append(('name n=' + enc(nm), ans))
    chk.correspond('new_epw_path~defaultName', 'C01', na,
                   rule='the real new_epw_path property with default dir/name vs Lean defaultName on ASCII file '
                        'names (any case of the suffix, short names, names already ending in _UWG.epw); the '
                        'oracle "output path != rural path, same directory" is evaluated on each',
                   nontrivial=lambda line, impl: True,
                   classify=lambda line, impl: 'suffix-stripped' if line.lower().endswith('.epw') else 'kept')

    # ---------------------------------------------------------------- (c)+(d) the real write_epw, synthetic state
    kinds = ['ok'] * 7 + ['overrun', 'shortrow', 'blankrow', 'hdrcut', 'nlcell']
    nsyn = 96 if not big else 660
    wa, pf, obad, ocount, branches = [], [], 0, 0, {}
    for idx in range(nsyn):
        kind = kinds[idx % len(kinds)]
        sy = make_synth(chk, rng, idx, kind)
        # reader on the whole rural file: real read_csv vs model parseFile (LF text; the CRLF->LF
        # translation of Python's text layer is outside the model)
        table = utilities.read_csv(sy.path)
        if kind != 'nlcell':       # records spanning lines are outside the coverage of parseFile
            pf.append(('parsefile t=' + enc(sy.text_lf), 'ok ' + enc_rows(table)))
        expect = sy.hdr + [r for r in sy.rows]
        if table != expect and kind != 'blankrow':
            obad += 1
            chk.violation('impl-violation', 'read_csv on a synthetic rural EPW does not return the cells',
                          case={'file_text': sy.text_lf[:3000]}, observed=str(table)[:600],
                          expected=str(expect)[:600])
        line, ans, out_path, written, _ = run_synth(UWG, sy)
        wa.append((line, ans))
        branches[kind] = branches.get(kind, 0) + 1
        if kind in ('ok', 'blankrow'):
            ocount += 1
            if not ans.startswith('ok'):
                msg = 'write_epw raised (%s) on a well-formed file and window' % ans
            elif [''] in table:
                msg = None if hashlib.sha256(open(sy.path, 'rb').read()).hexdigest() == sy.hash else \
                    'rural file was modified'
            else:
                msg = oracle_file(sy.path, out_path, sy.s, written, sy.p, sy.hash)
            if msg:
                obad += 1
                if obad <= 3:
                    chk.violation('impl-violation', 'T2/T3 oracle on the file written by write_epw',
                                  case={'replay_kind': 'synthetic-write', 'rural_file_text': sy.text_lf,
                                        'window_start_row': sy.s, 'hours': sy.n, 'precision': sy.p,
                                        'values_canTemp_Tdp_canRHum_wind': [list(map(repr, w)) for w in sy.vals],
                                        'default_output_name': sy.default_out, 'rural_name': sy.name},
                                  observed=msg, expected='only fields 6,7,8,21 of the window rows differ')
        else:
            if hashlib.sha256(open(sy.path, 'rb').read()).hexdigest() != sy.hash:
                obad += 1
                chk.violation('impl-violation', 'rural file modified by a failing write_epw',
                              case={'kind': kind}, observed='hash changed', expected='unchanged')
    # every output precision 0..20 (and a few beyond): the shape of EVERY rewritten cell is -?d+(.d{p})? with
    # exactly the configured number of decimals, whatever the magnitude of the value
    precs = list(range(0, 21)) + ([25, 30] if not big else [22, 25, 30, 40] + list(range(0, 21)) * 2)
    pbad = 0
    for k, p in enumerate(precs):
        sy = make_synth(chk, rng, 8000 + k, 'ok', p=p)
        line, ans, out_path, written, _ = run_synth(UWG, sy)
        if p <= 20:
            wa.append((line, ans))
        branches['ok(precision sweep)'] = branches.get('ok(precision sweep)', 0) + 1
        msg = ('write_epw raised (%s) on a well-formed file and window' % ans) if not ans.startswith('ok') else \
            oracle_file(sy.path, out_path, sy.s, written, sy.p, sy.hash)
        if msg:
            pbad += 1
            if pbad <= 2:
                chk.violation('impl-violation', 'T2/T3 oracle on the file written by write_epw (precision sweep)',
                              case={'replay_kind': 'synthetic-write', 'rural_file_text': sy.text_lf,
                                    'window_start_row': sy.s, 'hours': sy.n, 'precision': sy.p,
                                    'values_canTemp_Tdp_canRHum_wind': [list(map(repr, w)) for w in sy.vals],
                                    'default_output_name': sy.default_out, 'rural_name': sy.name},
                              observed=msg, expected='every rewritten field is a decimal number with exactly '
                                                     'epw_precision = %d places, within half a unit of the value' % p)
    chk.direct('T2/T3-oracle(write_epw, every precision 0..20)', len(precs), len(precs),
               'the real write_epw on synthetic state for EVERY epw_precision 0..20 and 25, 30 (shipped default 1, '
               'test-suite 16): each rewritten field (dry bulb, dew point, RH, wind; values of every magnitude incl. '
               'ties and negatives rounding to zero) must match -?d+(.d{p})? with exactly p decimals and lie within '
               'half a unit of the last place of the value; everything else unchanged; p <= 20 also byte for byte '
               'against Lean writeEpw', mismatches=pbad,
               branches={'precisions': len(set(precs))})
    # non-ASCII text in header cells and unmodelled columns (UTF-8 files, UTF-8 locale): oracle only, the
    # line protocol of the model is ASCII
    nutf, butf = 0, 0
    for idx in range(8 if not big else 60):
        sy = make_utf8(chk, rng, 7000 + idx)
        _, ans, out_path, written, _ = run_synth(UWG, sy)
        nutf += 1
        msg = ('write_epw raised (%s) on a well-formed UTF-8 file' % ans) if not ans.startswith('ok') else \
            oracle_file(sy.path, out_path, sy.s, written, sy.p, sy.hash)
        if msg:
            butf += 1
            if butf <= 2:
                chk.violation('impl-violation', 'T2/T3 oracle on a rural file with non-ASCII (UTF-8) text',
                              case={'replay_kind': 'synthetic-write', 'rural_file_text': sy.text_lf,
                                    'window_start_row': sy.s, 'hours': sy.n, 'precision': sy.p,
                                    'values_canTemp_Tdp_canRHum_wind': [list(map(repr, w)) for w in sy.vals],
                                    'default_output_name': sy.default_out, 'rural_name': sy.name},
                              observed=msg, expected='only fields 6,7,8,21 of the window rows differ')
    chk.direct('T2/T3-oracle(write_epw, non-ASCII UTF-8 cells)', nutf, nutf,
               'rural files whose LOCATION / COMMENTS / DESIGN CONDITIONS cells and unmodelled data columns hold '
               'accented, CJK, astral, combining, no-break-space and BOM characters, written as UTF-8, every third file '
               'with a byte-order mark as its first three bytes (UTF-8 with signature); the file '
               'written by the real write_epw is parsed as strict UTF-8 and judged by the T2/T3 oracle',
               mismatches=butf)
    # free text with characters that only SOME line splitters take for line ends
    nsep, bsep = 0, 0
    for idx, sep in enumerate(SEPARATORS if big else rng.sample(SEPARATORS[:5], 3) + rng.sample(SEPARATORS[5:], 2)):
        sy = make_separators(chk, rng, 7500 + idx, sep)
        _, ans, out_path, written, _ = run_synth(UWG, sy)
        nsep += 1
        msg = ('write_epw raised (%s) on a well-formed file' % ans) if not ans.startswith('ok') else \
            oracle_file(sy.path, out_path, sy.s, written, sy.p, sy.hash)
        if msg:
            bsep += 1
            if bsep <= 2:
                chk.violation('impl-violation', 'T2/T3 oracle on a rural file whose free text holds the character %r' % sep,
                              case={'replay_kind': 'synthetic-write', 'rural_file_text': sy.text_lf,
                                    'window_start_row': sy.s, 'hours': sy.n, 'precision': sy.p,
                                    'values_canTemp_Tdp_canRHum_wind': [list(map(repr, w)) for w in sy.vals],
                                    'default_output_name': sy.default_out, 'rural_name': sy.name},
                              observed=msg, expected='only fields 6,7,8,21 of the window rows differ')
    chk.direct('T2/T3-oracle(write_epw, free text with vertical tab / form feed / FS GS RS / NEL / U+2028 / U+2029)', nsep, nsep,
               'rural files whose unmodelled text holds a character that a csv reader fed by a text file treats as ordinary '
               'content but str.splitlines() and similar idioms take for a line end: in an unquoted COMMENTS cell, inside the '
               'quoted city name, in a trailing header cell, in the data-source flag cell of the first / last / a random row '
               'and of the last window row (quick: 5 of the 8 characters, thorough: all); the file written by the real '
               'write_epw must have the same lines, cells per row and cells outside the four columns (strict UTF-8 parse)',
               mismatches=bsep)
    chk.correspond('read_csv~parseFile', 'C01', pf,
                   rule='the real utilities.read_csv on a synthetic rural EPW (random optional quoting of cells, '
                        'cells with commas/quotes/blanks, LF or CRLF, with/without final newline) vs Lean '
                        'parseFile on the LF text',
                   classify=lambda line, impl: 'has-quotes' if '%22' in line else 'no-quotes')
    chk.correspond('write_epw~writeEpw', 'C01', wa,
                   rule='the REAL UWG.write_epw (object state set by the harness: _read_epw of a synthetic rural '
                        'file, UCMData/WeatherData namespaces, simTime.timeInitial, epw_precision; no simulation) '
                        'vs Lean writeEpw: the complete written text, byte for byte, or IndexError; windows at the '
                        'start/end/inside, 0/1/24/48 hours, p in 0..6 and a sweep over every p in 0..20, rows of 22..42 cells; '
                        'error stream: window '
                        'past the end, short/blank row in the window, fewer than 8 header rows',
                   nontrivial=lambda line, impl: impl.startswith('ok'),
                   classify=lambda line, impl: 'written' if impl.startswith('ok') else impl)
    chk.direct('T2/T3-oracle(write_epw, synthetic)', ocount, ocount,
               'statement of T2/T3 evaluated with python csv on the file written by the real write_epw: row and '
               'field counts, every cell outside the window columns equal, rewritten cells match -?d+(.d{p})? and '
               'lie within half a unit of the value, rural file hash unchanged, output path != rural path',
               mismatches=obad, branches=branches)

    # ---------------------------------------------------------------- (e) end-to-end
    ea, ebad, eb = [], 0, {}
    for idx, cfg in enumerate(e2e_configs(chk)):
        try:
            line, ans, msg, case = run_e2e(chk, UWG, idx, cfg)
        except Exception as e:  # noqa
            chk.notes.append('e2e run %s raised %s: %s (not a C01 verdict)' % (cfg[2:], type(e).__name__, e))
            eb['raised'] = eb.get('raised', 0) + 1
            continue
        ea.append((line, ans))
        eb[case['epw'][:3]] = eb.get(case['epw'][:3], 0) + 1
        if msg:
            ebad += 1
            if ebad <= 2:
                chk.violation('impl-violation', 'T2/T3 oracle on a real generate/simulate/write_epw run',
                              case=case, observed=msg,
                              expected='only fields 6,7,8,21 of the simulated rows differ from the rural file')
    if ea:
        chk.correspond('e2e-window~writeEpw', 'C01', ea,
                       rule='real generate/simulate/write_epw on shipped EPW files (copied to a scratch dir, '
                            'default output name and directory): header + window rows (2 rows of context) of the '
                            'written file vs Lean writeEpw fed with the recorded UCMData/WeatherData values',
                       classify=lambda line, impl: 'p=' + line.rsplit('p=', 1)[1])
    chk.direct('T2/T3-oracle(end-to-end)', len(ea), len(ea),
               'same oracle on the complete 8768-line files of real runs; rural copy hashed before/after; each finished '
               'run is written again at further precisions sampled from 0..20 (one of them in 15..20) and judged again',
               mismatches=ebad, branches=eb)
    if not ea:
        chk.corr_problems.append({'tie': 'e2e', 'case': None, 'impl': 'no end-to-end run completed',
                                  'model': None})

    # output path configured onto the rural file itself: must be refused, rural bytes unchanged
    nprot, bprot, hows = 0, 0, {}
    HOWS = ['default-dir', 'explicit-dir', 'dotted-dir', 'symlinked-dir', 'symlinked-name', 'rural-via-symlink',
            'hardlinked-name', 'symlink-chain', 'relative-symlink', 'updir-spelling']
    for idx in range(len(HOWS) if chk.tier == 'quick' else 40):
        sy = make_synth(chk, rng, 9000 + idx, 'plain')
        how = HOWS[idx % len(HOWS)]
        hows[how] = hows.get(how, 0) + 1
        rural_arg = sy.path
        if how == 'default-dir':
            m = UWG(sy.path, new_epw_name=sy.name)                       # default dir, rural name
        elif how == 'explicit-dir':
            m = UWG(sy.path, new_epw_dir=sy.dir, new_epw_name=sy.name)   # explicit dir and name
        elif how == 'dotted-dir':
            m = UWG(sy.path, new_epw_dir=os.path.join(sy.dir, '.', ''), new_epw_name=sy.name)
        elif how == 'updir-spelling':
            m = UWG(sy.path, new_epw_dir=os.path.join(sy.dir, 'sub', '..'), new_epw_name=sy.name)
            os.makedirs(os.path.join(sy.dir, 'sub'))
        elif how == 'symlinked-dir':       # another directory name that is a link to the rural directory
            ln = sy.dir + '_link'
            os.symlink(sy.dir, ln)
            m = UWG(sy.path, new_epw_dir=ln, new_epw_name=sy.name)
        elif how == 'symlinked-name':      # an output name that is a link to the rural file
            os.makedirs(os.path.join(sy.dir, 'out'))
            os.symlink(sy.path, os.path.join(sy.dir, 'out', 'morphed.epw'))
            m = UWG(sy.path, new_epw_dir=os.path.join(sy.dir, 'out'), new_epw_name='morphed.epw')
        elif how == 'relative-symlink':
            os.makedirs(os.path.join(sy.dir, 'out'))
            os.symlink(os.path.join('..', sy.name), os.path.join(sy.dir, 'out', 'morphed.epw'))
            m = UWG(sy.path, new_epw_dir=os.path.join(sy.dir, 'out'), new_epw_name='morphed.epw')
        elif how == 'symlink-chain':
            os.makedirs(os.path.join(sy.dir, 'out'))
            os.symlink(sy.path, os.path.join(sy.dir, 'out', 'hop.epw'))
            os.symlink(os.path.join(sy.dir, 'out', 'hop.epw'), os.path.join(sy.dir, 'out', 'morphed.epw'))
            m = UWG(sy.path, new_epw_dir=os.path.join(sy.dir, 'out'), new_epw_name='morphed.epw')
        elif how == 'rural-via-symlink':   # the rural file is named through a link, the output by its real name
            os.makedirs(os.path.join(sy.dir, 'in'))
            rural_arg = os.path.join(sy.dir, 'in', 'weather.epw')
            os.symlink(sy.path, rural_arg)
            m = UWG(rural_arg, new_epw_dir=sy.dir, new_epw_name=sy.name)
        else:                              # hardlinked-name
            os.makedirs(os.path.join(sy.dir, 'out'))
            os.link(sy.path, os.path.join(sy.dir, 'out', 'morphed.epw'))
            m = UWG(sy.path, new_epw_dir=os.path.join(sy.dir, 'out'), new_epw_name='morphed.epw')
        m._read_epw()
        m.UCMData = [types.SimpleNamespace(canTemp=300.0, Tdp=10.0, canRHum=50.0)]
        m.WeatherData = [types.SimpleNamespace(wind=2.0)]
        m.simTime = types.SimpleNamespace(timeInitial=8)
        m.epw_precision = 1
        raised = False
        try:
            with contextlib.redirect_stdout(io.StringIO()):
                m.write_epw()
        except Exception:  # noqa
            raised = True
        nprot += 1
        if hashlib.sha256(open(sy.path, 'rb').read()).hexdigest() != sy.hash:
            bprot += 1
            chk.violation('impl-violation', 'rural file overwritten: the output path names the rural file (%s)' % how,
                          case={'how': how, 'new_epw_dir': m._new_epw_dir, 'new_epw_name': m._new_epw_name,
                                'rural': rural_arg},
                          observed='rural file bytes changed (write_epw raised: %s)' % raised,
                          expected='rural file never modified')
    chk.direct('rural-file-protected(output path = rural path)', nprot, nprot,
               'write_epw with new_epw_name/new_epw_dir naming the rural file itself - same spelling, ./ and ../ '
               'spellings, a symlinked directory, a symlinked / chained / relative-symlinked / hard-linked output '
               'name, the rural file given through a symlink: rural bytes must be unchanged (the repaired code '
               'raises)', mismatches=bprot, branches=hows)

    # ---------------------------------------------------------------- (y) round 5: names near the rural name; interrupted runs
    near_name_family(chk, UWG)
    interrupted_family(chk, UWG)

    # ---------------------------------------------------------------- (x) circumstances that must not matter
    circumstances(chk)

    # ---------------------------------------------------------------- (m) composition A: the whole pipeline
    morph.run_morph(chk)
    pipeline.run_pipeline(chk)      # (p) composition D: the same pipeline with the concrete readers and physics

    chk.assumptions += [
        'text layer: Python universal-newline translation and the utf-8 codec with errors=ignore are outside '
        'the model (well-formed = ASCII cells without CR/LF; non-UTF-8 header bytes are dropped by read_csv)',
        'a rural line consisting of "" (one empty quoted cell) is written back as an empty line (0 fields): '
        'excluded from well-formedness (theorem parse_render_single_empty)',
        'a quoted rural cell that spans physical lines is written unquoted and splits into two records '
        '(theorem newline_cell_splits): excluded from well-formedness; model and code still agree on the text',
        'doubles are formatted from their exact binary value; -0.0, NaN and Inf have no rational counterpart',
        'file-system effects (rural file opened read-only, output path aliasing through links) are observed '
        'by hashing, not proved (an output path configured onto the rural file is refused by write_epw and '
        'exercised by the rural-file-protected tie)',
    ]


# ----------------------------------------------------------------------------- replay
def replay(chk, path):
    """Re-evaluate the property's oracle on the input recorded in a replay file."""
    import json
    core.repo_python_path()
    from uwg import UWG
    rec = json.load(open(path))
    case = rec.get('case') or {}
    kind = case.get('replay_kind')
    msg = None
    if kind == 'synthetic-write':
        sy = Synth()
        sy.dir = os.path.join(chk.work(), 'replay')
        os.makedirs(sy.dir)
        sy.name = case['rural_name']
        sy.path = os.path.join(sy.dir, sy.name)
        sy.kind = 'ok' if case['rural_file_text'].isascii() else 'utf8'
        with open(sy.path, 'w', newline='', encoding='utf-8') as f:
            f.write(case['rural_file_text'])
        sy.hash = hashlib.sha256(open(sy.path, 'rb').read()).hexdigest()
        sy.s, sy.p, sy.hdr_cut = case['window_start_row'], case['precision'], None
        sy.vals = [tuple(float(x) for x in w) for w in case['values_canTemp_Tdp_canRHum_wind']]
        sy.default_out = case['default_output_name']
        _, ans, out_path, written, _ = run_synth(UWG, sy)
        msg = ('write_epw raised (%s)' % ans) if not ans.startswith('ok') else \
            oracle_file(sy.path, out_path, sy.s, written, sy.p, sy.hash)
    elif kind == 'row':
        r = case['row']
        t = ','.join(UWG._csv_field(c) for c in r)
        back = list(csv.reader([t]))[0]
        if back != ([] if r == [''] else r):
            msg = 'row %r written as %r reads back as %r' % (r, t, back)
    elif kind == 'name':
        m = UWG()
        m._epw_path = os.path.join('/nonexistent-dir', case['name'])
        if m.new_epw_path == m._epw_path:
            msg = 'default output path equals the rural path %r' % m._epw_path
    elif kind == 'morph':
        from props import morph
        msg = morph.replay_case(chk, case)
    elif kind == 'pipeline':
        from props import pipeline
        msg = pipeline.replay_case(chk, case)
    elif kind == 'e2e':
        cfg = (case['epw_path'], case['uwg_path'], case['month'], case['day'], case['nday'], case['dtsim'],
               case['precision'])
        msg = run_e2e(chk, UWG, 0, cfg)[2]
    elif kind in ('near-name', 'interrupted'):
        # the family is re-explored (same generators, same seed)
        (near_name_family if kind == 'near-name' else interrupted_family)(chk, UWG)
        if chk.violations:
            msg = '%s: %s' % (chk.violations[0]['theorem_or_tie'], chk.violations[0]['observed'])
    elif 'circumstance' in case or 'interpreter' in case:
        # the circumstance families are re-explored (same generators, same seed)
        circumstances(chk)
        if chk.violations:
            msg = '%s: %s' % (chk.violations[0]['theorem_or_tie'], chk.violations[0]['observed'])
    else:
        print('replay: %s records no concrete failing input (%s)' % (path, rec.get('theorem_or_tie')))
        return 2
    if msg:
        print('VIOLATION property=C01 replay=%s reproduced: %s' % (path, msg), flush=True)
        return 1
    print('replay: not reproduced on the current tree (%s)' % path, flush=True)
    return 0
