"""Composition D - the whole pipeline generate(); simulate(); write_epw() with the CONCRETE readers and physics.

Model lean/UwgVerif/Model/Pipeline.lean (`pipeline` / `pipelineCore` / `pipelineSim`: Epw.readHeader, Clock.create,
Weather.read, columnOutcome, forcingOf / stepW over Step.step, Sim.runSteps, Csv.writeEpw), theorems
lean/UwgVerif/Props/Pipeline.lean, driver Drv/Pipeline.lean. Called from props/c01.py (`run_pipeline`), whose
`chk.proof` audits the theorems listed here through `extra_modules`.

Tie (exact): the REAL three calls of the fractionised package (`fracexec.load()`: exact Fractions, libm = shared
rational stubs) on a small synthetic rural EPW file written to disk (8 header lines with a generated LOCATION line
and a ground line of 0..5 depths, 24+ data rows with generated cells in every spelling float() reads, text cells,
short rows) and the Singapore parameter file, the city shrunk after generate() as props/step.py does (short RSM
column, 1-2 small buildings, 2-layer elements), for the FIRST HOUR of the run: after generate() the harness sets
`simTime.days = hours/24` and `simTime.nt = hours*3600/dt + 1` on the generated object (exact rationals of a
whole step have hundreds of digits and grow exponentially with the number of passes), then calls the real
`simulate()` and `write_epw()` unchanged. The Lean side gets the header rows, the data rows, the parameters, the
configuration and the state after generate() (serialised exactly as props/step.py does, with lat / lon / gmt / dt
blanked: the model must take them from the header and the run) and evaluates `pipelineCore … hours`; compared is
the COMPLETE written file, byte for byte, or the failing stage; for part of the cases also the complete post-state
and the records (`pipelineSim`, no file writing).

Oracles on the implementation's own results (what turns a broken tie into a concrete failing input): the C01
file oracle, the stamp of the written row, wind cell = max(rural wind cell, windMin), canyon humidity ratio =
hum_from_rhum_temp of the RH / dry bulb / pressure CELLS of the written row and written RH / dew point =
psychrometrics of (canyon temperature, that ratio, that row's pressure cell), site = cells 6..8 of line 1, deep /
ground-water temperature = the monthly cell of the ground line for the depth the pavement reaches, and a twin run on
a file whose every unmodelled cell, row and header line is re-drawn (written files differ only where the rural
files differ).
"""
import collections
import csv
import hashlib
import os
import time
import traceback
from fractions import Fraction as F

import core
from fracexec import frac_str
from props import step as ST
from props.epwheader import spell

MODULE = 'UwgVerif.Props.Pipeline'
THEOREMS = [
    'Uwg.Pipeline.pipeline_eq_morph', 'Uwg.Pipeline.pipeline_preserves', 'Uwg.Pipeline.pipeline_causal',
    'Uwg.Pipeline.pipeline_fail_stop', 'Uwg.Pipeline.pipeline_row_stamp', 'Uwg.Pipeline.pipeline_wind',
    'Uwg.Pipeline.pipeline_moisture', 'Uwg.Pipeline.pipeline_site_cells', 'Uwg.Pipeline.pipeline_site_param_dead',
    'Uwg.Pipeline.pipeline_ground_cells', 'Uwg.Pipeline.pipeline_unmodelled_irrelevant',
    'Uwg.Pipeline.pipeline_unmodelled_irrelevant_file', 'Uwg.Pipeline.pipeline_text_fail_stop',
    'Uwg.Pipeline.stepW_of_forcingOf', 'Uwg.Pipeline.simulateHours_days', 'Uwg.Pipeline.step_uDir_dead',
    'Uwg.Pipeline.stepW_unread_dead',
]

MODELLED = (6, 7, 8, 9, 12, 13, 14, 15, 20, 21)
INOBIS = [0, 31, 59, 90, 120, 151, 181, 212, 243, 273, 304, 334]
TEXT = ['', 'x', 'N/A', '--', '*', '1.2.3', '9e', 'null']
K0 = F('273.15')


def num(cell):
    """the oracle's own reading of a numeric cell"""
    return F(cell.strip().replace('_', '').replace(',', ''))


# ----------------------------------------------------------------------------- synthetic rural files
def gen_modelled(rng, j, hot, sun):
    if j == 6:
        v = F(rng.randint(2200, 3400), 100) if hot else F(rng.randint(-800, 1000), 100)
    elif j == 7:
        v = F(rng.randint(-500, 2500), 100)
    elif j == 8:
        v = rng.choice([F(rng.randint(30, 100)), F(rng.randint(3000, 10000), 100), F(103)])
    elif j == 9:
        v = F(rng.randint(95000, 103000))
        if rng.random() < 0.15:
            s = '%d' % v
            return s[:-3] + ',' + s[-3:]                  # thousands separator, removed by str2fl
    elif j == 12:
        v = F(rng.randint(250, 450))
    elif j == 13:
        v = F(rng.randint(0, 900))
    elif j in (14, 15):
        v = F(rng.randint(60, 700)) if sun else F(0)
    elif j == 20:
        v = F(rng.randint(0, 360))
    else:
        v = rng.choice([F(rng.randint(0, 90), 10), F(rng.randint(0, 900), 100), F(0), F('0.25'), F(10)])
    places = 2 if v.denominator > 10 else (1 if v.denominator > 1 else rng.choice([0, 1]))
    return spell(rng, v, places)


def other_cell(rng):
    return rng.choice(['0', '9', 'A7', '', '99', '1,2', 'q"q', '?9?9', ' 7', '999999999', 'x;y', '3.5', 'a b'])


def gen_file(rng, sp):
    """header rows + data rows of a synthetic rural file for the run `sp`"""
    lat = F(rng.randint(-6000, 6000), 100)
    lon = F(rng.randint(-17900, 17900), 100)
    tz = F(rng.choice([-8, -5, -3.5, 0, 1, 5.5, 8, 9.5, 12])).limit_denominator(4)
    loc = ['LOCATION', rng.choice(['SINGAPORE', 'St. John\'s, NL', 'Frankfurt "Main"', 'X']), '-', 'SGP',
           'IWEC Data', '486980', spell(rng, lat), spell(rng, lon), spell(rng, tz),
           spell(rng, F(rng.randint(0, 30000), 10), 1)]
    if rng.random() < 0.2:
        loc.append('extra')
    nrec = sp['nrec']
    depths = sorted(rng.sample([F(1, 2), F(2), F(4), F(1, 10), F(1), F(8), F(3, 2), F(12), F(3, 10)], nrec))
    if sp.get('deep_first'):
        depths = sorted(depths, reverse=True)
    recs = []
    for d in depths:
        props = ['', '', ''] if rng.random() < 0.6 else [rng.choice(['1.3', 'x', '']), rng.choice(['1500', '']),
                                                         rng.choice(['1200', ' ', 'n/a'])]
        months = [spell(rng, F(rng.randint(500, 3200), 100)) for _ in range(12)]
        recs.append([spell(rng, d, 1)] + props + months)
    count = rng.choice(['%d', '%d', ' %d', '+%d', '0%d']) % nrec
    ground = ['GROUND TEMPERATURES', count] + [c for r in recs for c in r] + \
             [rng.choice(['', 'x', '7']) for _ in range(rng.choice([0, 0, 2]))]
    hdr = [loc,
           ['DESIGN CONDITIONS', '1', 'Climate Design Data 2009 ASHRAE Handbook', ''] + [other_cell(rng) for _ in range(rng.randint(0, 5))],
           ['TYPICAL/EXTREME PERIODS', '1', 'Summer - Week Nearest Max Temperature For Period', 'Extreme', '4/ 9', '4/15'],
           ground,
           ['HOLIDAYS/DAYLIGHT SAVINGS', 'No', '0', '0', '0'],
           ['COMMENTS 1', rng.choice(['plain', 'a, b and "c"', '"', ',', 'say ""hi""'])],
           ['COMMENTS 2', ' -- Ground temps produced with a standard soil diffusivity of 2.3225760E-03 {m**2/day}'],
           ['DATA PERIODS', '1', '1', 'Data', 'Sunday', ' 1/ 1', '12/31']]
    s = 24 * (INOBIS[sp['month'] - 1] + sp['day'] - 1)
    nrows = s + 24 * sp['days'] + rng.choice([0, 0, 1, 5])
    if sp.get('short_file'):
        nrows = s + rng.randint(3, 20)
    rows = []
    for i in range(nrows):
        n = rng.choice([35, 35, 35, 22, 23, 30, 40])
        r = ['1989', str(1 + i // 24 // 31), str(1 + (i // 24) % 31), str(1 + i % 24), '60',
             'C9C9C9C9*0?9?9?9?9?9?9?9*0B8B8B8B8*0*0E8*0*0']
        r += [other_cell(rng) for _ in range(n - 6)]
        if i >= s - 1:
            for j in MODELLED:
                r[j] = gen_modelled(rng, j, sp['hot'], sp['sun'])
        else:
            r = r[:rng.choice([2, 5, 9, 35])]
        rows.append(r)
    return hdr, rows, dict(lat=lat, lon=lon, tz=tz, depths=depths, recs=recs, start=s)


def apply_edge(rng, sp, hdr, rows, info):
    """one malformation / text cell per failing kind"""
    e, s = sp['edge'], info['start']
    w0 = rows[s] if s < len(rows) else None
    if e == 'hdr-short-loc':
        hdr[0] = hdr[0][:rng.randint(0, 8)]
    elif e == 'hdr-bad-loc':
        hdr[0][rng.choice([6, 7, 8])] = rng.choice(['x', '', '1,5', '27.5C'])
    elif e == 'hdr-bad-ground':
        k = rng.randrange(2, len(hdr[3])) if len(hdr[3]) > 2 else 1
        if (k - 2) % 16 in (1, 2, 3) and k - 2 < 16 * sp['nrec']:
            k = 2 + 16 * ((k - 2) // 16) + 5
        hdr[3][k] = rng.choice(['x', '', '1.2.3'])
    elif e == 'hdr-bad-count':
        hdr[3][1] = rng.choice(['3.0', '', 'three', str(sp['nrec'] + 1)])
    elif e == 'hdr-few-rows':
        del hdr[rng.randint(1, 3):]
        del rows[:]
    elif e == 'wx-text':
        k = s + rng.randrange(24)
        rows[k][rng.choice([6, 8, 9])] = rng.choice(TEXT)
    elif e == 'wx-short-row':
        k = s + rng.randrange(24)
        rows[k] = rows[k][:rng.choice([0, 6, 7, 9, 13, 21])]
    elif e == 'wx-abs-zero':
        rows[s + rng.randrange(24)][6] = rng.choice(['-273.15', '-300'])
    elif e == 'wx-empty-window':
        del rows[s:]
    elif e in ('text-wind0', 'text-wind1'):
        rows[s + int(e[-1])][21] = rng.choice(TEXT)
    elif e in ('text-dir0', 'text-dir1'):
        rows[s + int(e[-1])][rng.choice([14, 15])] = rng.choice(TEXT)
    elif e in ('text-infra0', 'text-infra1'):
        rows[s + int(e[-1])][12] = rng.choice(TEXT)
    elif e == 'text-unread':
        w0[20], w0[7], w0[13] = rng.choice(TEXT), rng.choice(TEXT), rng.choice(TEXT)
        rows[s + 1][21], rows[s + 2][14], rows[s + 3][12] = 'x', '', 'N/A'     # rows the first hour never reads
    elif e == 'text-all':
        for j in (12, 14, 15):
            w0[j] = rng.choice(TEXT)


def write_file(rng, path, table):
    from props import c01
    text = c01.raw_text(rng, table, rng.choice(['\n', '\n', '\r\n']), last_eol=True)
    with open(path, 'w', newline='') as f:
        f.write(text)
    return hashlib.sha256(open(path, 'rb').read()).hexdigest()


# ----------------------------------------------------------------------------- the real run
class Run(object):
    pass


def generate_stage(e):
    """the stage of generate() that raised, read off the traceback (uwg frames only)"""
    names = [(os.path.basename(fr.filename), fr.name) for fr in traceback.extract_tb(e.__traceback__)
             if os.sep + 'uwg' + os.sep in fr.filename]
    files = [a for a, _ in names]
    funcs = [b for _, b in names]
    cls = ('index' if isinstance(e, IndexError) else 'type' if isinstance(e, TypeError) else
           'zerodiv' if isinstance(e, ZeroDivisionError) else 'value' if isinstance(e, ValueError) else None)
    if '_read_epw' in funcs and cls in ('index', 'value'):
        return 'header-' + cls
    if 'simparam.py' in files:
        if cls == 'zerodiv':
            return 'zerodiv'
        if 'TIMESTEP' in str(e):
            return 'timestep'
    if 'weather.py' in files and cls:
        return 'weather-' + cls
    if 'UCMDef.py' in files and cls == 'type' and funcs[-1] == '__init__':
        return 'init-type'
    if '_procmat' in funcs and cls == 'index':
        return 'column-index'
    if 'deeper than the deepest ground temperature depth' in str(e):
        return 'refused'
    raise e


def shrink(pkg, rng, m, sp, work, tag):
    """the generated city replaced by a small one (as props/step.py `build`), the forcing table kept"""
    import random
    rng = random.Random(sp['city_seed'])      # the twin run of a case gets the same city
    for o in (m, m.UCM, m.UBL, m.RSM, m.geoParam, m.simTime):
        ST.defloat(o)
    hot = sp['hot']
    dt = sp['dt']
    u = m.UCM
    canTemp = u.canTemp
    post = dt
    hour = post // 3600
    di = {0: 2, 6: 1}.get(m.simTime.julian % 7, 0)
    u.roadTemp = canTemp + ST.rq(rng, -3, 6, 4)
    u.canWind = ST.rq(rng, 0.2, 4, 10)
    u.sensHeat = rng.choice([F(0), ST.rq(rng, 0, 200, 2)])
    old = u.road
    road = ST.make_elem(pkg, rng, 2, 1, 'urban_road', canTemp + ST.rq(rng, -2, 5, 4), veg=old.vegcoverage,
                        albedo=old.albedo)
    road.treecoverage, road.grasscoverage = old.treecoverage, old.grasscoverage
    u.road = road
    rural = ST.make_elem(pkg, rng, 2, 1, 'rural_road', m.forcIP.temp[0] + ST.rq(rng, -2, 5, 4),
                         veg=m.rural.vegcoverage, albedo=m.rural.albedo)
    rural.sens = ST.rq(rng, -30, 150, 2)
    m.rural = rural
    m.Sch, m.BEM = [], []
    for j in range(sp['nb']):
        sch = ST.make_sched(pkg, rng)
        sch._vent = F(rng.randint(0, 3), 10000)
        mode = rng.choice(ST.HOT if hot else ST.COLD)
        if mode == 'free':
            mode = 'idle'
        bem = ST.make_bem(pkg, rng, mode, canTemp, sch, hour, di, (2, 2, 2), calm=True)
        bem.building.indoor_hum = u.canHum * F(rng.randint(5, 20), 10)
        m.Sch.append(sch)
        m.BEM.append(bem)
    fr = [F(rng.randint(1, 9)) for _ in m.BEM]
    for b, x in zip(m.BEM, fr):
        b.frac = x / sum(fr)
    t_r = m.forcIP.temp[0]
    m.UBL.ublTemp = t_r + ST.rq(rng, -2, 4, 4)
    m.UBL.ublTempdx = [m.UBL.ublTemp + ST.rq(rng, -1, 1, 4) for _ in m.UBL.ublTempdx]
    r = m.RSM
    n = r.nzref
    r.tempProf = [t_r + ST.rq(rng, -1, 3, 4) for _ in range(n)]
    r.presProf = [F(101000 - 600 * j - rng.randint(0, 200)) for j in range(n)]
    r.windProf = [ST.rq(rng, 0.5, 8, 4) for _ in range(n)]
    r.tempRealProf = [t_r + ST.rq(rng, -3, 1, 4) for _ in range(n)]
    r.densityProfC = [ST.rq(rng, 1.0, 1.3, 100) for _ in range(n)]
    r.densityProfS = [ST.rq(rng, 1.0, 1.3, 100) for _ in range(n + 1)]


def blank_site(cfg):
    """lat / lon / gmt / dt of the serialised configuration blanked: the Lean pipeline must not need them"""
    toks = cfg.split(' ')
    for i, t in enumerate(toks):
        if t.startswith('sim='):
            v = t[5:-1].split(';')
            toks[i] = 'sim=[' + ';'.join(['0/1'] * 4 + v[4:]) + ']'
    return ' '.join(toks)


def res_str(m, n):
    out = []
    for k in range(n):
        if m.UCMData[k] is None:
            break
        out.append('[' + ';'.join(frac_str(F(x)) for x in (m.UCMData[k].canTemp - K0, m.UCMData[k].Tdp,
                                                           m.UCMData[k].canRHum, m.WeatherData[k].wind)) + ']')
    return '|'.join(out)


def real_run(chk, pkg, idx, sp, table, tag='', text=None):
    """generate(); [first hour] simulate(); write_epw() of the fractionised package on the file `table` (or on the
    recorded file text of a replay)"""
    from props import c01
    from uwg import utilities
    rng = chk.rng
    r = Run()
    r.sp = sp
    d = os.path.join(chk.work(), 'pipe%03d%s' % (idx, tag))
    os.makedirs(d)
    r.rural = os.path.join(d, 'rural.epw')
    if text is None:
        r.hash = write_file(rng, r.rural, table)
    else:
        with open(r.rural, 'w', newline='') as f:
            f.write(text)
        r.hash = hashlib.sha256(open(r.rural, 'rb').read()).hexdigest()
    parsed = utilities.read_csv(r.rural)
    r.hdr_in, r.rows_in = [list(x) for x in parsed[:8]], [list(x) for x in parsed[8:]]
    r.out = os.path.join(d, 'rural_UWG.epw')
    r.stage, r.model, r.state1, r.recs, r.vals = None, None, None, None, None
    uwgm = ST.mod(pkg, 'uwg')
    m = uwgm.UWG.from_param_file(os.path.join(core.REPO, ST.PARAM), epw_path=r.rural)
    m.month, m.day, m.nday, m.dtsim = sp['month'], sp['day'], sp['days'], sp['dt']
    m.droad, m.kroad, m.croad = sp['droad'], sp['kroad'], sp['croad']
    m.epw_precision = sp['p']
    zp = os.path.join(d, 'zmeso.txt')
    ST.write_zmeso(zp, [0, 20, 120, 300])
    m.Z_MESO_PATH = zp
    m.h_ref, m.h_ubl2, m.h_obs, m.charlength = F(50), F(50), F(1, 2), F(1000)
    if sp.get('windmin') is not None:
        m.windmin = sp['windmin']
    cfg0 = state0 = None
    try:
        with core.quiet():
            m.generate()
    except Exception as e:      # noqa - classified by stage, anything unexpected is re-raised
        r.stage = generate_stage(e)
    if r.stage is None:
        r.model = m
        shrink(pkg, rng, m, sp, d, tag)
        cfg0, state0 = ST.ser_cfg(m), ST.ser_state(m)
        r.windmin = m.geoParam.windMin
        hours = sp['hours']
        m.simTime.days = F(hours, 24)
        m.simTime.nt = hours * 3600 // sp['dt'] + 1
        r.month0 = m.simTime.month
        try:
            with core.quiet():
                m.simulate()
        except Exception as e:  # noqa
            r.stage = 'sim-' + ST.err_of(e)[4:]
        if r.stage is None:
            r.records_ok = len(m.UCMData) == hours and all(x is not None for x in m.UCMData) and \
                all(x is not None for x in m.WeatherData)
            if r.records_ok:
                r.vals = [(x.canTemp - K0, x.Tdp, x.canRHum, w.wind) for x, w in zip(m.UCMData, m.WeatherData)]
            r.state1 = ST.ser_state(m) if sp['sim_too'] else None
            r.recs = res_str(m, hours)
            try:
                with core.quiet():
                    m.write_epw()
                r.out = m.new_epw_path
            except IndexError:
                r.stage = 'write'
    if cfg0 is None:
        # generate() failed: the Lean side still needs a (never used) configuration and state
        cfg0, state0 = DUMMY.get('cfg', 'nocfg=1'), DUMMY.get('state', 'nostate=1')
    args = 'hdr=%s rows=%s dt=%d M=%d D=%d days=%d hours=%d p=%d droad=%s kroad=%s croad=%s %s %s' % (
        c01.enc_rows(r.hdr_in), c01.enc_rows(r.rows_in), sp['dt'], sp['month'], sp['day'], sp['days'], sp['hours'],
        sp['p'], frac_str(F(sp['droad'])), frac_str(F(sp['kroad'])), frac_str(F(sp['croad'])), blank_site(cfg0),
        state0)
    r.line = 'pipe ' + args
    r.line_sim = 'psim ' + args
    if r.stage is None:
        with open(r.out, 'r', newline='') as f:
            r.ans = 'ok ' + c01.enc(f.read())
        r.ans_sim = None if r.state1 is None else 'ok %s recs=%s' % (r.state1, r.recs)
    else:
        r.ans = 'err ' + r.stage
        r.ans_sim = r.ans if not r.stage == 'write' else None
    if DUMMY.get('cfg') is None and r.model is not None:
        DUMMY['cfg'], DUMMY['state'] = cfg0, state0
    return r


DUMMY = {}


# ----------------------------------------------------------------------------- oracles on the real results
def oracles(pkg, r, info):
    """None or a message: the end-to-end statements evaluated on the implementation's own results"""
    from props import c01
    sp = r.sp
    if hashlib.sha256(open(r.rural, 'rb').read()).hexdigest() != r.hash:
        return 'rural file was modified'
    if r.stage is not None:
        return 'the pipeline raised (%s) and yet a file was written' % r.stage if os.path.exists(r.out) else None
    m = r.model
    if not r.records_ok:
        return 'simulate returned with %d of %d records' % (sum(1 for x in m.UCMData if x is not None), sp['hours'])
    s = info['start']
    msg = c01.oracle_file(r.rural, r.out, s, r.vals, sp['p'], r.hash)
    if msg:
        return msg
    out = c01.pyparse(r.out)[8:]
    psy = pkg.psychrometrics
    for n in range(sp['hours']):
        row_in, row_out = r.rows_in[s + n], out[s + n]
        # stamp: the row written for hour n is row start + n of the rural file (its own stamp cells kept)
        if row_out[:6] != row_in[:6]:
            return 'record %d written to a row stamped %s, rural row %d is stamped %s' % (n, row_out[:6], s + n, row_in[:6])
        fmt = lambda x: '{0:.{1}f}'.format(x, sp['p'])      # noqa
        # wind
        w = max(num(row_in[21]), r.windmin)
        if row_out[21] != fmt(w):
            return 'wind of hour %d written as %s, rural cell %r, minimum wind %s' % (n, row_out[21], row_in[21], r.windmin)
        # moisture
        rh, tc, pr = num(row_in[8]), num(row_in[6]), num(row_in[9])
        hum = psy.hum_from_rhum_temp(rh, tc, pr)
        x = m.UCMData[n]
        if x.canHum != hum:
            return 'canyon humidity ratio behind record %d is not hum_from_rhum_temp of the RH / T / P cells of row %d' % (n, s + n)
        _, _, phi, _, tdp, _ = psy.psychrometrics(x.canTemp, hum, pr)
        if (row_out[6], row_out[7], row_out[8]) != (fmt(x.canTemp - K0), fmt(tdp), fmt(phi)):
            return 'written T / Tdp / RH of hour %d are %s, psychrometrics of the canyon temperature, the rural ' \
                   'humidity ratio and the rural pressure of that row gives %s' % (
                       n, (row_out[6], row_out[7], row_out[8]), (fmt(x.canTemp - K0), fmt(tdp), fmt(phi)))
    # the forcing object after the last pass holds the cells of the row that pass read (row hours - 1)
    last = r.rows_in[s + sp['hours'] - 1]
    want = dict(infra=num(last[12]), dir=num(last[14]), dif=num(last[15]), temp=num(last[6]) + K0, rHum=num(last[8]),
                pres=num(last[9]), wind=max(num(last[21]), r.windmin), prec=0,
                hum=psy.hum_from_rhum_temp(num(last[8]), num(last[6]), num(last[9])))
    for k, v in want.items():
        if getattr(m.forc, k) != v:
            return 'forc.%s after the last pass is %s, the cells of rural row %d give %s' % (k, getattr(m.forc, k), s + sp['hours'] - 1, v)
    # site
    loc = r.hdr_in[0]
    if (m.RSM.lat, m.RSM.lon, m.RSM.gmt) != (num(loc[6]), num(loc[7]), num(loc[8])):
        return 'site of the sun position (%s, %s, %s) is not cells 6..8 of line 1 %r' % (m.RSM.lat, m.RSM.lon, m.RSM.gmt, loc[6:9])
    # deep temperature of the last pass
    g = r.hdr_in[3]
    depths = [num(g[2 + 16 * k]) for k in range(int(g[1]))]        # the oracle's own reading of line 4
    if len(depths) >= 3:
        n0 = -(-F(sp['droad']) // F(1, 20))
        col = n0 * F(1, 20) if n0 > 1 else F(sp['droad'])
        i = next(j for j, dd in enumerate(depths) if dd >= col)
        want = (num(g[6 + 16 * i + r.month0 - 1]) + K0, num(g[6 + 16 * 2 + r.month0 - 1]) + K0)
    else:
        temps = [num(x[6]) + K0 for x in r.rows_in[s:s + 24 * sp['days']]]
        mean = sum(temps) / len(temps)
        want = (mean, mean - 10)
    if (m.forc.deepTemp, m.forc.waterTemp) != want:
        return 'deep / ground-water temperature of the pass (%s, %s) is not what line 4 states for the depth the ' \
               'pavement reaches / the window mean (%s, %s)' % (m.forc.deepTemp, m.forc.waterTemp, want[0], want[1])
    return None


def redraw_unmodelled(rng, hdr, rows, info, sp):
    """twin file: every header line except cells 6..8 of line 1 and line 4, every row outside the window and every
    unmodelled cell of the window rows re-drawn; the ten modelled cells of the window rows kept"""
    h2 = [list(x) for x in hdr]
    for k in (1, 2, 4, 5, 6, 7):
        h2[k] = [h2[k][0] + '!'] + [other_cell(rng) for _ in range(rng.randint(0, 4))]
    for k in range(len(h2[0])):
        if k not in (6, 7, 8):
            h2[0][k] = other_cell(rng)
    s, n = info['start'], 24 * sp['days']
    r2 = []
    for i, row in enumerate(rows):
        if s <= i < s + n:
            r2.append([c if j in MODELLED else other_cell(rng) for j, c in enumerate(row)])
        else:
            r2.append([other_cell(rng) for _ in range(rng.choice([3, 9, 22, 35]))])
    return h2, r2


def ser_spec(sp):
    return {k: (frac_str(v) if isinstance(v, F) else v) for k, v in sp.items()}


def de_spec(cfg):
    sp = dict(cfg)
    for k in ('droad', 'kroad', 'croad', 'windmin'):
        if sp.get(k) is not None:
            sp[k] = F(sp[k])
    return sp


def compare_twins(r, q):
    """written files of two runs on twin rural files differ only where the rural files differ; None or a message"""
    from props import c01
    o1, o2 = c01.pyparse(r.out), c01.pyparse(q.out)
    i1, i2 = c01.pyparse(r.rural), c01.pyparse(q.rural)
    if len(o1) != len(o2):
        return 'twin files written with %d / %d lines' % (len(o1), len(o2))
    for a in range(len(o1)):
        for b in range(max(len(o1[a]), len(o2[a]))):
            ca = o1[a][b] if b < len(o1[a]) else None
            cb = o2[a][b] if b < len(o2[a]) else None
            ia = i1[a][b] if b < len(i1[a]) else None
            ib = i2[a][b] if b < len(i2[a]) else None
            if ca != cb and ia == ib:
                return ('line %d field %d written as %r / %r for two rural files that agree there (%r) and on every '
                        'modelled cell' % (a, b, ca, cb, ia))
    return None


def replay_case(chk, case):
    """Re-evaluate the oracles on the rural file and configuration of a replay file."""
    pkg = ST.load_pkg()
    sp = de_spec(case['config'])
    info = dict(start=24 * (INOBIS[sp['month'] - 1] + sp['day'] - 1))
    r = real_run(chk, pkg, 0, sp, None, tag='replay', text=case['rural_file_text'])
    msg = oracles(pkg, r, info)
    if msg is None and case.get('twin_file_text') and r.stage is None:
        q = real_run(chk, pkg, 0, sp, None, tag='replayb', text=case['twin_file_text'])
        msg = ('twin run (unmodelled cells re-drawn) raised %s' % q.stage) if q.stage is not None else compare_twins(r, q)
    return msg


# ----------------------------------------------------------------------------- the check
def plan(chk):
    rng = chk.rng
    big = chk.tier == 'thorough'
    cases = []
    n_ok = 18 if not big else 90
    for i in range(n_ok):
        sp = dict(kind='ok', edge=None, month=1, day=[1, 1, 2, 1][i % 4], days=1, hours=1,
                  dt=3600 if (i % 6 != 4) else 1800, p=[1, 0, 2, 4, 1, 3, 6][i % 7], hot=(i % 2 == 0),
                  sun=(i % 3 != 1), nb=1 if i % 3 else 2, nrec=[3, 4, 5, 2, 3, 1, 3, 0, 4][i % 9],
                  droad=[F('0.5'), F('0.35'), F('0.05'), F('1.0'), F('0.2'), F('0.12')][i % 6],
                  kroad=ST.rq(rng, 0.5, 2, 10), croad=ST.rq(rng, 1000000, 2000000, 1),
                  windmin=[None, F(4), None][i % 3], sim_too=(i % 3 == 0), twin=(i % 3 == 2))
        if i % 9 == 7:
            sp.update(days=2)
        if i % 9 == 8:
            sp.update(short_file=True, nrec=2)
        if i % 18 == 13:
            sp.update(dt=3600, hours=2, nb=1)
        if i % 18 == 16:
            sp.update(dt=3600, hours=3, nb=1, sim_too=False)     # three passes: about 10 s (four are out of reach)
        cases.append(sp)
    edges = ['hdr-short-loc', 'hdr-bad-loc', 'hdr-bad-ground', 'hdr-bad-count', 'hdr-few-rows', 'bad-dt', 'zero-dt',
             'wx-text', 'wx-short-row', 'wx-abs-zero', 'wx-empty-window', 'refused', 'deep-first', 'text-wind0',
             'text-wind1', 'text-dir0', 'text-dir1', 'text-infra0', 'text-infra1', 'text-unread', 'text-all']
    for j, e in enumerate(edges * (1 if not big else 3)):
        sp = dict(kind=e, edge=e, month=1, day=1, days=1, hours=1, dt=3600, p=1, hot=(j % 2 == 0), sun=True, nb=1,
                  nrec=3, droad=F('0.5'), kroad=F(1), croad=F(1600000), windmin=None, sim_too=False, twin=False)
        if e == 'bad-dt':
            sp['dt'] = rng.choice([7, 480, 3601])
        elif e == 'zero-dt':
            sp['dt'] = 0
        elif e == 'refused':
            sp.update(droad=F(rng.choice([13, 20])), nrec=rng.choice([3, 4]))
        elif e == 'deep-first':
            sp.update(deep_first=True, nrec=4)
        elif e == 'text-unread':
            sp['text_unread'] = True
        elif e.endswith('1'):
            sp['hours'] = 2       # the second pass reads row 1 and fails at once: costs one pass
        cases.append(sp)
    for sp in cases:
        sp['city_seed'] = rng.getrandbits(32)
    return cases


def run_pipeline(chk):
    """The composition-D tie; called from props/c01.py after `morph.run_morph`."""
    rng = chk.rng
    pkg = ST.load_pkg()
    pairs, branches, nor, bad, ntw, btw = [], collections.Counter(), 0, 0, 0, 0
    t_py = time.time()
    specs = plan(chk)
    for idx, sp in enumerate(specs):
        hdr, rows, info = gen_file(rng, sp)
        if sp['edge']:
            apply_edge(rng, sp, hdr, rows, info)
        r = real_run(chk, pkg, idx, sp, hdr + rows)
        pairs.append((r.line, r.ans))
        if sp['sim_too'] and r.ans_sim:
            pairs.append((r.line_sim, r.ans_sim))
        branches[sp['kind'] + ('' if r.stage is None else '->' + r.stage)] += 1
        msg = oracles(pkg, r, info)
        extra = {}
        if r.stage is None:
            nor += 1
            if msg is None and sp['twin']:
                h2, r2 = redraw_unmodelled(rng, r.hdr_in, r.rows_in, info, sp)
                q = real_run(chk, pkg, idx, sp, h2 + r2, tag='b')
                ntw += 1
                msg = ('twin run (unmodelled cells re-drawn) raised %s' % q.stage) if q.stage is not None \
                    else compare_twins(r, q)
                if msg:
                    btw += 1
                    extra = {'twin_file_text': open(q.rural, newline='').read()}
        if msg:
            bad += 1
            if bad <= 3:
                chk.violation('impl-violation', 'Pipeline oracle on a real generate / simulate (first hour) / write_epw run',
                              case=dict({'replay_kind': 'pipeline', 'config': ser_spec(sp),
                                         'rural_file_text': open(r.rural, newline='').read()}, **extra),
                              observed=msg,
                              expected='file = rural file except cells 6,7,8,21 of the written row; wind = max(rural wind, '
                                       'windMin); moisture = rural humidity ratio of that row; site and deep temperature '
                                       'from lines 1 and 4 of the header; unmodelled cells influence nothing')
    t_py = time.time() - t_py
    t_lean = time.time()
    chk.correspond('generate;simulate;write_epw~pipeline', 'Pipeline', pairs,
                   rule='the REAL generate(); simulate(); write_epw() of the fractionised package (exact rationals, shared '
                        'libm stubs) on synthetic rural files (generated LOCATION line, ground line of 0..5 depths, 24+ '
                        'rows with generated cells in every spelling float() reads, quoted / odd unmodelled cells, LF / '
                        'CRLF) with a shrunk city, for the first hour of the run (simTime.days / nt set on the generated '
                        'object; dt 3600 or 1800) vs Lean pipelineCore given the same parameters and the state after '
                        'generate(): the complete written file byte for byte, or the failing stage (header, timestep, '
                        'Weather, refused road, exception class of the pass); for a third of the runs also the complete '
                        'post-state and records (pipelineSim); failing streams: short / non-numeric LOCATION line, '
                        'garbage in the ground line, bad count, missing header lines, refused and zero timestep, text / '
                        'short row / absolute zero in the window, empty window, road below the deepest depth, text in the '
                        'wind / radiation / infrared cell of the row a pass reads, text in cells no pass reads',
                   nontrivial=lambda line, impl: impl.startswith('ok'),
                   classify=lambda line, impl: ('written' if line.startswith('pipe') else 'post-state') if impl.startswith('ok') else impl)
    chk.measurements['pipeline_tie_seconds'] = {'real pipeline (python, exact)': round(t_py, 1),
                                                'lean driver': round(time.time() - t_lean, 1)}
    chk.direct('Pipeline-oracle(file, stamp, wind, moisture, forcing, site, deep temperature)', len(specs), nor,
               'on every real run: C01 preservation oracle on the written file; the written row keeps the stamp cells of '
               'rural row start + n; wind cell = max(rural wind cell, windMin) formatted; canyon humidity ratio = '
               'hum_from_rhum_temp of the RH / T / P cells of that row and written T / Tdp / RH = psychrometrics of '
               '(canyon temperature, that ratio, that pressure cell); the forcing object after the last pass = the cells '
               'of the row that pass read (infrared, direct, diffuse, temperature, RH, pressure, wind, humidity ratio); '
               'RSM.lat/lon/gmt = cells 6..8 of line 1; deep / '
               'water temperature = monthly cell of line 4 for the depth the pavement reaches (or the window mean); '
               'rural file unchanged; after an exception no output file', mismatches=bad - btw, branches=dict(branches))
    chk.direct('Pipeline-oracle(unmodelled cells irrelevant: twin files)', ntw, ntw,
               'second real run on a twin file whose header lines (except cells 6..8 of line 1 and line 4), rows outside '
               'the window and unmodelled cells of the window rows are all re-drawn: the two written files differ only '
               'where the two rural files differ', mismatches=btw)
    if nor < 4:
        chk.corr_problems.append({'tie': 'generate;simulate;write_epw~pipeline', 'case': None,
                                  'impl': 'only %d runs completed' % nor, 'model': None})
    chk.assumptions.append(
        'composition D (Model/Pipeline.lean): parameters of the model are the configuration generate() derives from '
        'the parameter file and the reference library (Step.Cfg, minus lat / lon / gmt / dt), the objects it builds '
        '(initial State), droad / kroad / croad and the libm symbols; the exact tie covers the first 1-3 hours of a '
        'run (exact rationals of a fourth pass are out of reach), the theorems are about whole days (pipeline = '
        'pipelineCore at hours = 24*days); of the constructors generate() calls between Weather and the road column '
        '(UBLDef, Element, RSMDef, UCMDef) only the TypeError of max(staUmod[0], windMin) in UCMDef is modelled')
