"""C14 - HVAC never exceeds capacity and tracks its set-point.

Tie: the REAL `Building.BEMCalc` executed over exact rationals (fracexec) against the Lean model
`Uwg.Hvac.bemCalc` evaluated at Q, on generated building states steered into every branch
(cooling not limited / capacity-limited, heating not limited / limited, idle, "free cooling",
AIR and WATER condensers, night/day set-points, both ceiling coefficients) plus malformed states
(zero divisors, implausible temperatures).  `indoorRhum` (psychrometrics) is outside the model
and not compared.

Oracle: the property's own statement (exclusivity, capacity, set-point, energy, waste heat)
evaluated on the exact results of the real code, and - with a 1e-9 relative tolerance - on every
`BEMCalc` call of real float simulations in a hot and a cold climate.

Free cooling (described, not flagged; see Props/C14.lean header): when the canyon is at or below
288 K and the load sum at the cooling set-point is positive, no system runs (no energy, no waste
heat, Qhvac = 0) but the load is still subtracted from the indoor balance, so the room ends the
step exactly at the cooling set-point whatever the rated capacity is.  The oracles treat the
system as *inactive* there (Qhvac = 0) and the branch counts report how often it happens.
"""
import json
import os
import sys
import traceback
import types
from fractions import Fraction as F

import core
import fracexec
import s3_util as S3
import t3_util as T3
import u4_util as U4
from fracexec import frac_str

MODULE = 'UwgVerif.Props.C14'
THEOREMS = [
    'Uwg.C14.bemCalc_ok', 'Uwg.C14.exclusive_cool', 'Uwg.C14.exclusive_heat',
    'Uwg.C14.exclusive_idle', 'Uwg.C14.never_both', 'Uwg.C14.demands_exclusive',
    'Uwg.C14.cool_capacity', 'Uwg.C14.cool_capacity_attrs', 'Uwg.C14.heat_capacity',
    'Uwg.C14.tracks_setpoint_cool', 'Uwg.C14.tracks_setpoint_heat',
    'Uwg.C14.limited_cool_above_setpoint', 'Uwg.C14.limited_heat_below_setpoint',
    'Uwg.C14.free_cooling_tracks', 'Uwg.C14.h2_pos',
    'Uwg.C14.energy_cool', 'Uwg.C14.energy_heat', 'Uwg.C14.waste_air', 'Uwg.C14.waste_water',
    'Uwg.C14.waste_heat', 'Uwg.C14.sensWaste_formula', 'Uwg.C14.sensWaste_nonneg',
    'Uwg.C14.asis_exceeds_capacity', 'Uwg.C14.free_cooling_exceeds_capacity',
]

FIELDS = ['floorHeight', 'intHeatNight', 'intHeatDay', 'intHeatFRad', 'intHeatFLat', 'infil',
          'vent', 'glazingRatio', 'uValue', 'shgc', 'copAdj', 'coolcap', 'heateff', 'heatCap',
          'coolSetDay', 'coolSetNight', 'heatSetDay', 'heatSetNight', 'indoorTemp', 'indoorHum',
          'latWaste0', 'bldHeight', 'verToHor', 'bldDensity', 'canTemp', 'canHum', 'tWall',
          'tCeil', 'tMass', 'solRec', 'swh', 'elec', 'light', 'gas', 'pres', 'waterTemp', 'lv',
          'cp', 'nightSetStart', 'nightSetEnd', 'secDay', 'dt']
OUT = ['nFloor', 'int_heat', 'sensCoolDemand', 'sensHeatDemand', 'dehumDemand', 'Qhvac', 'Qheat',
       'coolConsump', 'heatConsump', 'sensWaste', 'latWaste', 'indoor_temp', 'indoor_hum',
       'fluxWall', 'fluxRoof', 'fluxMass', 'fluxSolar', 'fluxWindow', 'fluxInterior',
       'fluxInfil', 'fluxVent', 'ElecTotal', 'GasTotal']
T_HOT = F(49) + F('273.15')


def rq(rng, lo, hi, den=None):
    den = den or rng.choice([1, 2, 4, 5, 10, 20, 100])
    return F(rng.randint(int(round(lo * den)), int(round(hi * den))), den)


REFUSED = ['condtype=steam', 'condtype=', 'condtype=AIRWATER', 'cop=-1', 'cop=-1/1000', 'coolcap=-5', 'heateff=-1/10',
           'glazing_ratio=3/2', 'glazing_ratio=-1/100', 'shgc=-1/5', 'shgc=11/10', 'floor_height=-3', 'infil=-1',
           'vent=-1/2', 'u_value=-2', 'int_heat_flat=-1/2', 'int_heat_frad=-1/4', 'int_heat_night=-1']
MODES = ['cool', 'cool-lim', 'heat', 'heat-lim', 'idle', 'free', 'any', 'crossed']


def gen_case(rng, mode=None):
    """A building state steered towards `mode` (the branch actually taken is measured afterwards
    from the implementation's result, see `classify_result`)."""
    mode = mode or rng.choice(MODES)
    c = {}
    c['floorHeight'] = rq(rng, 2.5, 5, 10)
    c['bldHeight'] = rng.choice([rq(rng, 1, 4, 2), rq(rng, 3, 80, 2), rq(rng, 3, 80, 2)])
    c['verToHor'] = rq(rng, 0.1, 2.5, 20)
    c['bldDensity'] = rq(rng, 0.05, 0.9, 20)
    c['glazingRatio'] = rng.choice([F(0), rq(rng, 0, 0.9, 20), rq(rng, 0, 0.9, 20)])
    c['uValue'] = rq(rng, 0.5, 6, 10)
    c['shgc'] = rq(rng, 0.1, 0.9, 20)
    c['infil'] = rq(rng, 0, 2, 20)
    c['vent'] = F(rng.randint(0, 30), 10000)
    c['intHeatNight'] = rq(rng, 0, 30, 4)
    c['intHeatDay'] = rq(rng, 0, 60, 4)
    c['intHeatFRad'] = rq(rng, 0, 0.7, 20)
    c['intHeatFLat'] = rq(rng, 0, 0.5, 20)
    c['cond'] = rng.choice(['AIR', 'WATER'])
    c['copAdj'] = rq(rng, 1.5, 6, 10)
    c['coolcap'] = rq(rng, 30, 400, 2)
    c['heateff'] = rng.choice([F(1), rq(rng, 0.4, 1, 20), rq(rng, 0.4, 1, 20)])
    c['heatCap'] = rng.choice([F(999), rq(rng, 30, 400, 2)])
    c['coolSetDay'] = rq(rng, 295, 300, 2)
    c['coolSetNight'] = rq(rng, 296, 303, 2)
    c['heatSetDay'] = rq(rng, 290, 294, 2)
    c['heatSetNight'] = rq(rng, 286, 293, 2)
    c['indoorHum'] = rq(rng, 0.001, 0.02, 2000)
    c['latWaste0'] = rq(rng, -5, 5, 1)
    c['canHum'] = rq(rng, 0.001, 0.025, 2000)
    c['solRec'] = rng.choice([F(0), rq(rng, 0, 500, 1)])
    c['swh'] = rq(rng, 0, 2, 20)
    c['elec'] = rq(rng, 0, 20, 4)
    c['light'] = rq(rng, 0, 20, 4)
    c['gas'] = rq(rng, 0, 5, 4)
    c['pres'] = rq(rng, 90000, 104000, 1)
    c['waterTemp'] = rq(rng, 274, 305, 2)
    c['lv'] = rng.choice([F(2260000), F(2501000), rq(rng, 2200000, 2600000, 1)])
    c['cp'] = rng.choice([F(1004), F(1006), rq(rng, 990, 1020, 1)])
    c['nightSetStart'] = rng.choice([F(18), F(19), F(22), rq(rng, 16, 23, 2)])
    c['nightSetEnd'] = rng.choice([F(8), F(6), F(7), rq(rng, 4, 10, 2)])
    c['secDay'] = rng.choice([F(300 * rng.randint(0, 288)), F(300 * rng.randint(0, 288)),
                              c['nightSetStart'] * 3600, c['nightSetEnd'] * 3600])
    c['dt'] = F(rng.choice([60, 300, 600, 900, 3600]))
    tc = max(c['coolSetDay'], c['coolSetNight'])
    th = min(c['heatSetDay'], c['heatSetNight'])
    spread = 3
    if mode in ('cool', 'cool-lim'):
        c['canTemp'] = rq(rng, 288.5, 312, 4)
        base = tc + rq(rng, 0, 5, 4)
        spread = 1
        c['indoorTemp'] = rq(rng, 292, 308, 4)
        c['coolcap'] = rq(rng, 150, 600, 2)
        if mode == 'cool-lim':
            c['coolcap'] = rq(rng, 0.5, 25, 4)
            base = tc + rq(rng, 1, 12, 4)
    elif mode in ('heat', 'heat-lim'):
        c['canTemp'] = rq(rng, 255, 287.5, 4)
        base = th - rq(rng, 0, 5, 4)
        spread = 1
        c['indoorTemp'] = rq(rng, 280, 296, 4)
        c['intHeatNight'] = rq(rng, 0, 4, 4)
        c['intHeatDay'] = rq(rng, 0, 6, 4)
        c['solRec'] = rng.choice([F(0), rq(rng, 0, 60, 1)])
        c['heatCap'] = rng.choice([F(999), rq(rng, 300, 900, 2)])
        c['vent'] = F(rng.randint(0, 10), 10000)
        if mode == 'heat-lim':
            c['heatCap'] = rq(rng, 0.5, 25, 4)
            base = th - rq(rng, 1, 15, 4)
    elif mode == 'idle':
        # surfaces, canyon and room between the set-points, nearly no gains
        kind = rng.choice(['between', 'between', 'can288', 'heatdemand-warm-canyon'])
        tc = min(c['coolSetDay'], c['coolSetNight'])
        th = max(c['heatSetDay'], c['heatSetNight'])
        mid = (tc + th) / 2
        base = mid + rq(rng, -1, 1, 4)
        spread = 1
        c['canTemp'] = mid + rq(rng, -1.5, 1.5, 4)
        c['indoorTemp'] = mid + rq(rng, -2, 2, 4)
        c['intHeatNight'] = rq(rng, 0, 0.5, 20)
        c['intHeatDay'] = rq(rng, 0, 0.5, 20)
        c['solRec'] = F(0)
        if kind == 'can288':
            c['canTemp'] = F(288)
            base = rq(rng, 280, 300, 4)
        elif kind == 'heatdemand-warm-canyon':
            c['canTemp'] = rq(rng, 288, 292, 4)
            base = rq(rng, 270, 285, 4)
    elif mode == 'free':
        # cool canyon but a positive load at the cooling set-point (big gains / warm fabric)
        c['canTemp'] = rng.choice([F(288), rq(rng, 280, 288, 4), rq(rng, 284, 288, 4)])
        base = tc + rq(rng, 1, 8, 4)
        c['indoorTemp'] = rq(rng, 292, 304, 4)
        c['intHeatNight'] = rq(rng, 20, 120, 4)
        c['intHeatDay'] = rq(rng, 20, 120, 4)
        c['infil'] = rq(rng, 0, 0.3, 20)
        c['vent'] = F(rng.randint(0, 3), 10000)
        c['glazingRatio'] = rq(rng, 0, 0.3, 20)
        c['coolcap'] = rng.choice([c['coolcap'], rq(rng, 0.5, 12, 4)])
    elif mode == 'crossed':
        # heating set-point above cooling set-point: both demands can be positive
        c['coolSetDay'] = c['coolSetNight'] = rq(rng, 290, 294, 2)
        c['heatSetDay'] = c['heatSetNight'] = rq(rng, 295, 300, 2)
        c['canTemp'] = rq(rng, 280, 296, 4)
        base = rq(rng, 291, 297, 4)
        c['indoorTemp'] = rq(rng, 288, 299, 4)
        c['heatCap'] = rng.choice([F(999), rq(rng, 1, 400, 2)])
        c['coolcap'] = rq(rng, 1, 600, 2)
    else:
        c['canTemp'] = rq(rng, 260, 312, 4)
        base = rq(rng, 280, 306, 4)
        c['indoorTemp'] = rq(rng, 283, 306, 4)
        c['heatCap'] = rng.choice([F(999), rq(rng, 1, 400, 2)])
        c['coolcap'] = rq(rng, 1, 600, 2)
    c['tWall'] = base + rq(rng, -spread, spread, 4)
    c['tMass'] = base + rq(rng, -spread, spread, 4)
    c['tCeil'] = rng.choice([base + rq(rng, -spread, 2 * spread, 4), c['indoorTemp'],
                             c['indoorTemp'] + 1])
    c['mode'] = mode
    # how the Building object is made (all routes the package offers; the model sees only the meaning):
    #  condText / condVia: condenser type text as given by the user - any letter case the setter accepts -
    #    through the constructor or assigned afterwards through the setter;
    #  copNominal / copVia: the nominal `cop` attribute differs from the COP in force (`cop_adj`):
    #    'frozen' = constructor(cop = copAdj) freezes cop_adj, then `b.cop = copNominal` is assigned;
    #    'direct' = constructor(cop = copNominal), then `b.cop_adj = copAdj` is assigned.
    c['condText'] = c['cond'] if rng.random() < 0.4 else S3.mixed_case(rng, c['cond'])
    c['condVia'] = rng.choice(['ctor', 'setter'])
    c['copNominal'] = rng.choice([c['copAdj'], rq(rng, 1.5, 6, 10), rq(rng, 1.5, 6, 10)])
    c['copVia'] = rng.choice(['frozen', 'direct'])
    #  refused: assignments the Building setters must refuse, attempted (under try/except) after construction
    #    and before the step - a refused value must leave no trace in the step
    c['refused'] = ';'.join(rng.sample(REFUSED, rng.choice([0, 1, 2, 3])))
    #  documented: attributes that the Building docstring documents but that are no input of the step
    #    (canyon_fraction, msys, FanMax, area_floor, RadF*, Twb, Tdp, copAdj, initial_temp, ...) and the outputs
    #    of "the previous step" (stale sensWaste, Qhvac, flux*, ...) assigned legal non-default values before the
    #    step: none / one / some / all of them / all stale outputs.  The model does not see them.
    c['documented'] = T3.building_documented(rng)
    #  standinSeed: 0 = the wall / roof / mass / BEMDef stand-ins carry only what the model reads; otherwise they
    #    carry every attribute Element / BEMDef document (albedo, emissivity, vegcoverage, infra, lat, sens, solAbs,
    #    aeroCond, T_ext, T_int, flux; Qocc, Nocc, ElecTotal, frac, fl_area, T_wallex, ...) with legal values drawn
    #    from this seed
    c['standinSeed'] = rng.choice([0, rng.randint(1, 10 ** 9), rng.randint(1, 10 ** 9)])
    #  circ: circumstance of the call that is no input of the step - the Building rendered (repr / str) right before
    #    the step and right after it (before its results are read), DEBUG logging switched on around the step, both
    c['circ'] = U4.circ_pick(rng)
    return c


STRKEYS = ('cond', 'mode', 'condText', 'condVia', 'copVia', 'refused', 'documented', 'circ')


def edge_cases(rng):
    """Malformed / boundary states: every guard of the model, in both orders with `fatal`."""
    out = []

    def mk(mode, **kw):
        c = gen_case(rng, mode)
        c.update(kw)
        c['mode'] = 'edge'
        out.append(c)
    for mode in ('cool', 'heat', 'idle'):
        mk(mode, floorHeight=F(0))
        mk(mode, bldDensity=F(0))
        mk(mode, indoorTemp=F(0))
        mk(mode, indoorHum=-F(1000000, 1607858))
        mk(mode, heateff=F(0))
        mk(mode, bldHeight=F(0))
        mk(mode, indoorTemp=F('223.15'))
        mk(mode, indoorTemp=F('373.15'))
        mk(mode, indoorTemp=F('223.14'))
        mk(mode, indoorTemp=F('373.16'))
        mk(mode, tCeil=F('373.16'))
        mk(mode, tCeil=F('223.14'))
        mk(mode, tCeil=F('373.15'))
        mk(mode, indoorTemp=F(400), floorHeight=F(0))      # zerodiv precedes fatal
        mk(mode, indoorTemp=F(400), heateff=F(0))          # fatal precedes zerodiv
        mk(mode, lv=F(0))
        mk(mode, canTemp=F(288))
    mk('cool', copAdj=F(0))
    mk('cool', indoorTemp=F('283.15'))
    mk('cool', cp=F(0))
    mk('cool-lim', coolcap=F(0))
    mk('cool', coolcap=F(0))
    mk('heat-lim', heatCap=F(0))
    mk('cool', indoorTemp=F(280))                           # negative VolCool
    mk('cool', indoorHum=F(1, 1000))                        # Qdehum < 0 while dehumDemand = 0
    mk('heat', heateff=F(3, 2))                             # "efficiency" above one
    mk('heat', waterTemp=F(330))
    mk('idle', waterTemp=F(330))
    return out


def line_of(c):
    return 'bem cond=%s ' % c['cond'] + ' '.join('%s=%s' % (k, frac_str(c[k])) for k in FIELDS)


def impl_bem(pkg, c):
    """Run the REAL Building.BEMCalc over exact rationals. Returns dict of attributes or 'err …'
    or 'skip …' (exception inside psychrometrics, which is outside the C14 model)."""
    Building = pkg.building.Building
    text = c.get('condText', c['cond'])
    via_setter = c.get('condVia') == 'setter'
    nominal = c.get('copNominal', c['copAdj'])
    frozen = c.get('copVia', 'direct') == 'frozen'
    try:
        b = Building(c['floorHeight'], c['intHeatNight'], c['intHeatDay'], c['intHeatFRad'],
                     c['intHeatFLat'], c['infil'], c['vent'], c['glazingRatio'], c['uValue'],
                     c['shgc'], c['cond'] if via_setter else text, c['copAdj'] if frozen else nominal,
                     c['coolcap'], c['heateff'], F(293))
        if via_setter:
            b.condtype = text
        if frozen:
            b.cop = nominal            # cop_adj stays what the constructor froze
        else:
            b.cop_adj = c['copAdj']
    except AssertionError:
        return 'err assert'
    except ZeroDivisionError:
        return 'err zerodiv'
    for item in [x for x in c.get('refused', '').split(';') if x]:
        attr, val = item.split('=')
        try:
            setattr(b, attr, val if attr == 'condtype' else F(val))
        except AssertionError:
            pass
    b.heat_cap = c['heatCap']
    b.cool_setpoint_day = c['coolSetDay']
    b.cool_setpoint_night = c['coolSetNight']
    b.heat_setpoint_day = c['heatSetDay']
    b.heat_setpoint_night = c['heatSetNight']
    b.indoor_temp = c['indoorTemp']
    b.indoor_hum = c['indoorHum']
    b.int_heat_f_rad = c['intHeatFRad']
    b.latWaste = c['latWaste0']
    T3.apply_documented(b, c.get('documented', ''))
    NS = types.SimpleNamespace
    UCM = NS(bldHeight=c['bldHeight'], verToHor=c['verToHor'], bldDensity=c['bldDensity'],
             canTemp=c['canTemp'], canHum=c['canHum'])
    ex = [{}, {}, {}, {}]
    if c.get('standinSeed'):
        import random
        r_ = random.Random(int(c['standinSeed']))
        ex = [T3.element_extras(r_), T3.element_extras(r_), T3.element_extras(r_), T3.bemdef_extras(r_)]
        for e_ in ex[:3]:
            e_.update(sens=rq(r_, -50, 300, 2), solRec=rq(r_, 0, 500, 1))
        ex[3].update(frac=rq(r_, 0, 1, 20), fl_area=rq(r_, 100, 100000, 1))
    BEM = NS(**dict(ex[3], wall=NS(**dict(ex[0], layerTemp=[c['tWall'] + 7, c['tWall']], solRec=c['solRec'])),
                    roof=NS(**dict(ex[1], layerTemp=[c['tCeil'] - 5, c['tCeil']])),
                    mass=NS(**dict(ex[2], layerTemp=[c['tMass'], c['tMass'] + 3])),
                    swh=c['swh'], elec=c['elec'], light=c['light'], gas=c['gas']))
    forc = NS(pres=c['pres'], waterTemp=c['waterTemp'])
    parameter = NS(lv=c['lv'], cp=c['cp'], nightSetStart=c['nightSetStart'],
                   nightSetEnd=c['nightSetEnd'])
    simTime = NS(secDay=c['secDay'], dt=c['dt'], month=1, day=1)
    circ = c.get('circ', '')
    if U4.rendered(circ):
        U4.observe(b)
    try:
        with U4.under(circ):
            b.BEMCalc(UCM, BEM, forc, parameter, simTime)
        if U4.rendered(circ):
            U4.observe(b)
    except (ZeroDivisionError, ValueError) as e:
        tb = traceback.extract_tb(sys.exc_info()[2])
        if tb and tb[-1].name in ('psychrometrics', 'saturation_pressure', 'log'):
            return 'skip psychrometrics %s' % type(e).__name__
        return 'err zerodiv' if isinstance(e, ZeroDivisionError) else 'err value'
    except AttributeError:
        return 'err attr'
    except Exception as e:                                   # the code raises bare Exception
        if type(e) is Exception and 'FATAL ERROR' in str(e):
            return 'err fatal'
        raise
    return {k: F(getattr(b, k)) for k in OUT}


def fmt_out(r):
    if isinstance(r, str):
        return r
    return 'ok [' + ';'.join(frac_str(r[k]) for k in OUT) + ']'


# ------------------------------------------------------------------------------ the property
def setpoints(c):
    """Active set-points by the rule in the building schedule (night / day)."""
    h = c['secDay'] / 3600
    night = h < c['nightSetEnd'] or h > c['nightSetStart'] or abs(h - c['nightSetStart']) < F(1, 10 ** 10)
    return (c['coolSetNight'], c['heatSetNight']) if night else (c['coolSetDay'], c['heatSetDay'])


def classify_result(c, r):
    if isinstance(r, str):
        return r.replace(' ', '-')
    nF = r['nFloor']
    cond = c['cond']
    if r['Qhvac'] > 0 or r['coolConsump'] > 0:
        lim = r['Qhvac'] == c['coolcap'] * nF
        return 'cool-%s-%s' % ('limited' if lim else 'unlimited', cond)
    if r['Qheat'] > 0 or r['heatConsump'] > 0:
        lim = r['Qheat'] == c['heatCap'] * nF
        return 'heat-%s' % ('limited' if lim else 'unlimited')
    if r['sensCoolDemand'] > 0:
        return 'free-cooling'
    return 'idle'


def oracle(c, r, tol=None):
    """The C14 statement evaluated on attribute values `r` produced by the implementation for the
    state `c`. Exact when `tol` is None, otherwise relative tolerance `tol` (float runs).
    Returns None or a message."""
    def eq(a, b, scale=None):
        if tol is None:
            return a == b
        s = max(abs(a), abs(b), scale or 0, 1e-300)
        return abs(a - b) <= tol * s

    def le(a, b, scale=None):
        if tol is None:
            return a <= b
        s = max(abs(a), abs(b), scale or 0, 1e-300)
        return a <= b + tol * s

    nF = r['nFloor']
    T_cool, T_heat = setpoints(c)
    cap = c['coolcap'] * nF
    hcap = c['heatCap'] * nF
    sens = r['sensCoolDemand'] * nF           # delivered sensible cooling per footprint
    delivered = sens + r['dehumDemand']
    cooling = r['Qhvac'] > 0 or r['coolConsump'] > 0
    heating = r['Qheat'] > 0 or r['heatConsump'] > 0
    # exclusivity
    if cooling and heating:
        return 'heating and cooling active together (Qhvac=%s, Qheat=%s)' % (
            float(r['Qhvac']), float(r['Qheat']))
    if heating and (r['dehumDemand'] != 0 or r['sensCoolDemand'] != 0):
        return 'heating active but cooling delivery not zero'
    if cooling and r['sensHeatDemand'] != 0:
        return 'cooling active but heat delivery not zero'
    if not cooling and (r['dehumDemand'] != 0 or r['Qhvac'] != 0 or r['coolConsump'] != 0):
        return 'cooling quantities non-zero while the cooling system is off'
    if not heating and (r['Qheat'] != 0 or r['heatConsump'] != 0):
        return 'heating quantities non-zero while the heating system is off'
    # capacity
    if cooling:
        if c['coolcap'] >= 0 and not le(delivered, cap):
            return 'delivered cooling %s exceeds capacity %s' % (float(delivered), float(cap))
        if not eq(r['Qhvac'], delivered):
            return 'Qhvac %s is not sensible+dehumidification %s' % (
                float(r['Qhvac']), float(delivered))
    if heating and not le(r['Qheat'], hcap):
        return 'delivered heating %s exceeds capacity %s' % (float(r['Qheat']), float(hcap))
    # set-point
    if cooling and c['coolcap'] >= 0:
        below_cap = (delivered < cap) if tol is None else (delivered < cap * (1 - 1e-6))
        if below_cap and not eq(r['indoor_temp'], T_cool):
            return 'cooling below capacity but indoor temperature %s != set-point %s' % (
                float(r['indoor_temp']), float(T_cool))
        if not below_cap and not le(T_cool, r['indoor_temp']):
            return 'cooling at capacity but indoor temperature %s ends below the set-point %s' % (
                float(r['indoor_temp']), float(T_cool))
    if heating and c['heatCap'] >= 0:
        below_cap = (r['Qheat'] < hcap) if tol is None else (r['Qheat'] < hcap * (1 - 1e-6))
        if below_cap and not eq(r['indoor_temp'], T_heat):
            return 'heating below capacity but indoor temperature %s != set-point %s' % (
                float(r['indoor_temp']), float(T_heat))
        if not below_cap and not le(r['indoor_temp'], T_heat):
            return 'heating at capacity but indoor temperature %s ends above the set-point %s' % (
                float(r['indoor_temp']), float(T_heat))
    # energy use
    if cooling and not eq(r['coolConsump'] * nF * c['copAdj'], delivered):
        return 'coolConsump*COP %s != delivered cooling %s' % (
            float(r['coolConsump'] * nF * c['copAdj']), float(delivered))
    if heating and not eq(r['heatConsump'] * nF * c['heateff'], r['Qheat']):
        return 'heatConsump*efficiency %s != delivered heating %s' % (
            float(r['heatConsump'] * nF * c['heateff']), float(r['Qheat']))
    # rejected heat
    swh = c['swh'] * nF / 3600 * 4200 * (T_HOT - c['waterTemp'])
    other = (1 / c['heateff'] - 1) * swh + c['gas'] * (1 - c['heateff']) * nF
    hv = r['sensWaste'] - other
    scale = abs(r['sensWaste']) + abs(other)
    if cooling:
        want = delivered + (r['coolConsump'] * nF if c['cond'] == 'AIR' else 0)
        if not eq(hv, want, scale):
            return '%s-cooled rejected heat %s != removed heat%s %s' % (
                c['cond'], float(hv), ' + compressor work' if c['cond'] == 'AIR' else '',
                float(want))
    elif heating:
        # (floats: fuel - delivered cancels; the tolerance is relative to the two terms, not to their difference)
        if not eq(hv, r['heatConsump'] * nF - r['Qheat'], max(scale, abs(r['heatConsump'] * nF), abs(r['Qheat']))):
            return 'heating waste heat %s != fuel - delivered %s' % (
                float(hv), float(r['heatConsump'] * nF - r['Qheat']))
    elif not eq(hv, 0 * hv, scale):
        return 'HVAC waste heat %s with no system running' % float(hv)
    honest = (c['copAdj'] > 0 and c['coolcap'] >= 0 and 0 < c['heateff'] <= 1 and
              c['heatCap'] >= 0 and c['swh'] >= 0 and c['gas'] >= 0 and
              c['waterTemp'] <= T_HOT)
    if honest and not le(0 * hv, r['sensWaste'], scale):
        return 'rejected heat %s is negative' % float(r['sensWaste'])
    return None


def case_json(c):
    return {k: (str(v) if isinstance(v, F) else v) for k, v in c.items()}


# ------------------------------------------------------------------------------ live float runs
def find_tests_dir():
    for root in (core.REPO, '/repo'):
        d = os.path.join(root, 'tests')
        if os.path.isdir(os.path.join(d, 'epw')) and os.path.isdir(os.path.join(d, 'parameters')):
            return d
    return None


LIVE_RUNS = [
    # (label, epw, parameter file, month, zone, autosize)
    ('hot-singapore-jan', 'SGP_Singapore.486980_IWEC.epw', 'initialize_singapore.uwg', 1, None, 0),
    ('cold-toronto-jan', 'CAN_ON_Toronto.716240_CWEC.epw', 'initialize_toronto.uwg', 1, '5A', 0),
]
LIVE_RUNS_THOROUGH = [
    ('hot-singapore-jun-autosize', 'SGP_Singapore.486980_IWEC.epw', 'initialize_singapore.uwg', 6, None, 1),
    ('toronto-jul', 'CAN_ON_Toronto.716240_CWEC.epw', 'initialize_toronto.uwg', 7, '5A', 0),
    ('toronto-oct', 'CAN_ON_Toronto.716240_CWEC.epw', 'initialize_toronto.uwg', 10, '5A', 0),
    ('beijing-jan-autosize', 'CHN_Beijing.Beijing.545110_IWEC.epw', 'initialize_toronto.uwg', 1, '4B', 1),
    ('beijing-apr', 'CHN_Beijing.Beijing.545110_IWEC.epw', 'initialize_toronto.uwg', 4, '4B', 0),
    ('boston-feb', 'USA_MA_Boston-Logan.Intl.AP.725090_TMY3.epw', 'initialize_toronto.uwg', 2, '5A', 0),
]


def setup_constructed_custom(condtype, cop_after, bldtype='studio'):
    """Half of the stock is a custom reference building made with the real constructors; its condenser type is
    spelled as given and its nominal COP is re-assigned after construction (cop != cop_adj)."""
    def setup(m, uwg_pkg):
        bem, sch = S3.constructed_custom(uwg_pkg, condtype=condtype, cop=3.2, coolcap=90.0, bldtype=bldtype)
        if cop_after is not None:
            bem.building.cop = cop_after
        m.bld = [(bldtype, 'new', 0.5), ('largeoffice', 'pst80', 0.5)]
        m.ref_bem_vector, m.ref_sch_vector = m._check_reference_data([bem], [sch])
    return setup


def setup_library_custom(cop_after, condtype=None):
    """The shipped largeoffice/pst80 handed back as custom reference building with `building.cop` (and
    optionally `building.condtype`) assigned afterwards - the pattern of tests/test_UWG.py."""
    def setup(m, uwg_pkg):
        bem, sch = S3.custom_from_library(uwg_pkg)
        bem.building.cop = cop_after
        if condtype:
            bem.building.condtype = condtype
        m.day = 2                      # a weekday for the model: the office is occupied and cooled
        m.ref_bem_vector, m.ref_sch_vector = m._check_reference_data([bem], [sch])
    return setup


CUSTOM_RUNS = [
    ('custom-constructed-air-lowercase', 'SGP_Singapore.486980_IWEC.epw', 'initialize_singapore.uwg', 1, None, 0,
     setup_constructed_custom('air', 2.4)),
    ('custom-library-cop-reassigned', 'SGP_Singapore.486980_IWEC.epw', 'initialize_singapore.uwg', 1, None, 0,
     setup_library_custom(2.6)),
    ('custom-constructed-Water', 'SGP_Singapore.486980_IWEC.epw', 'initialize_singapore.uwg', 6, None, 0,
     setup_constructed_custom('Water', 4.5, bldtype='lab')),
]


def setup_custom_documented(values, condtype='AIR', bldtype='studio'):
    """Half of the stock is a custom reference building (real constructors) whose documented Building attributes
    were assigned before it was handed in - the hand-over through generate() must keep the step independent of
    them."""
    def setup(m, uwg_pkg):
        bem, sch = S3.constructed_custom(uwg_pkg, condtype=condtype, cop=3.0, coolcap=120.0, bldtype=bldtype)
        for a, v in values.items():
            setattr(bem.building, a, v)
        m.bld = [(bldtype, 'new', 0.5), ('largeoffice', 'pst80', 0.5)]
        m.ref_bem_vector, m.ref_sch_vector = m._check_reference_data([bem], [sch])
    return setup


def after_dragonfly(extra=None, rows=T3.DF_ROWS):
    """The per-typology assignment on model.BEM[i] after the stock is computed, as the Dragonfly export does
    (tests/test_fatal_error.py): floor_height, canyon_fraction, glazing_ratio, shgc, wall / roof albedo, roof
    vegetation; `extra`: further documented Building attributes."""
    def after(m, uwg_pkg):
        T3.dragonfly_typology(m, rows, extra)
    return after


DOC_VALUES = {'canyon_fraction': 0.6, 'msys': 0.02, 'FanMax': 3.5, 'area_floor': 4000.0, 'RadFOcc': 0.3,
              'LatFOcc': 0.25, 'RadFEquip': 0.4, 'RadFLight': 0.65, 'copAdj': 7.0, 'Twb': 290.0, 'Tdp': 288.0}
CUSTOM_RUNS += [
    ('dragonfly-typology-after-generate', 'SGP_Singapore.486980_IWEC.epw', 'initialize_singapore.uwg', 1, None, 0,
     None, after_dragonfly()),
    ('custom-constructed-documented-attributes', 'SGP_Singapore.486980_IWEC.epw', 'initialize_singapore.uwg', 1,
     None, 0, setup_custom_documented(DOC_VALUES), None),
]
CUSTOM_RUNS_THOROUGH = [
    ('dragonfly-typology-toronto-jul-canyon_fraction-0', 'CAN_ON_Toronto.716240_CWEC.epw', 'initialize_toronto.uwg',
     7, '5A', 0, None, after_dragonfly(dict(DOC_VALUES, canyon_fraction=0.0),
                                        rows=[(3.5, 0.0, 0.3, 0.4, 0.2, 0.3, 0.0)])),
    ('custom-water-documented-attributes-jun', 'SGP_Singapore.486980_IWEC.epw', 'initialize_singapore.uwg', 6,
     None, 1, setup_custom_documented(dict(DOC_VALUES, canyon_fraction=0.1), condtype='water', bldtype='lab'), None),
    ('custom-library-Air-autosize', 'SGP_Singapore.486980_IWEC.epw', 'initialize_singapore.uwg', 6, None, 1,
     setup_library_custom(5.5, 'Air')),
    ('custom-constructed-aIR-toronto-jul', 'CAN_ON_Toronto.716240_CWEC.epw', 'initialize_toronto.uwg', 7, '5A', 0,
     setup_constructed_custom('aIR', None)),
]


def state_of_building(b, UCM, BEM, forc, parameter, simTime):
    """The C14 input record of a live (float) BEMCalc call, read from outside before the call."""
    return dict(
        floorHeight=b.floor_height, intHeatNight=b.int_heat_night, intHeatDay=b.int_heat_day,
        intHeatFRad=getattr(b, 'int_heat_f_rad', 0.0), intHeatFLat=b.int_heat_flat,
        infil=b.infil, vent=b.vent, glazingRatio=b.glazing_ratio, uValue=b.u_value, shgc=b.shgc,
        cond=b.condtype.upper(), copAdj=b.cop_adj, coolcap=b.coolcap, heateff=b.heateff,
        heatCap=b.heat_cap, coolSetDay=b.cool_setpoint_day, coolSetNight=b.cool_setpoint_night,
        heatSetDay=b.heat_setpoint_day, heatSetNight=b.heat_setpoint_night,
        indoorTemp=b.indoor_temp, indoorHum=b.indoor_hum,
        latWaste0=getattr(b, 'latWaste', 0.0), bldHeight=UCM.bldHeight,
        verToHor=UCM.verToHor, bldDensity=UCM.bldDensity, canTemp=UCM.canTemp, canHum=UCM.canHum,
        tWall=BEM.wall.layerTemp[-1], tCeil=BEM.roof.layerTemp[-1], tMass=BEM.mass.layerTemp[0],
        solRec=BEM.wall.solRec, swh=BEM.swh, elec=BEM.elec, light=BEM.light, gas=BEM.gas,
        pres=forc.pres, waterTemp=forc.waterTemp, lv=parameter.lv, cp=parameter.cp,
        nightSetStart=parameter.nightSetStart, nightSetEnd=parameter.nightSetEnd,
        secDay=simTime.secDay, dt=simTime.dt, documented=T3.documented_view(b))


def live_runs(chk, runs, ndays, on_bem=None, extra_wrappers=None):
    """Run real float simulations with Building.BEMCalc wrapped from outside. `on_bem(label, c,
    r)` is called with the input record and the attribute values after every call.
    `extra_wrappers(uwg_pkg, label)` may install further wrappers and returns an undo function.
    Returns {label: n_calls} or None when the test resources are not available."""
    tests = find_tests_dir()
    if tests is None:
        return None
    core.repo_python_path()
    import logging
    logging.disable(logging.CRITICAL)
    import uwg as uwg_pkg
    import uwg.building as bmod
    done = {}
    for run_ in runs:
        label, epw, par, month, zone, autosize = run_[:6]
        setup = run_[6] if len(run_) > 6 else None
        after_generate = run_[7] if len(run_) > 7 else None
        epw_p = os.path.join(tests, 'epw', epw)
        par_p = os.path.join(tests, 'parameters', par)
        if not (os.path.exists(epw_p) and os.path.exists(par_p)):
            continue
        orig = bmod.Building.BEMCalc
        calls = [0]

        def wrapped(self, UCM, BEM, forc, parameter, simTime, _orig=orig, _label=label):
            c = state_of_building(self, UCM, BEM, forc, parameter, simTime)
            _orig(self, UCM, BEM, forc, parameter, simTime)
            calls[0] += 1
            if on_bem:
                on_bem(_label, c, {k: getattr(self, k) for k in OUT if hasattr(self, k)})
        undo = None
        devnull = open(os.devnull, 'w')
        old_stdout = sys.stdout
        try:
            bmod.Building.BEMCalc = wrapped
            if extra_wrappers:
                undo = extra_wrappers(uwg_pkg, label)
            sys.stdout = devnull
            try:
                m = uwg_pkg.UWG.from_param_file(par_p, epw_path=epw_p, new_epw_dir=chk.work())
                m.month, m.day, m.nday = month, 1, ndays
                m.autosize = autosize
                if zone:
                    m.zone = zone
                if setup:
                    setup(m, uwg_pkg)
                m.generate()
                if after_generate:
                    after_generate(m, uwg_pkg)
            except Exception as e:
                raise core.Infra('live run %s could not be set up: %s: %s' % (
                    label, type(e).__name__, str(e)[:200]))
            m.simulate()
        except Exception as e:      # fail-stop of the simulation itself (e.g. the FATAL ERROR check)
            if type(e) is not Exception:
                raise               # anything but uwg's own bare `Exception` is a harness problem
            aborted = '%s: %s' % (type(e).__name__, str(e).split('\n')[0][:120])
            chk.live_aborted = getattr(chk, 'live_aborted', []) + [label]
            chk.notes.append('live run %s stopped after %d BEMCalc calls with %s' % (
                label, calls[0], aborted))
        finally:
            sys.stdout = old_stdout
            devnull.close()
            bmod.Building.BEMCalc = orig
            if undo:
                undo()
        done[label] = calls[0]
    return done


# ------------------------------------------------------------------------------ circumstances (round 4)
DEFAULT_HEAT_CAP = 999.0        # documented default of a Building that was not given a heating capacity


def typed_capacities(bdict):
    """what a building DICTIONARY says about the capacities: numbers as typed (int or float), heat_cap optional
    (absent or null -> the documented default 999 W/m2)"""
    hc = bdict.get('heat_cap')
    return {'heatCap': DEFAULT_HEAT_CAP if hc is None else float(hc), 'coolcap': float(bdict['coolcap'])}


def u4_install(sink, ctx):
    """C14 oracle around every BEMCalc call, for harness/u4_util; for archetypes that came from a dictionary the
    statement is evaluated a second time with the capacities AS TYPED in that dictionary"""
    core.repo_python_path()
    import uwg.building as bmod
    orig = bmod.Building.BEMCalc

    def wrapped(self, UCM, BEM, forc, parameter, simTime):
        c = state_of_building(self, UCM, BEM, forc, parameter, simTime)
        orig(self, UCM, BEM, forc, parameter, simTime)
        r = {k: getattr(self, k) for k in OUT if hasattr(self, k)}
        sink('BEMCalc:' + classify_float(c, r), oracle(c, r, tol=1e-9))
        typed = ctx.get('typed', {}).get(id(self))
        if typed:
            c2 = dict(c, **typed['caps'])
            msg = oracle(c2, r, tol=1e-9)
            if msg:
                msg = 'archetype %s: %s [capacities as typed in its building dictionary: heat_cap %s -> %r W/m2, ' \
                      'coolcap %r W/m2; in force on the object: heat_cap %r, coolcap %r; %r floors]' % (
                          typed['name'], msg, typed['text'], typed['caps']['heatCap'], typed['caps']['coolcap'],
                          c['heatCap'], c['coolcap'], r.get('nFloor'))
            sink('BEMCalc(capacities as typed):' + classify_float(c2, r), msg)
    bmod.Building.BEMCalc = wrapped

    def undo():
        bmod.Building.BEMCalc = orig
    return undo


def u4_after_generate(m, spec, sink, ctx):
    """which simulated Building came from which dictionary; its capacities are the typed ones"""
    ctx['typed'] = {}
    if m.autosize:
        return
    for d in spec['model'].get('ref_bem_vector') or []:
        for bem in m.BEM:
            if (bem.bldtype, bem.builtera) == (d['bldtype'], d['builtera']):
                caps = typed_capacities(d['building'])
                text = json.dumps(d['building'].get('heat_cap')) if 'heat_cap' in d['building'] else 'key absent'
                ctx['typed'][id(bem.building)] = {'caps': caps, 'name': '%s/%s' % (bem.bldtype, bem.builtera), 'text': text}
                b = bem.building
                msg = None
                if b.heat_cap != caps['heatCap'] or b.coolcap != caps['coolcap']:
                    msg = 'after generate() the archetype %s/%s has heat_cap %r, coolcap %r; its dictionary says ' \
                          'heat_cap %s (-> %r), coolcap %r' % (bem.bldtype, bem.builtera, b.heat_cap, b.coolcap, text,
                                                                caps['heatCap'], caps['coolcap'])
                sink('generate:capacities-as-typed', msg)


U4_HOOKS = U4.Hooks(install=u4_install, after_generate=u4_after_generate,
                    kernels=[('uwg.building', 'Building', 'BEMCalc', (1, 3, 4, 5))])


def hand_edited_customs(u, rng):
    """custom reference buildings as a user writes them into a JSON model file: numbers typed without a decimal
    point where they are whole, the optional heat_cap key typed / typed as null / left out"""
    a, asch = U4.custom_dicts(u, S3, condtype='air', cop=3.0, coolcap=90.0, bldtype='studio', builtera='new')
    a['building'].update(heat_cap=30, floor_height=3, cop=3, coolcap=90, u_value=5, initial_temp=293, heateff=1,
                         int_heat_night=1, int_heat_day=2)
    b, bsch = U4.custom_dicts(u, S3, condtype='WATER', cop=4.5, coolcap=45.0, bldtype='lab', builtera='pst80')
    b['building'].pop('heat_cap', None)                       # the documented format: no heat_cap key
    c, csch = U4.custom_dicts(u, S3, condtype='Air', cop=2.5, coolcap=25.0, bldtype='depot', builtera='pre80')
    c['building']['heat_cap'] = None                          # null
    c['building'].update(coolcap=25, infil=1, vent=0)
    # (seventh round) an archetype WITHOUT heating plant: heat_cap typed as 0 - a value, not "absent"
    e, esch = U4.custom_dicts(u, S3, condtype='AIR', cop=3.0, coolcap=60.0, bldtype='shed', builtera='new')
    e['building']['heat_cap'] = 0
    return [(a, asch), (b, bsch), (c, csch), (e, esch)]


def circumstance_ties(chk, quick):
    core.repo_python_path()
    import uwg as u
    work = chk.work()
    par_t, epw_t = U4.toronto()
    customs = hand_edited_customs(u, chk.rng)
    stock = [('studio', 'new', 0.3), ('lab', 'pst80', 0.3), ('depot', 'pre80', 0.2), ('largeoffice', 'pst80', 0.1), ('shed', 'new', 0.1)]
    about = {'custom archetypes (building dictionaries as typed)': {
        '%s/%s' % (b['bldtype'], b['builtera']): {k: b['building'].get(k, '<key absent>') for k in
                                                  ('heat_cap', 'coolcap', 'cop', 'floor_height', 'heateff')}
        for b, _ in customs}}
    scen = [U4.make_spec('toronto 10 Jan, zone 5A: three hand-edited custom archetypes (heat_cap typed as 30 / key '
                         'absent / null / 0 = no heating plant) + largeoffice', epw=epw_t, param=par_t, customs=customs, about=about, month=1,
                         day=10, nday=1, dtsim=300, zone='5A', bld=stock),
            U4.make_spec('singapore 1 Jul: the same custom archetypes (coolcap typed as 90 / 45.0 / 25)', customs=customs,
                         about=about, month=7, day=2, nday=1, dtsim=300, bld=stock)]
    if not quick:
        scen += [U4.make_spec('toronto 1 Apr, zone 5A, customs, 2 days', epw=epw_t, param=par_t, customs=customs,
                              about=about, month=4, day=1, nday=2, dtsim=300, zone='5A', bld=stock),
                 U4.make_spec('singapore 1 Jan, shipped stock, autosize', month=1, day=1, nday=1, dtsim=300, autosize=1)]
    counts, nbad, plains = U4.live_battery(
        chk, 'C14', U4_HOOKS, scen, U4.others_default(work), 'C14 oracle on live runs',
        full=1 if quick else len(scen), required=('BEMCalc:',))
    cold = plains[scen[0]['label']]['evaluations']
    if 'generate:capacities-as-typed' not in cold or \
            not any(k.startswith('BEMCalc(capacities as typed):heat-limited') for k in cold) or \
            not any(k.startswith('BEMCalc(capacities as typed):heat-unlimited') for k in cold):
        raise core.Infra('the cold scenario no longer heats custom archetypes both at and below their typed capacity: %s'
                         % sorted(cold))
    chk.direct('C14-circumstances(live runs: observers, logging, -O, CLI / JSON route, other models, caller data)',
               sum(counts.values()), len(scen),
               'oracle = the C14 statement (1e-9 relative) at every BEMCalc call, and for every archetype that came (seventh round: one of them typed with heat_cap 0 - no heating plant - on the cold day) '
               'from a building DICTIONARY a second time with the capacities as typed there (heat_cap typed as an int, '
               'left out, null -> documented default 999 W/m2; coolcap as int / float): delivery <= typed capacity, '
               'set-point reached below it; after generate() the archetype carries the typed capacities. Scenarios: '
               '%s. %s' % ('; '.join(s_['label'] for s_ in scen), U4.BATTERY_RULE), mismatches=nbad, branches=counts)
    dict_route_tie(chk, u, quick)
    seventh_round_ties(chk, u, quick)


NUM_KEYS = ['floor_height', 'int_heat_night', 'int_heat_day', 'int_heat_frad', 'int_heat_flat', 'infil', 'vent',
            'glazing_ratio', 'u_value', 'shgc', 'cop', 'coolcap', 'heateff', 'initial_temp']
CASE_OF_KEY = {'floor_height': 'floorHeight', 'int_heat_night': 'intHeatNight', 'int_heat_day': 'intHeatDay',
               'int_heat_frad': 'intHeatFRad', 'int_heat_flat': 'intHeatFLat', 'infil': 'infil', 'vent': 'vent',
               'glazing_ratio': 'glazingRatio', 'u_value': 'uValue', 'shgc': 'shgc', 'cop': 'copAdj',
               'coolcap': 'coolcap', 'heateff': 'heateff'}
WHOLE = {'floorHeight': (3, 5), 'intHeatNight': (0, 6), 'intHeatDay': (0, 9), 'infil': (0, 2), 'vent': (0, 0),
         'uValue': (1, 6), 'copAdj': (2, 6), 'coolcap': (1, 300), 'heateff': (1, 1), 'heatCap': (1, 400),
         'glazingRatio': (0, 1), 'shgc': (0, 1), 'intHeatFRad': (0, 1), 'intHeatFLat': (0, 1)}


def float_bemcalc(b, c):
    """one BEMCalc step (doubles) of a real Building in the environment of case `c`; -> attribute values or text"""
    NS = types.SimpleNamespace
    fl = {k: (float(v) if isinstance(v, (F, int)) and not isinstance(v, bool) else v) for k, v in c.items()}
    b.cool_setpoint_day, b.cool_setpoint_night = fl['coolSetDay'], fl['coolSetNight']
    b.heat_setpoint_day, b.heat_setpoint_night = fl['heatSetDay'], fl['heatSetNight']
    b.indoor_temp, b.indoor_hum = fl['indoorTemp'], fl['indoorHum']
    b.int_heat_f_rad = fl['intHeatFRad']
    b.latWaste = fl['latWaste0']
    UCM = NS(bldHeight=fl['bldHeight'], verToHor=fl['verToHor'], bldDensity=fl['bldDensity'], canTemp=fl['canTemp'],
             canHum=fl['canHum'])
    BEM = NS(wall=NS(layerTemp=[fl['tWall'] + 7, fl['tWall']], solRec=fl['solRec']),
             roof=NS(layerTemp=[fl['tCeil'] - 5, fl['tCeil']]), mass=NS(layerTemp=[fl['tMass'], fl['tMass'] + 3]),
             swh=fl['swh'], elec=fl['elec'], light=fl['light'], gas=fl['gas'])
    try:
        b.BEMCalc(UCM, BEM, NS(pres=fl['pres'], waterTemp=fl['waterTemp']),
                  NS(lv=fl['lv'], cp=fl['cp'], nightSetStart=fl['nightSetStart'], nightSetEnd=fl['nightSetEnd']),
                  NS(secDay=fl['secDay'], dt=fl['dt'], month=1, day=1))
    except Exception as e:  # noqa: BLE001 - fail-stop of the step is not this tie's subject
        return 'raises %s' % type(e).__name__
    return {k: getattr(b, k) for k in OUT}


def dict_route_tie(chk, u, quick):
    """The dictionary / JSON route of a Building, as a family: one long sequence of `Building.from_dict` /
    `BEMDef.from_dict` calls in ONE process. Each dictionary is a generated C14 state whose building part is written
    the way people and json.load write numbers (every numeric key as float, or as int where the number is whole),
    with the optional key heat_cap typed as float / typed as int / null / absent, keys in any order, with or without
    the JSON round trip. Demanded of every object, whatever was deserialised before it:
      * every attribute in force equals the number typed (heat_cap: the typed number, else the default 999);
      * one real BEMCalc step (doubles) obeys the C14 statement with the capacities AS TYPED;
      * the caller's dictionary is left as it was; to_dict() hands out data that are not the object's own;
      * the class-level data of the package keep their digest."""
    import json as _json
    rng = chk.rng
    import generic as G
    dig0 = G.class_level_digest()
    bem_tpl, _sch = U4.custom_dicts(u, S3)
    n = 240 if quick else 2400
    counts, bad = {}, []
    prev = prev_kind = 'none'
    for i in range(n):
        c = gen_case(rng, rng.choice(['heat', 'heat-lim', 'heat-lim', 'cool', 'cool-lim', 'idle', 'any']))
        whole = rng.random() < 0.6
        if whole:
            for k, (lo, hi) in WHOLE.items():
                if rng.random() < 0.6:
                    c[k] = F(rng.randint(lo, hi))
        hc_kind = rng.choice(['float', 'int', 'absent', 'null', 'int', 'absent'])
        if hc_kind == 'int':
            c['heatCap'] = F(rng.randint(1, 400) if c['mode'] != 'heat' else rng.randint(300, 900))
        d = {'type': 'Building', 'condtype': c['condText'], 'initial_temp': 293}
        for key, ck in CASE_OF_KEY.items():
            v = c[ck]
            d[key] = int(v) if (v.denominator == 1 and rng.random() < 0.8) else float(v)
        if hc_kind in ('float', 'int'):
            d['heat_cap'] = int(c['heatCap']) if hc_kind == 'int' else float(c['heatCap'])
        elif hc_kind == 'null':
            d['heat_cap'] = None
        if hc_kind in ('absent', 'null'):
            c['heatCap'] = F(999)
        if rng.random() < 0.5:
            items = list(d.items())
            rng.shuffle(items)
            d = dict(items)
        via_json = rng.random() < 0.5
        if via_json:
            d = _json.loads(_json.dumps(d))
        route = rng.choice(['Building.from_dict', 'Building.from_dict', 'BEMDef.from_dict'])
        snap = G.snapshot(d)        # (the implementation gets `d`; everything said about the dictionary below uses `snap`)
        tag = 'heat_cap:%s(after %s)' % (hc_kind, prev_kind)
        counts[tag] = counts.get(tag, 0) + 1
        counts['numbers:' + ('some typed as int' if any(isinstance(d[k], int) for k in CASE_OF_KEY) else 'all float')] = \
            counts.get('numbers:' + ('some typed as int' if any(isinstance(d[k], int) for k in CASE_OF_KEY) else 'all float'), 0) + 1
        case = {'building dictionary': snap, 'route': route + (' after json.dumps / json.loads' if via_json else ''),
                'position in the sequence': i, 'heat_cap of the dictionary deserialised just before': prev}
        try:
            if route == 'BEMDef.from_dict':
                bd = G.snapshot(bem_tpl)
                bd['building'] = d
                b = u.BEMDef.from_dict(bd).building
            else:
                b = u.Building.from_dict(d)
        except Exception as e:  # noqa: BLE001
            bad.append((case, 'from_dict raises %s: %s' % (type(e).__name__, str(e)[:120]),
                        'a legal dictionary is accepted'))
            prev = prev_kind = hc_kind
            continue
        prev = hc_kind if hc_kind in ('absent', 'null') else '%s %s' % (hc_kind, snap['heat_cap'])
        prev_kind = hc_kind
        msg = None
        if not G.plain_equal(d, snap):
            msg = "from_dict changed the caller's dictionary: %s" % G.where_differs(snap, d)
        want = dict({k: float(c[ck]) for k, ck in CASE_OF_KEY.items()}, heat_cap=float(c['heatCap']))
        want['cop_adj'] = want['cop']
        for k, v in want.items():
            if msg is None and getattr(b, k) != v:
                msg = 'attribute %s of the object is %r; the dictionary says %s' % (
                    k, getattr(b, k), _json.dumps(snap.get(k, None)) if k in snap else
                    ('nothing (key absent): documented default %r' % v))
        if msg is None:
            r = float_bemcalc(b, c)
            if isinstance(r, dict):
                cf = {k: (float(v) if isinstance(v, F) else v) for k, v in c.items()}
                cls_ = classify_float(cf, r)
                counts['step:' + cls_] = counts.get('step:' + cls_, 0) + 1
                msg = oracle(cf, r, tol=1e-9)
                if msg:
                    msg += ' [capacities as typed in the dictionary: heat_cap %s, coolcap %s; %r floors]' % (
                        _json.dumps(snap['heat_cap']) if 'heat_cap' in snap else 'key absent (default 999)',
                        _json.dumps(snap['coolcap']), r['nFloor'])
        if msg is None:
            out = b.to_dict()
            keep = G.snapshot(out)
            for k in list(out):
                out[k] = -1
            if not G.plain_equal(b.to_dict(), keep):
                msg = 'editing the dictionary handed out by to_dict() changed the object: %s' % G.where_differs(keep, b.to_dict())
        if msg:
            bad.append((case, msg, 'the object is the building the dictionary describes, whatever was read before it'))
    if G.class_level_digest() != dig0:
        bad.append(({'sequence': '%d from_dict / to_dict / BEMCalc calls' % n},
                    'the digest of the class-level data of the package changed', 'class-level data are constants'))
    for case, msg, exp in bad[:3]:
        chk.violation('impl-violation', 'C14 on buildings read from dictionaries (JSON route), sequence in one process',
                      case=case, observed=msg, expected=exp)
    chk.direct('C14-dictionary-route(Building / BEMDef.from_dict sequences in one process)', n, n,
               dict_route_tie.__doc__.split('\n\n')[0].replace('\n', ' ') + ' Demanded of every object whatever was '
               'deserialised before it: attributes in force = numbers typed (heat_cap: typed number, else 999); one '
               'real float BEMCalc step obeys C14 with the capacities as typed; the caller\'s dictionary unchanged; '
               'to_dict() data not live; class-level digest unchanged. branches: heat_cap form x form of the '
               'previous dictionary; int-typed numbers; branch of the step', mismatches=len(bad), branches=counts)


def seventh_round_ties(chk, u, quick):
    """Seventh round (families in harness/x2_util.py). (a) the value ZERO on the dictionary route: every numeric key of a
    building dictionary typed as 0 / 0.0 / -0.0, in a cold (heating) and a hot (cooling) state - refused, or in force as
    typed and one real BEMCalc step obeys C14 with the capacities AS TYPED (heat_cap 0 = no heating plant: nothing is
    delivered). (b) OPTION STRINGS (condtype) with blanks / tabs / line ends around them and in any letter case, through
    constructor, setter, Building.from_dict and BEMDef.from_dict: refused, or the step is the step of the canonical
    spelling (and obeys C14 for that condenser type)."""
    import json as _json
    import generic as G
    import x2_util as X
    rng = chk.rng
    bem_tpl, _sch = U4.custom_dicts(u, S3)
    counts, bad = {}, []

    def count(k):
        counts[k] = counts.get(k, 0) + 1

    def plain_dict(c, condtext):
        d = {'type': 'Building', 'condtype': condtext, 'initial_temp': 293}
        for key, ck in CASE_OF_KEY.items():
            d[key] = float(c[ck])
        d['heat_cap'] = float(c['heatCap'])
        return d

    def make(route, d):
        if route == 'BEMDef.from_dict':
            bd = G.snapshot(bem_tpl)
            bd['building'] = G.snapshot(d)
            return u.BEMDef.from_dict(bd).building
        if route == 'Building.from_dict':
            return u.Building.from_dict(G.snapshot(d))
        args = [d[k] for k in ('floor_height', 'int_heat_night', 'int_heat_day', 'int_heat_frad', 'int_heat_flat', 'infil',
                               'vent', 'glazing_ratio', 'u_value', 'shgc')]
        tail = [d[k] for k in ('cop', 'coolcap', 'heateff', 'initial_temp')]
        if route == 'constructor':
            b = u.Building(*(args + [d['condtype']] + tail))
        else:                                                    # setter: made with the other option, then assigned
            b = u.Building(*(args + ['WATER' if d['condtype'].strip().upper() == 'AIR' else 'AIR'] + tail))
            b.condtype = d['condtype']
        b.heat_cap = d['heat_cap']
        return b
    # ---- (a) zero
    n = 0
    reps = 1 if quick else 6
    for key in NUM_KEYS + ['heat_cap']:
        ck = CASE_OF_KEY.get(key, 'heatCap' if key == 'heat_cap' else None)
        for z in (0, 0.0, -0.0):
            for mode in ['heat', 'cool'] * reps:
                n += 1
                c = gen_case(rng, mode)
                d = plain_dict(c, c['condText'])
                d[key] = z
                if ck:
                    c[ck] = F(0)
                route = rng.choice(['Building.from_dict', 'BEMDef.from_dict'])
                via_json = rng.random() < 0.5
                if via_json:
                    d = _json.loads(_json.dumps(d))
                case = {'building dictionary': G.snapshot(d), 'key typed as zero': '%s = %s' % (key, _json.dumps(z)),
                        'route': route + (' after json.dumps / json.loads' if via_json else ''), 'state': mode}
                try:
                    b = make(route, d)
                except Exception:                                 # noqa: BLE001 - zero outside the domain of this key
                    count('zero refused:' + key)
                    continue
                count('zero accepted:' + key)
                msg = None
                if key != 'initial_temp' and getattr(b, key) != 0:
                    msg = 'attribute %s of the object is %r; the dictionary says %s' % (key, getattr(b, key), _json.dumps(z))
                r = float_bemcalc(b, c)
                if isinstance(r, dict):
                    cf = {k: (float(v) if isinstance(v, F) else v) for k, v in c.items()}
                    count('zero step:' + classify_float(cf, r))
                    m2 = oracle(cf, r, tol=1e-9)
                    if m2:
                        msg = '%s [capacities as typed in the dictionary: heat_cap %s W/m2, coolcap %s W/m2; %r floors; delivered ' \
                              'heating Qheat = %r, cooling Qhvac = %r]%s' % (m2, _json.dumps(d['heat_cap']), _json.dumps(d['coolcap']),
                                                                        r['nFloor'], r['Qheat'], r['Qhvac'], '; ' + msg if msg else '')
                else:
                    count('zero step:' + str(r))
                if msg:
                    bad.append((case, msg, 'the building the dictionary describes: zero is a value (heat_cap 0 = no heating plant), '
                                           'delivery <= capacity as typed'))
    if not any(k.startswith('zero step:heat') or k == 'zero step:idle' for k in counts) or not counts.get('zero accepted:heat_cap'):
        raise core.Infra('zero family: heat_cap 0 is no longer accepted / no step evaluated: %s' % sorted(counts))
    # ---- (b) option strings
    routes = ('constructor', 'setter', 'Building.from_dict', 'BEMDef.from_dict')
    for text in X.OPTION_TEXTS:
        canon = text.strip().upper()
        for route in routes:
            for mode in (['cool'] if quick else ['cool', 'cool-lim', 'heat']):
                n += 1
                c = gen_case(rng, mode)
                case = {'condtype as typed': text, 'route': route, 'state': mode,
                        'building': {k: repr(float(c[ck])) for k, ck in CASE_OF_KEY.items()}}
                try:
                    b = make(route, plain_dict(c, text))
                except Exception:                                 # noqa: BLE001
                    count('option refused:%r' % text)
                    continue
                count('option accepted:%r' % text)
                if canon not in ('AIR', 'WATER'):
                    bad.append((case, 'condtype %r is accepted (stored as %r)' % (text, b.condtype), 'refused: neither AIR nor WATER'))
                    continue
                ref = make(route, plain_dict(c, canon))
                c['cond'] = canon
                r, r0 = float_bemcalc(b, c), float_bemcalc(ref, c)
                msg = None
                if isinstance(r, dict) and isinstance(r0, dict):
                    cf = {k: (float(v) if isinstance(v, F) else v) for k, v in c.items()}
                    dif = [k for k in OUT if r[k] != r0[k]]
                    if dif:
                        msg = 'the step of the building accepted with condtype %r (stored as %r) differs from the step of the same ' \
                              'building with condtype %r: %s' % (text, b.condtype, canon, ', '.join(
                                  '%s = %r vs %r' % (k, r[k], r0[k]) for k in dif[:4]))
                        m2 = oracle(cf, r, tol=1e-9)
                        if m2:
                            msg += '; C14 for an %s-cooled system: %s' % (canon, m2)
                elif r != r0:
                    msg = 'step: %s; with condtype %r: %s' % (r if isinstance(r, str) else 'returns', canon,
                                                               r0 if isinstance(r0, str) else 'returns')
                if msg:
                    bad.append((case, msg, 'refused, or exactly the step of the canonical spelling %r' % canon))
    for case, msg, exp in bad[:4]:
        chk.violation('impl-violation', 'C14 on buildings typed with zero entries / padded option strings', case=case, observed=msg,
                      expected=exp)
    chk.direct('C14-zero-entries-and-option-strings(dictionary route at 0 / 0.0 / -0.0; condtype with blanks, tabs, line ends, any case)',
               n, n, seventh_round_ties.__doc__.replace('\n', ' ').replace('    ', ' ') + ' Keys: %s. Option texts: %s through %s.' % (
                   ', '.join(NUM_KEYS + ['heat_cap']), ', '.join(repr(t) for t in X.OPTION_TEXTS), ', '.join(routes)),
               mismatches=len(bad), branches=counts)


def run(chk):
    chk.proof(MODULE, THEOREMS)
    if chk.tier == 'thorough':
        chk.leanchecker([MODULE])
    pkg = fracexec.load()
    per_mode = 200 if chk.tier == 'quick' else 1500
    cases = []
    for mode in MODES:
        cases += [gen_case(chk.rng, mode) for _ in range(per_mode)]
    cases += edge_cases(chk.rng)
    results = [impl_bem(pkg, c) for c in cases]
    keep = [(c, r) for c, r in zip(cases, results)
            if not (isinstance(r, str) and r.startswith('skip'))]
    skipped = len(cases) - len(keep)
    cls = {}
    pairs = []
    for c, r in keep:
        line = line_of(c)
        cls[line] = classify_result(c, r)
        pairs.append((line, fmt_out(r)))
    chk.correspond(
        'Building.BEMCalc~bemCalc', 'C14', pairs,
        rule='fractionised Building.BEMCalc vs Lean `Uwg.Hvac.bemCalc` at Q on building states '
             'steered into every branch; exact equality of 23 attributes (%s) or of the error '
             'class; indoorRhum (psychrometrics) not compared; the real object additionally carries legal '
             'non-default values of the documented attributes that are no input of the model (canyon_fraction in '
             '[0,1], msys, FanMax, area_floor, RadF*, Twb, Tdp, copAdj, initial_temp, stale outputs of a previous '
             'step), and in two cases of three the wall / roof / mass / BEMDef stand-ins carry every attribute Element '
             'and BEMDef document; in three cases of five the call happens under a circumstance (the Building '
             'rendered with repr / str right before the step and again before its results are read; DEBUG logging on '
             'around the step; both); non-trivial = non-error result; '
             'branches = branch measured on the implementation result; %d cases skipped because '
             'psychrometrics raised' % (', '.join(OUT), skipped),
        classify=lambda line, impl: cls[line])
    # the property's own oracle on the implementation's exact results
    bad = 0
    branches = {}
    for c, r in keep:
        if isinstance(r, str):
            continue
        k = classify_result(c, r)
        branches[k] = branches.get(k, 0) + 1
        msg = oracle(c, r)
        if msg:
            bad += 1
            if bad <= 3:
                chk.violation('impl-violation', 'C14 oracle on Building.BEMCalc (exact)',
                              case=case_json(c), observed=msg,
                              expected='exclusive operation, delivery <= capacity, set-point '
                                       'reached below capacity, energy = load/COP, rejected heat')
    n_ok = sum(1 for _, r in keep if not isinstance(r, str))
    chk.direct('C14-oracle(Building.BEMCalc, exact)', n_ok, n_ok,
               'exclusivity, capacity, set-point (== below capacity, one-sided at capacity), '
               'energy use and rejected-heat statements evaluated on the exact result of the '
               'real BEMCalc for every generated state that returns', mismatches=bad,
               branches=branches)
    routes = {}
    for c, r in keep:
        if isinstance(r, str) or not classify_result(c, r).startswith('cool'):
            continue
        for tag, on in (('condtype-not-upper-case', c['condText'] != c['cond']),
                        ('condtype-via-setter', c['condVia'] == 'setter'),
                        ('cop!=cop_adj(cop assigned after construction)',
                         c['copVia'] == 'frozen' and c['copNominal'] != c['copAdj']),
                        ('cop!=cop_adj(cop_adj assigned)', c['copVia'] == 'direct' and c['copNominal'] != c['copAdj']),
                        ('after-refused-assignments', bool(c['refused'])),
                        ('canyon_fraction!=1', any(a == 'canyon_fraction' and v != 1 for a, v in
                                                   T3.parse_documented(c['documented']))),
                        ('every-documented-passive-attribute-set',
                         len(T3.parse_documented(c['documented'])) >= len(T3.BUILDING_PASSIVE) + len(T3.BUILDING_STALE)),
                        ('stale-outputs-of-a-previous-step', any(a in T3.BUILDING_STALE for a, v in
                                                                 T3.parse_documented(c['documented'])))):
            routes[tag + ':' + c['cond']] = routes.get(tag + ':' + c['cond'], 0) + (1 if on else 0)
    chk.direct('construction-routes(cooling states)', sum(routes.values()), sum(routes.values()),
               'cooling states of the exact tie by the way the real Building object was made: condenser type text in '
               'lower / mixed case (constructor or setter), nominal cop re-assigned after the constructor froze '
               'cop_adj, cop_adj assigned directly, out-of-range assignments to the Building (condtype, cop, coolcap, '
               'heateff, ratios, ...) refused under try/except before the step; every attribute the Building '
               'docstring documents that is NOT an input of the step (%s) and every output of a previous step (%s) '
               'assigned a legal non-default value before the step (none / one / some / all of them) - the model '
               'and the oracle see the meaning only (AIR / WATER, the COP in force, the accepted values), so the '
               'step may depend on none of these' % (', '.join(T3.PASSIVE_NAMES), ', '.join(T3.BUILDING_STALE)),
               branches=routes)
    for tag, cnt in routes.items():
        if cnt < 10:
            raise core.Infra('generator no longer builds cooling states via %s often enough (%d)' % (tag, cnt))
    for need in ('cool-unlimited-AIR', 'cool-unlimited-WATER', 'cool-limited-AIR',
                 'cool-limited-WATER', 'heat-unlimited', 'heat-limited', 'idle', 'free-cooling'):
        if branches.get(need, 0) < 10:
            raise core.Infra('generator no longer reaches branch %s often enough (%d)' % (
                need, branches.get(need, 0)))
    # live float simulations, wrapped from outside
    live_bad = []
    live_br = {}

    captured = []
    hyp = {'waterTemp_max': None, 'heateff_min': None, 'heateff_max': None, 'copAdj_min': None}

    def on_bem(label, c, r):
        for key, f, fld in (('waterTemp_max', max, 'waterTemp'), ('heateff_min', min, 'heateff'),
                            ('heateff_max', max, 'heateff'), ('copAdj_min', min, 'copAdj')):
            hyp[key] = c[fld] if hyp[key] is None else f(hyp[key], c[fld])
        k = label + ':' + classify_float(c, r)
        live_br[k] = live_br.get(k, 0) + 1
        if live_br[k] % 12 == 1 and len(captured) < 400:
            captured.append(c)
        msg = oracle(c, r, tol=1e-9)
        if msg and len(live_bad) < 3:
            live_bad.append((label, c, msg))
    runs = LIVE_RUNS + CUSTOM_RUNS + (LIVE_RUNS_THOROUGH + CUSTOM_RUNS_THOROUGH if chk.tier == 'thorough' else [])
    done = live_runs(chk, runs, 1 if chk.tier == 'quick' else 3, on_bem=on_bem)
    if done is None:
        chk.notes.append('live float runs skipped: no tests/epw + tests/parameters found')
    else:
        for label, c, msg in live_bad:
            chk.violation('impl-violation', 'C14 oracle on a live simulation (%s)' % label,
                          case={k: repr(v) for k, v in c.items()}, observed=msg,
                          expected='C14 statement within 1e-9 relative')
        n = sum(done.values())
        chk.direct('C14-oracle(live float simulations)', n, n,
                   'every BEMCalc call of 1-day (thorough: 3-day) real simulations %s, wrapped '
                   'from outside; same oracle with relative tolerance 1e-9; the custom-* runs simulate a stock with '
                   'a custom reference building (made with the real constructors with condtype "air" / "Water", or '
                   'the shipped largeoffice handed back) whose `cop` was assigned after construction, so that '
                   'cop != cop_adj; dragonfly-* runs assign floor_height, canyon_fraction (0.5 / 0.8 / 0.25), glazing '
                   'ratio, shgc, albedos, roof vegetation on model.BEM[i] after generate() as the Dragonfly export '
                   'does; *-documented-attributes runs hand in a custom building whose documented passive attributes '
                   '(canyon_fraction, msys, FanMax, area_floor, RadF*, copAdj, Twb, Tdp) were assigned' % sorted(done),
                   mismatches=len(live_bad), branches=live_br)
    chk.measurements['sensWaste_nonneg_hypotheses'] = reference_library_ranges()
    chk.measurements['sensWaste_nonneg_hypotheses']['live_runs'] = hyp
    # states captured from the live runs, as exact rationals, through the exact tie as well
    if captured:
        caps = [{k: (v if isinstance(v, str) else F(v)) for k, v in c.items()} for c in captured]
        for c in caps:
            c['mode'] = 'captured'
        res = [impl_bem(pkg, c) for c in caps]
        cl2 = {}
        pairs2 = []
        for c, r in zip(caps, res):
            if isinstance(r, str) and r.startswith('skip'):
                continue
            cl2[line_of(c)] = classify_result(c, r)
            pairs2.append((line_of(c), fmt_out(r)))
            msg = None if isinstance(r, str) else oracle(c, r)
            if msg:
                chk.violation('impl-violation', 'C14 oracle on a captured live state (exact)',
                              case=case_json(c), observed=msg, expected='C14 statement')
        chk.correspond(
            'Building.BEMCalc~bemCalc(captured states)', 'C14', pairs2,
            rule='building states captured before BEMCalc calls of the live simulations '
                 '(every 12th per branch), doubles taken as exact rationals, run through the '
                 'fractionised real code and the Lean model; exact equality as above',
            classify=lambda line, impl: cl2[line])
    circumstance_ties(chk, chk.tier == 'quick')
    chk.assumptions.append(
        'C14: BEMCalc is exercised through fracexec (exact rationals); psychrometrics '
        '(indoorRhum) is an uninterpreted parameter of the model and not compared; '
        'double rounding is outside the theorems (live runs use tolerance 1e-9)')
    # known finding: sensible cooling delivered above capacity / without energy use in the
    # free-cooling state (and only there: every other state is held to the full oracle above)
    free_over = 0
    for c, r in keep:
        if isinstance(r, str) or classify_result(c, r) != 'free-cooling':
            continue
        if c['coolcap'] >= 0 and r['sensCoolDemand'] * r['nFloor'] > c['coolcap'] * r['nFloor'] \
                and r['coolConsump'] == 0:
            free_over += 1
    chk.measurements['free_cooling_over_capacity_cases'] = free_over
    if free_over and not chk.broken() and not chk.violations:
        for kf in chk.known_findings():
            if kf['id'] == 'C14-free-cooling':
                chk.report_known(kf)
    chk.notes.append(
        'free cooling: with canTemp <= 288 K and a positive load at the cooling set-point the '
        'code takes no HVAC branch yet subtracts the load in the indoor balance; the room ends '
        'at the set-point with Qhvac = coolConsump = 0 and no capacity limit. Treated as '
        '"system inactive" by the oracles (theorems free_cooling_tracks, '
        'free_cooling_exceeds_capacity state it); counted under branch free-cooling.')


def reference_library_ranges():
    """Do the hypotheses of `sensWaste_nonneg` (0 < heateff <= 1, COP > 0, capacities >= 0) hold
    for every archetype of the shipped reference library? (a measurement, reported in evidence)"""
    try:
        core.repo_python_path()
        import uwg as uwg_pkg
        ref, _ = uwg_pkg.UWG.load_refDOE()
        bl = [c.building for a in ref for b in a for c in b if c is not None]
        return {'archetypes': len(bl),
                'heateff': [min(b.heateff for b in bl), max(b.heateff for b in bl)],
                'cop': [min(b.cop for b in bl), max(b.cop for b in bl)],
                'coolcap_min': min(b.coolcap for b in bl),
                'heat_cap_min': min(b.heat_cap for b in bl),
                'all_satisfy': all(0 < b.heateff <= 1 and b.cop > 0 and b.coolcap >= 0 and
                                   b.heat_cap >= 0 for b in bl),
                'T_hot': 322.15}
    except Exception as e:
        return {'error': '%s: %s' % (type(e).__name__, e)}


def replay(chk, path):
    """bin/check C14 --replay <file>: re-run one recorded state against the working tree."""
    import json
    v = json.load(open(path))
    if isinstance(v.get('case'), dict) and ('scenario' in v['case'] or 'building dictionary' in v['case']):
        # a finding of the circumstance ties: the scenarios derive from the seed, re-run them
        core.repo_python_path()
        circumstance_ties(chk, chk.tier == 'quick')
        for x in chk.violations[:3]:
            print('observed:', str(x['observed'])[:600])
        return 1 if chk.violations else 0
    c = {k: (x if k in STRKEYS else F(x)) for k, x in v['case'].items()}
    pkg = fracexec.load()
    r = impl_bem(pkg, c)
    msg = None if isinstance(r, str) else oracle(c, r)
    print('case   :', line_of(c))
    print('result :', fmt_out(r)[:400])
    print('oracle :', msg or 'holds')
    return 1 if msg else 0


def classify_float(c, r):
    nF = r['nFloor']
    if r['Qhvac'] > 0:
        return 'cool-limited' if r['Qhvac'] >= c['coolcap'] * nF * (1 - 1e-9) else 'cool-unlimited'
    if r['Qheat'] > 0:
        return 'heat-limited' if r['Qheat'] >= c['heatCap'] * nF * (1 - 1e-9) else 'heat-unlimited'
    return 'free-cooling' if r['sensCoolDemand'] > 0 else 'idle'
