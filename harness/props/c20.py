"""C20 - ground columns are refined and padded without changing their physics."""
import math
import os
import shutil
from fractions import Fraction as F
from types import SimpleNamespace as NS

import core
import fracexec
import u4_util as U4
import v4_util as V4
from fracexec import frac_str, frac_list

MODULE = 'UwgVerif.Props.C20'
THEOREMS = ['Uwg.C20.procmat_preserves', 'Uwg.C20.procmat_preserves_measure', 'Uwg.C20.procmat_preserves_thick',
            'Uwg.C20.procmat_preserves_thick_measure', 'Uwg.C20.procmat_shape',
            'Uwg.C20.asis_thin_layer_shrinks', 'Uwg.C20.pad_index', 'Uwg.C20.pad_total',
            'Uwg.C20.column_index_set']
EPW = 'resources/SGP_Singapore.486980_IWEC.epw'
PARAM = 'resources/initialize_singapore.uwg'


def rq(rng, lo, hi, den):
    return F(rng.randint(int(lo * den), int(hi * den)), den)


def lays_str(d, k, c):
    return 'd=%s k=%s c=%s' % (frac_list(d), frac_list(k), frac_list(c))


def gen_layers(rng, n=None):
    n = n or rng.choice([1, 1, 2, 2, 3, 4, 5, 6, 8])
    d = []
    for _ in range(n):
        r = rng.random()
        if r < 0.15:
            d.append(rq(rng, 0.002, 0.0099, 10000))      # thinner than 1 cm
        elif r < 0.35:
            d.append(rq(rng, 0.01, 0.02, 1000))          # the repaired 1..2 cm band
        elif r < 0.65:
            d.append(rq(rng, 0.02, 0.05, 1000))
        else:
            d.append(rq(rng, 0.051, 1.0, 1000))
    k = [rq(rng, 0.03, 3, 100) for _ in range(n)]
    c = [rq(rng, 10000, 3000000, 1) for _ in range(n)]
    return d, k, c


def gen_palette_layers(rng):
    """Constructions built from a small palette of materials: the SAME Material object appears in several layers
    of different thickness (sandwich walls, base course on slab, readDOE's repeated `concrete`)."""
    npal = rng.choice([1, 2, 2, 3])
    pal = [(rq(rng, 0.03, 3, 100), rq(rng, 10000, 3000000, 1)) for _ in range(npal)]
    n = rng.choice([2, 3, 3, 4, 5, 6])
    pick = [rng.randrange(npal) for _ in range(n)]
    if n > npal and len(set(pick)) == n:
        pick[-1] = pick[0]
    d = [rq(rng, 0.01, 0.05, 1000) if rng.random() < 0.5 else rq(rng, 0.051, 0.6, 1000) for _ in range(n)]
    if rng.random() < 0.15:
        d[rng.randrange(n)] = rq(rng, 0.002, 0.0099, 10000)
    return d, [pal[i][0] for i in pick], [pal[i][1] for i in pick], pick


def impl_procmat(pkg, d, k, c, pick=None):
    """A REAL (fractionised) Element; pick: None -> one Material object per layer; else one Material object per
    palette entry, shared by the layers that use it."""
    if d:
        pick = pick if pick is not None else list(range(len(d)))      # no sharing: one Material per layer
        mats = {}
        for i, pi in enumerate(pick):
            if pi not in mats:
                mats[pi] = pkg.material.Material(k[i], c[i], 'pal%d' % pi)
        el = pkg.element.Element(F(1, 5), F(9, 10), list(d), [mats[pi] for pi in pick], F(0), F(293), False, 'x')
    else:
        el = NS(layerThermalCond=list(k), layerVolHeat=list(c), layer_thickness_lst=list(d), name='x',
                material_lst=[])
    try:
        with core.quiet():
            mats, th = pkg.uwg.UWG._procmat(el, F(1, 20), F(1, 100))
    except IndexError:
        return None
    return th, [m.thermalcond for m in mats], [m.volheat for m in mats]


PROPS = {'blank': None,
         # the optional soil conductivity / density / specific heat cells of each depth, filled in (EPW data dictionary)
         'filled': [('1.3', '1500', '1200'), ('0.9', '1800', '840'), ('2.1', '2200', '1000')],
         'partly': [('1.3', '', ''), ('', '1650', ' '), ('0.75', '1500', '')]}


def write_epw(src, dst, depths, props='blank', other=None):
    """Copy the Singapore EPW with a synthetic GROUND TEMPERATURES header line (16 cells per depth: depth, three
    optional soil-property cells, 12 monthly values); `other`: further header variant of s1_util."""
    import s1_util as S
    lines = open(src, errors='ignore').read().split('\n')
    lines[3] = ','.join(S.ground_line(depths, PROPS[props]))
    if other:
        import csv
        import io
        rows = S.apply_variant([next(csv.reader([ln])) for ln in lines[:8]], other)
        buf = io.StringIO()
        csv.writer(buf, lineterminator='\n').writerows(rows[:8])
        lines[:8] = buf.getvalue().split('\n')[:8]
    open(dst, 'w').write('\n'.join(lines))


SOIL_K, SOIL_C = 1, 2000000      # the documented soil: 1 W/m-K (Figley & Snodgrass), 2e6 J/m3-K (uwg.py, class constants)


def column_composition_msg(el, pavement, kroad, croad, tol=0):
    """The padded column slice by slice: the top `pavement` metres are the pavement material (kroad, croad) in
    every view the Element offers (layerThermalCond / layerVolHeat and the Material objects of material_lst), and
    EVERY slice below is soil in every property: 5 cm thick, conductivity 1 W/m-K, volumetric heat capacity
    2e6 J/m3-K, Material named 'soil'.  Returns (message or None, number of soil slices)."""
    th, ks, cs = list(el.layer_thickness_lst), list(el.layerThermalCond), list(el.layerVolHeat)
    mats = list(el.material_lst)
    if not (len(th) == len(ks) == len(cs) == len(mats)):
        return 'layer lists of %s have different lengths (%d thicknesses, %d conductivities, %d capacities, %d ' \
               'materials)' % (el.name, len(th), len(ks), len(cs), len(mats)), 0
    acc, i = 0, 0
    while i < len(th) and acc < pavement - tol:
        for what, got, want in (('conductivity', ks[i], kroad), ('heat capacity', cs[i], croad),
                                ('Material.thermalcond', mats[i].thermalcond, kroad),
                                ('Material.volheat', mats[i].volheat, croad)):
            if got != want:
                return 'slice %d of %s (pavement, %s..%s m): %s %s, the pavement has %s' % (
                    i, el.name, float(acc), float(acc + th[i]), what, float(got), float(want)), 0
        acc += th[i]
        i += 1
    if abs(acc - pavement) > tol:
        return 'the pavement part of %s ends at %s m, the refined pavement is %s m' % (
            el.name, float(acc), float(pavement)), 0
    nsoil = len(th) - i
    for j in range(i, len(th)):
        for what, got, want in (('conductivity', ks[j], SOIL_K), ('heat capacity', cs[j], SOIL_C),
                                ('Material.thermalcond', mats[j].thermalcond, SOIL_K),
                                ('Material.volheat', mats[j].volheat, SOIL_C)):
            if got != want:
                r_got = sum(float(t) / float(k) for t, k in zip(th, ks))
                r_want = float(pavement) / float(kroad) + float(sum(th[i:])) / SOIL_K
                return ('slice %d of %s lies below the %s m pavement, so it is padding, but it is not soil: %s %s '
                        'instead of %s (column resistance %.4f m2K/W instead of %.4f)' % (
                            j, el.name, float(pavement), what, float(got), want, r_got, r_want)), nsoil
        if abs(th[j] - F(1, 20)) > tol:
            return 'padding slice %d of %s is %s m thick, not 0.05' % (j, el.name, float(th[j])), nsoil
        if getattr(mats[j], 'name', None) != 'soil':
            return 'padding slice %d of %s is made of %r, not of soil' % (j, el.name, getattr(mats[j], 'name', None)), nsoil
    return None, nsoil


# ------------------------------------------------------------------------------ circumstances (round 4)
def float_columns_msgs(m, depths, temps=None):
    """the C20 statement on the columns of a generated (double precision) model: road and rural column end at the first
    ground-temperature depth at or below the refined pavement, their soil index points at that record, and slice by
    slice they are pavement, then soil. -> [(oracle kind, message or None)]"""
    out = []
    droad = m.droad
    nlay = max(int(math.ceil(droad / 0.05)), 1)
    pavement = 0.05 * nlay            # the pavement that is built: droad rounded up to whole 5 cm slices
    want_idx = next((i for i, d in enumerate(depths) if d > pavement - 1e-9), None)
    for el, idxname in ((m.road, '_soilindex1'), (m.rural, '_soilindex2')):
        idx = getattr(m, idxname, None)
        tot = sum(el.layer_thickness_lst)
        msg = None
        if idx != want_idx:
            msg = '%s: soil index %r; the first ground-temperature depth at or below the %.2f m pavement is record %r ' \
                  'of %r' % (el.name, idx, pavement, want_idx, depths)
        elif idx is not None:
            gap = (depths[idx] - pavement) / 0.05
            ok = depths[idx] - 1e-9 <= tot < depths[idx] + 0.05 - 1e-9
            if abs(gap - round(gap)) < 1e-6:
                ok = ok and abs(tot - depths[idx]) < 1e-9
            if not ok:
                msg = '%s: the column is %.3f m deep (%d slices), but the first ground-temperature depth at or below ' \
                      'the %.2f m pavement is %s m (whose monthly temperature is imposed at the bottom)' % (
                          el.name, tot, len(el.layer_thickness_lst), pavement, depths[idx])
        out.append(('column-depth:%s' % el.name, msg))
        cmsg, _n = column_composition_msg(el, 0.05 * nlay, m.kroad, m.croad, tol=1e-9)
        out.append(('column-composition:%s' % el.name, cmsg))
    return out


def u4_install(sink, ctx):
    """deep temperature at every step = header value of the chosen depth for the month in which the step starts"""
    core.repo_python_path()
    import uwg.simparam as SP
    orig = SP.SimParam.update_date

    def upd(self):
        m = ctx.get('model')
        if m is not None and self is m.simTime and m.nSoil >= 3 and ctx.get('want_idx') is not None:
            want = ctx['temps'][ctx['want_idx']][self.month - 1] + 273.15
            sink('deepTemp:month-%d' % self.month, None if m.forc.deepTemp == want else
                 'step starting in month %d: deep boundary temperature %r; the %s m record of the rural file says %r for '
                 'that month' % (self.month, m.forc.deepTemp, ctx['depths'][ctx['want_idx']], want))
        return orig(self)
    SP.SimParam.update_date = upd

    def undo():
        SP.SimParam.update_date = orig
    return undo


def u4_after_generate(m, spec, sink, ctx):
    import s1_util as S
    if 'depths' not in ctx:
        ctx['depths'], ctx['temps'], _ = S.ground_of(S.load_epw(spec['epw']))
    ctx['model'] = m
    nlay = max(int(math.ceil(m.droad / 0.05)), 1)
    pavement = 0.05 * nlay
    ctx['want_idx'] = next((i for i, d in enumerate(ctx['depths']) if d > pavement - 1e-9), None)
    for kind, msg in float_columns_msgs(m, ctx['depths']):
        sink(kind, msg)


U4_HOOKS = U4.Hooks(install=u4_install, after_generate=u4_after_generate,
                    kernels=[('uwg.uwg', 'UWG', '_procmat', (0,))])


def circumstance_ties(chk, quick):
    import uwgutil as U
    work = chk.work()
    src = U.rp(U4.SGP[1])
    deep = U4.ground_file(src, os.path.join(work, 'deep30.epw'), [0.5, 4.0, 30.0])
    deep2 = U4.ground_file(src, os.path.join(work, 'deep40.epw'), [0.5, 2.0, 40.0], PROPS['filled'])
    filled = U4.variant_file(src, os.path.join(work, 'filled.epw'), 'actual-year-header')
    scen = [U4.make_spec('pavement 0.3 m (pads to the 0.5 m record), kroad 1.8, croad 1.7e6, 31 Jan + 2 days',
                         month=1, day=31, nday=2, dtsim=300, droad=0.3, kroad=1.8, croad=1.7e6),
            U4.make_spec('pavement 4.3 m, below the deepest of the three ground records (4 m): outside the domain, '
                         'generate() refuses', month=1, day=1, nday=1, dtsim=300, droad=4.3),
            U4.make_spec('ground records 0.5 / 4 / 30 m, pavement 4.5 m (pads to 30 m: 600 slices)', epw=deep,
                         about={'GROUND TEMPERATURES depths': [0.5, 4.0, 30.0]}, month=6, day=30, nday=1, dtsim=300,
                         droad=4.5, kroad=0.8, croad=2.2e6),
            U4.make_spec('pavement 0.75 m (pads to the 2 m record), actual-year header', epw=filled, month=11, day=30,
                         nday=2, dtsim=300, droad=0.75, kroad=2.5, croad=1.4e6)]
    if not quick:
        scen += [U4.make_spec('ground records 0.5 / 2 / 40 m (properties filled), pavement 2.2 m', epw=deep2,
                              about={'GROUND TEMPERATURES depths': [0.5, 2.0, 40.0]}, month=3, day=1, nday=1, dtsim=300,
                              droad=2.2, kroad=1.2, croad=1.9e6),
                 U4.make_spec('pavement 1.5 m', month=8, day=31, nday=2, dtsim=300, droad=1.5, kroad=0.6, croad=2.4e6),
                 U4.make_spec('pavement 2.3 m (pads to 4 m)', month=2, day=28, nday=2, dtsim=300, droad=2.3),
                 U4.make_spec('ground records 0.52 / 2 / 4 m, pavement 0.51 m (0.55 m of asphalt are built: the 0.52 m record '
                              'lies inside it)', epw=U4.ground_file(src, os.path.join(work, 'in_slice.epw'), [0.52, 2.0, 4.0]),
                              about={'GROUND TEMPERATURES depths': [0.52, 2.0, 4.0]}, month=3, day=31, nday=2, dtsim=300,
                              droad=0.51, kroad=1.4, croad=1.8e6),
                 U4.make_spec('ground records in feet (0.3048 / 0.9144 / 3.048 m), pavement 0.3 m (4.8 mm short of the record)',
                              epw=U4.ground_file(src, os.path.join(work, 'feet.epw'), [0.3048, 0.9144, 3.048], PROPS['partly']),
                              about={'GROUND TEMPERATURES depths': [0.3048, 0.9144, 3.048]}, month=9, day=30, nday=2,
                              dtsim=300, droad=0.3),
                 U4.make_spec('ground records 0.503 / 2.004 / 4 m, pavement 2.0 m', month=5, day=1, nday=1, dtsim=300, droad=2.0,
                              epw=U4.ground_file(src, os.path.join(work, 'mm.epw'), [0.503, 2.004, 4.0]),
                              about={'GROUND TEMPERATURES depths': [0.503, 2.004, 4.0]})]
    counts, nbad, _ = U4.live_battery(
        chk, 'C20', U4_HOOKS, scen, U4.others_default(work), 'ground-column oracle on live runs',
        full=2 if quick else len(scen), required=('column-depth', 'column-composition', 'deepTemp'))
    chk.direct('C20-circumstances(live runs: observers, logging, -O, CLI, other models, caller data)',
               sum(counts.values()), len(scen),
               'oracle = after generate() (and again after the model was rendered) road and rural column end at the '
               'first ground-temperature depth at or below the refined pavement, the soil indices point at that record, '
               'slice by slice pavement (kroad, croad) then soil; at every step the deep boundary temperature is that '
               'record\'s value for the month in which the step starts. Kernel routines rendered around their calls: '
               'UWG._procmat (the Element it is given is read-only). One scenario lies outside the domain (pavement below the '
               'deepest of three ground records): every route and interpreter mode must refuse it alike. Scenarios incl. rural files '
               'whose relevant ground record is 30 / 40 m deep: %s. %s' % ('; '.join(s_['label'] for s_ in scen),
                                                                            U4.BATTERY_RULE),
               mismatches=nbad, branches=counts)


def offgrid_float_tie(chk, realuwg, sgp_rows, work):
    """The C20 statement on the columns of the real (double precision) generate() for geometry OFF the grids of the
    model (harness/v4_util.offgrid_family): rural files whose ground depths carry millimetres / feet, pavements in
    millimetres / inches."""
    import s1_util as S
    rng = chk.rng
    quick = chk.tier == 'quick'
    fam = V4.offgrid_family(rng, list(V4.OFFGRID_KINDS) * (2 if quick else 12), n_random=0 if quick else 60)
    bad, br, n = 0, {}, 0
    for ci, oc in enumerate(fam):
        depths = [float(V4.dec(x)) for x in oc['depths']]
        droad = float(V4.dec(oc['droad']))
        pav = 0.05 * max(int(math.ceil(droad / 0.05)), 1)
        gaps = [(d - pav) / 0.05 for d in depths]
        if any(abs(d - pav) < 1e-6 and abs(d - pav) > 0 for d in depths):
            continue                       # (a record within a micrometre of the pavement: rounding decides, not the property)
        epw = os.path.join(work, 'offgrid.epw')
        write_epw(os.path.join(core.REPO, EPW), epw, [V4.dec(x) for x in oc['depths']], ['blank', 'filled', 'partly'][ci % 3])
        with open(epw, errors='ignore') as f_:
            ground_text = f_.read().split('\n')[3]
        m = realuwg.UWG.from_param_file(os.path.join(core.REPO, PARAM), epw_path=epw)
        m.nday, m.droad = 1, droad
        m.kroad, m.croad = [1.8, 1.0, 0.6][ci % 3], [1.6e6, 2.4e6, 2e6][ci % 3]
        want_idx = next((i for i, d in enumerate(depths) if d > pav - 1e-9), None)
        verdict, msgs = 'ok', []
        interrupted = None
        if ci % 4 == 1:
            # an interrupted call first: KeyboardInterrupt / SystemExit / GeneratorExit (BaseException) raised inside
            # generate() - at the first or the second refinement of a column -, caught by the caller; then the normal call
            exc, at = [(KeyboardInterrupt, 1), (SystemExit, 2), (GeneratorExit, 2)][(ci // 4) % 3]
            interrupted = '%s at call %d of _procmat' % (exc.__name__, at)
            raw = realuwg.UWG.__dict__['_procmat']
            calls = [0]

            def procmat(*a, **k):
                calls[0] += 1
                if calls[0] == at:
                    raise exc('interrupted by the harness')
                return raw.__func__(*a, **k)
            realuwg.UWG._procmat = staticmethod(procmat)
            try:
                with core.quiet():
                    m.generate()
            except BaseException:  # noqa: BLE001 - the interruption (or a refusal that comes first); the normal call below is judged
                pass
            finally:
                realuwg.UWG._procmat = raw
            br['interrupted first:' + interrupted] = br.get('interrupted first:' + interrupted, 0) + 1
        try:
            with core.quiet():
                m.generate()
        except Exception as e:  # noqa: BLE001
            verdict = 'raises %s: %s' % (type(e).__name__, str(e)[:120])
        tag = oc['kind'] + ('/refused' if verdict != 'ok' else '/unset' if want_idx is None else '/padded')
        br[tag] = br.get(tag, 0) + 1
        n += 1
        if verdict != 'ok':
            # outside the domain only if really no record lies at or below the pavement (three or more records)
            if not ('deeper than the deepest ground temperature depth' in verdict and want_idx is None and len(depths) >= 3):
                msgs.append(('generate', 'generate() %s although record %r (%s m) lies at or below the %.2f m pavement' % (
                    verdict, want_idx, depths[want_idx] if want_idx is not None else None, pav)))
        else:
            msgs = [(k, mm) for k, mm in float_columns_msgs(m, depths) if mm]
        for kind, msg in msgs[:1]:
            bad += 1
            if bad <= 3:
                chk.violation('impl-violation', 'ground columns for off-grid geometry (real float generate): %s' % kind,
                              case={'family member': oc['kind'], 'droad': droad, 'GROUND TEMPERATURES depths': depths,
                                    'an earlier generate() of the same object was interrupted': interrupted,
                                    'pavement built (droad rounded up to whole 5 cm slices)': pav,
                                    'GROUND TEMPERATURES line': ground_text[:200]},
                              observed=msg,
                              expected='road and rural column end at record %r (%s m), the first ground-temperature depth at or '
                                       'below the %.2f m pavement: depth <= column < depth + 0.05; soil index = that record; '
                                       'pavement (kroad, croad), then 5 cm slices of soil' % (
                                           want_idx, depths[want_idx] if want_idx is not None else None, pav))
    chk.direct('padding-oracle(real float generate, off-grid depths and pavements)', n, n,
               'real (double precision) generate() on copies of the Singapore file whose GROUND TEMPERATURES line carries '
               'depths written to the millimetre / in feet, with pavements in millimetres / inches (soil-property cells blank / '
               'filled / partly filled in rotation; kroad, croad cycling): family of harness/v4_util.py - a record 1 .. 4.9 mm '
               'below / above a point of the 5 cm slice grid, a record inside the last pavement slice (between the raw droad '
               'and droad rounded up to whole slices; also as the only / the last record), feet x inches, droad a few mm beyond '
               'a slice boundary, record = off-grid droad, all-random millimetres. Demanded: both soil indices = the first '
               'record at or below the pavement BUILT, depth <= column depth < depth + 0.05, slice by slice pavement then soil; '
               'every fourth member after an INTERRUPTED generate() of the same object (KeyboardInterrupt / SystemExit / '
               'GeneratorExit raised at the first / second column refinement, caught by the caller); '
               'a refusal only when three or more records all lie above the pavement', mismatches=bad, branches=br)


def equal_depth_float_tie(chk, realuwg, work):
    """The C20 statement on the columns of the real (double precision) generate() when a ground record lies EXACTLY at the
    bottom of the pavement, for every pavement thickness on the 5 cm grid (harness/x3_util.equal_depth_family): the sum of
    n slices of 0.05 is, for many n, one ulp above / below the double of the decimal depth written in the file."""
    import x3_util as X3
    fam = X3.equal_depth_family(chk.rng, chk.tier == 'quick')
    src = os.path.join(core.REPO, EPW)
    bad, br = 0, {}
    for ci, mem in enumerate(fam):
        depths = [float(x) for x in mem['depths']]
        epw = U4.ground_file(src, os.path.join(work, 'equal_depth.epw'), mem['depths'],
                             [None, PROPS['filled'], PROPS['partly']][ci % 3])
        m = realuwg.UWG.from_param_file(os.path.join(core.REPO, PARAM), epw_path=epw)
        m.nday, m.droad = 1, float(mem['droad'])
        m.kroad, m.croad = [1.8, 1.0, 0.6][ci % 3], [1.6e6, 2.4e6, 2e6][(ci // 3) % 3]
        for attr in ('_soilindex1', '_soilindex2'):
            if hasattr(m, attr):
                delattr(m, attr)
        nlay = max(int(math.ceil(m.droad / 0.05)), 1)
        tag = '%s/record is the %s of three/%s' % (mem['kind'], mem['position'],
                                                  'droad 1 cm short of the grid point' if mem['short'] else 'droad on the grid')
        br[tag] = br.get(tag, 0) + 1
        try:
            with core.quiet():
                m.generate()
            msgs = [(k, mm) for k, mm in float_columns_msgs(m, depths) if mm]
        except Exception as e:  # noqa: BLE001 - a record lies at the bottom of the pavement: nothing may be refused
            msgs = [('generate', 'generate() raises %s: %s' % (type(e).__name__, str(e)[:160]))]
        for kind, msg in msgs[:1]:
            bad += 1
            if bad <= 3:
                chk.violation('impl-violation', 'ground record exactly at the bottom of the pavement (real float generate): %s' % kind,
                              case={'droad': m.droad, 'GROUND TEMPERATURES depths (as written in the file)': mem['depths'],
                                    'pavement slices built (ceil(droad / 0.05))': nlay,
                                    'sum of the slices as doubles': repr(sum([0.05] * nlay)),
                                    'the record that lies at the bottom of the pavement': '%s m, record %d (%s)' % (
                                        mem['depths'][mem['index']], mem['index'], mem['kind'])},
                              observed=msg,
                              expected='road AND rural column each end at record %d (%s m): the first ground-temperature depth at '
                                       'or below the pavement is the one exactly at its bottom (no padding); both soil indices '
                                       'point at it' % (mem['index'], mem['depths'][mem['index']]))
    chk.direct('padding-oracle(real float generate, a ground record exactly at the bottom of the pavement)', 2 * len(fam),
               2 * len(fam),
               'real (double precision) generate() on copies of the Singapore file one of whose ground records is EQUAL to the '
               'pavement thickness, for pavements on the 5 cm grid from 0.05 to 4 m (quick: 10 drawn - 6 whose 5 cm slices sum '
               'one ulp ABOVE the double of the decimal depth (0.15, 0.30, 0.35, 0.60, 0.70 ... 3.90 m), 4 where the sum equals '
               'it; thorough: all 80); the record is the first / the middle / the last of three; droad written on the grid or 1 cm '
               'short of it (the same slices are built); soil-property cells blank / filled / partly filled, kroad / croad cycling. '
               'Judged for the road and for the rural column SEPARATELY: soil index = that record, column depth = that depth '
               '(to 1e-9), pavement then soil slice by slice; no refusal', mismatches=bad, branches=br)


def run(chk):
    from props import epwheader
    chk.proof(MODULE, THEOREMS + epwheader.GROUND_THEOREMS, extra_modules=[epwheader.MODULE])
    if chk.tier == 'thorough':
        chk.leanchecker([MODULE, epwheader.MODULE])
    pkg = fracexec.load()
    rng = chk.rng
    repo = core.REPO

    # --- tie 1: _procmat
    n = 400 if chk.tier == 'quick' else 4000
    cases, meta = [], []
    for i in range(n):
        if i % 4 == 3:
            d, k, c, pick = gen_palette_layers(rng)
        else:
            (d, k, c), pick = gen_layers(rng), None
        r = impl_procmat(pkg, d, k, c, pick)
        ans = 'err index' if r is None else 'ok ' + lays_str(*r)
        cases.append(('procmat max=1/20 min=1/100 ' + lays_str(d, k, c), ans))
        meta.append((d, k, c, r, pick))
    cases.append(('procmat max=1/20 min=1/100 d=[] k=[] c=[]',
                  'err index' if impl_procmat(pkg, [], [], []) is None else 'ok ?'))
    chk.correspond('UWG._procmat~procmat', 'C20', cases,
                   rule='fractionised UWG._procmat on layer lists of 1..8 layers, 2 mm..1 m (bands: <1cm, '
                        '1-2cm, 2-5cm, >5cm) vs Lean procmat, exact thickness/conductivity/capacity lists; every '
                        'fourth case is a REAL Element built from a palette of 1-3 Material objects, the same '
                        'object shared by several layers of different thickness',
                   classify=lambda l, a: 'single' if l.count(';') == 0 else 'multi')
    bad = 0
    for d, k, c, r, pick in meta:
        if r is None or (min(d) < F(1, 100) and len(d) == 1):
            continue
        th, kk, cc = r
        # (round 8) a multi-layer construction with thinner layers among the others: the property speaks about the
        # layers of at least 1 cm - each keeps ITS OWN material (theorem procmat_preserves_thick)
        thick = [(t, x, y) for t, x, y in zip(d, k, c) if t >= F(1, 100)] if len(d) > 1 else list(zip(d, k, c))
        mixed = len(thick) < len(d)
        ok = (sum(th) == sum(t for t, _, _ in thick)
              and sum(t / x for t, x in zip(th, kk)) == sum(t / x for t, x, _ in thick)
              and sum(t * x for t, x in zip(th, cc)) == sum(t * y for t, _, y in thick)
              and (mixed or len(th) >= 2) and (not th or max(th) <= F(1, 20)))
        if not ok:
            bad += 1
            if bad <= 3:
                chk.violation('impl-violation', 'procmat oracle (T1/T2) on UWG._procmat',
                              case={'d': [str(x) for x in d], 'k': [str(x) for x in k],
                                    'c': [str(x) for x in c],
                                    'Material object used by each layer (same number = same object)': pick},
                              observed={'thickness': [str(x) for x in th]},
                              expected='total thickness / resistance / capacity of the layers of at least 1 cm, >=2 '
                                       'sub-layers, each <= 5 cm')
    chk.direct('procmat-oracle(UWG._procmat)', len(meta),
               sum(1 for m in meta if m[3] and (min(m[0]) >= F(1, 100) or len(m[0]) > 1)),
               'T1/T2 evaluated on the exact result of the real _procmat for every generated list: all layers >= 1 cm, '
               'and multi-layer lists with thinner layers among the others (the totals of the layers of at least 1 cm, '
               'each with its own material: theorem procmat_preserves_thick)', mismatches=bad,
               branches={'multi-layer lists with a layer below 1 cm': sum(1 for m in meta if m[3] and len(m[0]) > 1
                                                                          and min(m[0]) < F(1, 100))})

    # --- tie 2: ground columns after the fractionised generate() on synthetic EPW headers
    work = chk.work()
    ncol = 12 if chk.tier == 'quick' else 80
    cases2, bad2 = [], 0
    comp, badc, refused_deep = {}, [0], [0]
    ucm_state = {'padded': 0, 'unpadded': 0, 'unpadded-but-equal': 0, 'other': 0}
    hdr_modes = {}
    depth_sets = [[F('0.5'), F(2), F(4)], [F('0.5')], [F('0.2'), F('1.0')], [F('0.1'), F('0.33'), F('0.7'), F('1.5')],
                  [F(2), F('0.5'), F(4)], [F('0.05'), F(3)]]
    # ground records of any legal depth: the EPW format does not bound them (undisturbed-ground records at 10 .. 40 m
    # exist); (depths, pavement) pairs whose first record at or below the pavement is deep
    deep_sets = [([F('0.5'), F(4), F(30)], F('4.5')), ([F('0.5'), F(2), F(40)], F('2.2')), ([F(26)], F('0.3')),
                 ([F('0.5'), F('25.05')], F('0.55')), ([F(10), F(20)], F('10.02')), ([F('12.5')], F('0.05'))]
    ndeep = 2 if chk.tier == 'quick' else len(deep_sets)
    deep_pick = rng.sample(deep_sets, ndeep)
    deep_done = [0]
    # geometry OFF the grids of the model: depths / pavements written to the millimetre, in feet and inches, a few
    # millimetres above or below a point of the 5 cm slice grid, inside the last pavement slice, equal to droad off the grid
    if chk.tier == 'quick':
        off = V4.offgrid_family(rng, ['mm-above-grid', 'inside-last-slice', rng.choice(['feet-inches', 'droad-mm']),
                                      rng.choice(['mm-below-grid', 'equals-droad', 'inside-last-slice/few-records']),
                                      'mm-above-grid', 'inside-last-slice'], n_random=1)
    else:
        off = V4.offgrid_family(rng, list(V4.OFFGRID_KINDS) * 4, n_random=12)
    off_kinds = {}
    for i in range(ncol + ndeep + len(off)):
        depths = depth_sets[i % len(depth_sets)] if i < 2 * len(depth_sets) else \
            sorted(rq(rng, 0.05, 3, 100) for _ in range(rng.choice([1, 2, 3, 4])))
        droad = rng.choice([F('0.5'), F('0.35'), F('0.05'), F('0.04'), F('0.12'), F('1.0'), F('0.2'),
                            rq(rng, 0.02, 2.5, 100)])
        if ncol <= i < ncol + ndeep:
            depths, droad = deep_pick[i - ncol]
            deep_done[0] += 1
        elif i >= ncol + ndeep:
            oc = off[i - ncol - ndeep]
            depths, droad = oc['depths'], oc['droad']
            off_kinds[oc['kind']] = off_kinds.get(oc['kind'], 0) + 1
        # pavement material: anything legal, on both sides of the soil values (1 W/m-K, 2e6 J/m3-K), and - as in
        # every shipped file - coinciding with one or both of them
        kroad = [rq(rng, 0.5, 0.9, 10), rq(rng, 1.1, 3, 10), F(1), rq(rng, 0.05, 5, 100)][i % 4]
        croad = [rq(rng, 1000000, 1990000, 1), F(2000000), rq(rng, 2010000, 3500000, 1)][(i // 4) % 3]
        epw = os.path.join(work, 'g%d.epw' % i)
        pmode = ['blank', 'filled', 'partly'][i % 3]
        other = [None, None, 'leapflag-Yes+dst-3/8-11/1', 'comments+weekday-Tuesday'][(i // 3) % 4]
        hdr_modes[pmode + ('/other header cells varied' if other else '')] = \
            hdr_modes.get(pmode + ('/other header cells varied' if other else ''), 0) + 1
        write_epw(os.path.join(repo, EPW), epw, depths, pmode, other)
        m = pkg.uwg.UWG.from_param_file(os.path.join(repo, PARAM), epw_path=epw)
        m.nday, m.droad, m.kroad, m.croad = 1, droad, kroad, croad
        for attr in ('_soilindex1', '_soilindex2'):
            if hasattr(m, attr):
                delattr(m, attr)
        try:
            with core.quiet():
                m.generate()
            outs = []
            for el, idxname in ((m.road, '_soilindex1'), (m.rural, '_soilindex2')):
                idx = getattr(m, idxname, None)
                outs.append('ok ' + lays_str(el.layer_thickness_lst, el.layerThermalCond, el.layerVolHeat) +
                            ' idx=' + ('unset' if idx is None else str(idx)))
        except IndexError:
            outs = ['err index', 'err index']
        except Exception as e:
            # fail-stop of generate(): with three or more ground records a pavement below the deepest one is refused
            # (outside the property's domain "every pavement thickness up to the deepest ground-temperature depth").
            # Accepted as such only if really no record lies at or below the refined pavement.
            pav_r = max(-(-droad // F(1, 20)), 1) * F(1, 20)
            if 'deeper than the deepest ground temperature depth' not in str(e):
                raise
            outs = ['err refused', 'err refused']       # generate() refuses: neither column exists (model: columnOutcome)
            if len(depths) >= 3 and all(dd < pav_r for dd in depths):
                refused_deep[0] += 1
            else:
                chk.violation('impl-violation', 'generate() refuses a pavement that is not below the deepest '
                              'ground-temperature depth', case={'droad': str(droad), 'depths': [str(x) for x in depths]},
                              observed=str(e), expected='columns padded to the first depth at or below the pavement')
        # the column the canyon model really simulates
        if outs[0].startswith('ok'):
            ucm_road = m.UCM.road
            nlay = -(-droad // F(1, 20))
            if ucm_road is m.road:
                ucm_state['padded'] += 1
            elif list(ucm_road.layer_thickness_lst) == [F(1, 20)] * int(nlay):
                ucm_state['unpadded' if sum(ucm_road.layer_thickness_lst) != sum(m.road.layer_thickness_lst)
                          else 'unpadded-but-equal'] += 1
            else:
                ucm_state['other'] += 1
                chk.violation('impl-violation', 'urban road column simulated by the canyon model',
                              case={'droad': str(droad), 'depths': [str(x) for x in depths]},
                              observed={'UCM.road': [str(x) for x in ucm_road.layer_thickness_lst]},
                              expected='the padded column of model.road (or, known finding, the unpadded pavement)')
        line = 'column droad=%s kroad=%s croad=%s depths=%s' % (
            frac_str(droad), frac_str(kroad), frac_str(croad), frac_list(depths))
        cases2.append((line, outs[0]))
        cases2.append((line + ' ', outs[1]))     # rural column: same rule
        # what was read from the header: the depths and each depth's monthly values, whatever the optional cells hold
        want_T = [[F('%.1f' % (20 + j + 0.5 * mm)) + F('273.15') for mm in range(12)] for j in range(len(depths))]
        got_d = [row[0] for row in getattr(m, 'depth_soil', [])]
        if outs[0].startswith('ok') and (getattr(m, 'nSoil', None) != len(depths) or got_d != list(depths) or
                                         [list(r) for r in m.Tsoil] != want_T):
            bad2 += 1
            chk.violation('impl-violation', 'ground-temperature header as read (nSoil, depth_soil, Tsoil) vs the file',
                          case={'GROUND TEMPERATURES': open(epw).read().split('\n')[3], 'soil-property cells': pmode},
                          observed={'nSoil': getattr(m, 'nSoil', None), 'depth_soil': [str(x) for x in got_d],
                                    'Tsoil[0]': [str(x) for x in (m.Tsoil[0] if m.Tsoil else [])]},
                          expected={'depths': [str(x) for x in depths], 'Tsoil[0]': [str(x) for x in want_T[0]]})
        # the column slice by slice: pavement material on top, soil - in every property - below
        if outs[0].startswith('ok'):
            n0_ = -(-droad // F(1, 20))
            pav_ = max(n0_, 1) * F(1, 20)          # the pavement is built from whole 5 cm layers
            for el in (m.road, m.rural):
                msg, nsoil = column_composition_msg(el, pav_, kroad, croad)
                tag = ('padded' if nsoil else 'no-padding') + ('/kroad=soil' if kroad == SOIL_K else '/kroad!=soil') + \
                    ('/croad=soil' if croad == SOIL_C else '/croad!=soil')
                comp[tag] = comp.get(tag, 0) + 1
                if msg:
                    badc[0] += 1
                    if badc[0] <= 3:
                        chk.violation('impl-violation', 'column composition oracle (padding is soil in every property) '
                                      'on generate(), exact',
                                      case={'droad': str(droad), 'kroad': str(kroad), 'croad': str(croad),
                                            'depths': [str(x) for x in depths], 'element': el.name},
                                      observed=msg,
                                      expected='pavement (kroad, croad) down to the refined pavement thickness, then 5 cm '
                                               'slices of soil: k = 1 W/m-K, c = 2e6 J/m3-K, Material "soil"')
        # oracle T3/T4 + Tsoil on the implementation
        if outs[0].startswith('ok') and getattr(m, '_soilindex1', None) is not None:
            idx = m._soilindex1
            tot = sum(m.road.layer_thickness_lst)
            n0 = -(-droad // F(1, 20))
            # the pavement is built from ceil(droad / 0.05) WHOLE 5 cm layers (a single one is halved by _procmat,
            # total kept): for droad < 0.05 the refined pavement is 0.05 m, not droad
            col = max(n0, 1) * F(1, 20)
            first = next((j for j, dd in enumerate(depths) if dd >= col), None)
            okk = (first == idx and depths[idx] <= tot < depths[idx] + F(1, 20) and
                   all(m.Tsoil[idx][mm] == F('%.1f' % (20 + idx + 0.5 * mm)) + F('273.15') for mm in range(12)))
            if (depths[idx] - col) % F(1, 20) == 0:
                okk = okk and tot == depths[idx]
            if not okk:
                bad2 += 1
                chk.violation('impl-violation', 'padding oracle (T3/T4) on generate()',
                              case={'droad': str(droad), 'depths': [str(x) for x in depths]},
                              observed={'index': idx, 'column': str(tot)},
                              expected='first depth >= pavement column; depth <= column < depth + 0.05')
        os.remove(epw)
    chk.correspond('generate()-ground-columns~groundColumn', 'C20', cases2,
                   rule='fractionised UWG.generate() on the Singapore EPW with synthetic ground-temperature '
                        'headers (1-4 depths, unsorted too; the optional soil conductivity / density / specific-heat '
                        'cells of every depth blank, all filled, or partly filled, in rotation; for half of the files '
                        'other header cells varied as well) x pavement thickness (incl. deeper than the deepest '
                        'depth: index unset with one or two ground records, refused - `err refused` on both sides - with '
                        'three or more); plus files whose first ground record at or below the pavement is DEEP '
                        '(12.5 / 20 / 25.05 / 26 / 30 / 40 m: columns of 250 .. 800 slices); plus geometry OFF the grids of '
                        'the model - ground depths and pavement thicknesses written to the millimetre: a record 1 .. 4.9 mm '
                        'below a point of the 5 cm slice grid that the column reaches anyway (0.503 under a 0.50 m road), '
                        '1 .. 4.9 mm above one, a record between the raw droad and droad rounded up to whole slices '
                        '(0.52 under a 0.51 m road: inside the asphalt; also as the only / last of one, two, three records), '
                        'depths in feet x pavements in inches (0.3048, 0.9144, 3.048), droad a few mm beyond a slice '
                        'boundary, a record equal to an off-grid droad, everything random to the mm (kinds: %s): road and rural layer lists and '
                        % ', '.join(V4.OFFGRID_KINDS) +
                        'soil index vs Lean columnOutcome, exact '
                        '(the model takes the depths only: the optional cells are no input)',
                   classify=lambda l, a: 'unset' if 'idx=unset' in a else 'err' if a.startswith('err') else 'padded')

    chk.direct('column-composition-oracle(generate, exact)', sum(comp.values()), sum(comp.values()),
               'road and rural columns after the fractionised generate(), slice by slice: the refined pavement carries '
               '(kroad, croad) in layerThermalCond / layerVolHeat and in its Material objects; every slice below it is '
               'soil in every property (0.05 m, k = 1 W/m-K, c = 2e6 J/m3-K, Material "soil"). Pavement materials on '
               'both sides of the soil values and coinciding with them (kroad = 1 as in every shipped file; croad = '
               '2e6), pavements that need padding and pavements that end on a ground-temperature depth',
               mismatches=badc[0], branches=comp)
    if chk.tier == 'quick' and (comp.get('padded/kroad!=soil/croad!=soil', 0) < 4):
        raise core.Infra('column generator no longer builds padded columns with kroad != 1: %s' % comp)
    chk.measurements['column_simulated_by_canyon_model'] = ucm_state
    chk.measurements['pavements_refused_as_deeper_than_the_deepest_of_3+_ground_records'] = refused_deep[0]
    chk.extra_cov['ground_header_modes'] = hdr_modes
    chk.extra_cov['off_grid_geometry(exact tie)'] = off_kinds
    if ucm_state['unpadded'] and not ucm_state['other'] and not chk.broken() and not chk.violations:
        for kf in chk.known_findings():
            if kf['id'] == 'C20-urban-road-not-padded':
                chk.report_known(kf)
    # --- T5 on real (float) runs: deep temperature used at EVERY step = Tsoil[index][month-1] of the
    # header, month = calendar month when the step starts (runs cross month boundaries)
    core.repo_python_path()
    import uwg as realuwg
    starts = [(1, 31, 2), (7, 1, 1)] if chk.tier == 'quick' else \
        [(mo, 28 if mo == 2 else 30, 3) for mo in range(1, 12)] + [(12, 1, 1)]
    bad3, nsteps = 0, 0
    import s1_util as S
    sgp_rows = S.load_epw(os.path.join(repo, EPW))
    # the shipped file, and copies whose ground line has the optional soil-property cells filled in / partly filled /
    # an actual-year header; a file with four depths, the properties filled, pavement below the second depth
    t5 = [(st, 'base', None, None) for st in starts]
    t5 += [(starts[0], 'ground-props-filled', None, None), (starts[-1], 'actual-year-header', None, None),
           ((rng.randint(1, 11), 28, 2), 'ground-props-partly', None, None),
           ((rng.randint(1, 11), 27, 2), 'filled', [0.3, 0.8, 1.5, 3.0], rng.choice([0.5, 1.0, 1.2]))]
    # off the grid: the record that closes the columns decides WHICH monthly values are imposed (a record inside the last
    # pavement slice must be passed over; a record a few mm below a slice boundary must be reached)
    oc_in = V4.offgrid_case(rng, 'inside-last-slice')
    oc_mm = V4.offgrid_case(rng, rng.choice(['mm-above-grid', 'feet-inches', 'droad-mm', 'equals-droad']))
    for oc in (oc_in, oc_mm):
        while len(oc['depths']) < 3:
            oc['depths'].append(oc['depths'][-1] + 2)
    t5 += [((rng.randint(1, 12), rng.randint(1, 28), 1), 'filled' if n else 'blank', [float(x) for x in oc['depths']],
            float(oc['droad'])) for n, oc in enumerate((oc_in, oc_mm))]
    chk.extra_cov['off_grid_geometry(deepTemp runs)'] = [
        {'kind': oc['kind'], 'depths': [float(x) for x in oc['depths']], 'droad': float(oc['droad'])} for oc in (oc_in, oc_mm)]
    # a rural file of a cold climate: the record the columns end at is below 0 degC from October to March (signed cells), run in
    # such a month
    t5.append(((rng.choice([1, 2, 3, 10, 11, 12]), rng.randint(1, 28), 1), 'blank', [0.5, 2.0, 4.0], None))
    cold_idx = len(t5) - 1
    hdr_file = None
    for ti, ((mo, dy, nd), variant, own_depths, droad) in enumerate(t5):
        if own_depths:
            rows_v = S.copy_rows(sgp_rows)
            rows_v[3] = S.ground_line(own_depths, PROPS[variant],
                                      temps=lambda i, mth, ti=ti: '%.2f' % (
                                          (-9.0 + 4.0 * min(mth, 11 - mth) if ti == cold_idx else 11.0 + 0.31 * mth) + 1.7 * i))
        else:
            rows_v = S.apply_variant(sgp_rows, variant)
        epw_v = os.path.join(repo, EPW) if variant == 'base' else S.save_epw(rows_v, os.path.join(work, 't5v.epw'))
        depths_v, temps_v, _ = S.ground_of(rows_v)        # by the EPW layout: 16 cells per depth
        m = realuwg.UWG.from_param_file(os.path.join(repo, PARAM), epw_path=epw_v,
                                        new_epw_dir=work, new_epw_name='t5.epw')
        m.month, m.day, m.nday, m.dtsim = mo, dy, nd, 300
        if droad:
            m.droad = droad
        with core.quiet():
            m.generate()
        seen = []
        orig = m.simTime.update_date

        def upd(orig=orig, m=m, seen=seen):
            seen.append((m.simTime.month, m.forc.deepTemp))     # month before the clock advances
            return orig()
        m.simTime.update_date = upd
        try:
            with core.quiet():
                m.simulate()
        except IndexError:
            # unchanged tree, recorded in DESIGN 3.1: with droad <= 0.05 m the urban road that is simulated (UCM.road,
            # known finding C20) has ONE layer and Element.Conduction stops with IndexError in the first step - fail-stop,
            # nothing to judge for the deep temperature of later steps
            if m.droad > 0.05 + 1e-12:
                raise
            chk.notes.append('deepTemp run with droad = %r m skipped: one-layer urban road, IndexError in the first '
                             'conduction step (fail-stop of the unchanged tree)' % m.droad)
        finally:
            del m.simTime.update_date
        nsteps += len(seen)
        pav = 0.05 * max(int(math.ceil(m.droad / 0.05)), 1)
        want_idx = next((i for i, d in enumerate(depths_v) if d > pav - 1e-9), None)
        if m._soilindex1 != want_idx or m._soilindex2 != want_idx or \
                [r[0] for r in m.depth_soil] != depths_v:
            bad3 += 1
            chk.violation('impl-violation', 'ground-temperature level chosen as deep boundary (T3)',
                          case={'epw_variant': variant, 'GROUND TEMPERATURES': rows_v[3], 'droad': m.droad},
                          observed={'_soilindex1': m._soilindex1, '_soilindex2': m._soilindex2,
                                    'depth_soil': m.depth_soil},
                          expected={'index': want_idx, 'depths': depths_v})
            continue
        for (month, deep) in seen:
            want = temps_v[want_idx][month - 1] + 273.15
            if deep != want:
                bad3 += 1
                chk.violation('impl-violation', 'deep temperature oracle (T5)',
                              case={'start': [mo, dy], 'nday': nd, 'month_of_step': month, 'epw_variant': variant,
                                    'GROUND TEMPERATURES': rows_v[3], 'droad': m.droad},
                              observed=deep, expected=want)
                break
    chk.direct('deepTemp-oracle(simulate, every step)', nsteps, len(t5),
               'real runs crossing month boundaries: at every step forc.deepTemp equals the EPW header value of '
               'the chosen depth for the calendar month in which the step starts; the chosen depth is the first one '
               'at or below the pavement. Files: the shipped one; its ground line with the optional soil-property '
               'cells filled / partly filled; an actual-year header (leap flag, DST period, holidays, Friday, '
               'properties); a four-depth line with properties filled and the pavement below the second depth; two '
               'one-day runs with OFF-GRID geometry (a ground record between the raw droad and droad rounded up to whole '
               '5 cm slices - it lies inside the asphalt and must be passed over; depths / droad to the millimetre or '
               'in feet and inches); a file of a cold climate whose 0.5 m record is below 0 degC from October to March (signed cells: -9.00, -5.00, -1.00, 3.00 ... 11.00), run in one of those months. '
               'Expected values are parsed by the EPW layout (16 cells per depth)', mismatches=bad3)

    # --- float-level padding oracle on the real generate(): pavement thickness grid
    grid = [0.05 * k for k in range(1, 81)] if chk.tier == 'thorough' else \
        [0.05, 0.1, 0.15, 0.25, 0.3, 0.35, 0.5, 0.55, 0.75, 1.0, 1.5, 2.0, 2.05, 2.5, 3.0, 3.85, 3.9, 4.0]
    depths_f = S.ground_of(sgp_rows)[0]
    bad4, bad5, compf = 0, 0, {}
    filled = S.save_epw(S.apply_variant(sgp_rows, 'ground-props-filled'), os.path.join(work, 'pad_filled.epw'))
    for gi, droad in enumerate(grid):
        # every third grid point on the copy whose soil-property cells are filled in (same depths)
        m = realuwg.UWG.from_param_file(os.path.join(repo, PARAM),
                                        epw_path=filled if gi % 3 == 1 else os.path.join(repo, EPW))
        m.nday, m.droad = 1, droad
        kroad_f = [1.8, 1.0, 0.6, 2.5, 0.25][gi % 5]
        croad_f = [1.6e6, 2.4e6, 2e6][(gi // 2) % 3]
        m.kroad, m.croad = kroad_f, croad_f
        with core.quiet():
            m.generate()
        for el, idxname in ((m.road, '_soilindex1'), (m.rural, '_soilindex2')):
            pavement = 0.05 * int(math.ceil(droad / 0.05)) if droad > 0.05 else droad
            msg, nsoil = column_composition_msg(el, 0.05 * max(int(math.ceil(droad / 0.05)), 1), kroad_f, croad_f,
                                                tol=1e-9)
            tagf = ('padded' if nsoil else 'no-padding') + ('/kroad=1' if kroad_f == 1.0 else '/kroad!=1')
            compf[tagf] = compf.get(tagf, 0) + 1
            if msg:
                bad5 += 1
                if bad5 <= 2:
                    chk.violation('impl-violation', 'column composition oracle (padding is soil in every property) on '
                                  'the real float generate()',
                                  case={'droad': droad, 'kroad': kroad_f, 'croad': croad_f, 'element': el.name,
                                        'rural file': 'shipped Singapore file (ground depths %s)' % depths_f},
                                  observed=msg,
                                  expected='pavement (kroad, croad), then 5 cm slices of soil: k = 1 W/m-K, '
                                           'c = 2e6 J/m3-K, Material "soil"')
            idx = getattr(m, idxname)
            want_idx = next((i for i, d in enumerate(depths_f) if d > pavement - 1e-9), None)
            tot = sum(el.layer_thickness_lst)
            ok = idx == want_idx
            if ok:
                gap_layers = (depths_f[idx] - pavement) / 0.05
                ok = depths_f[idx] - 1e-9 <= tot < depths_f[idx] + 0.05 - 1e-9
                if abs(gap_layers - round(gap_layers)) < 1e-6:
                    ok = ok and abs(tot - depths_f[idx]) < 1e-9
            if not ok:
                bad4 += 1
                if bad4 <= 2:
                    chk.violation('impl-violation', 'padding oracle (T3/T4) on the real float generate()',
                                  case={'droad': droad, 'element': el.name,
                                        'soil-property cells': 'filled' if gi % 3 == 1 else 'blank'},
                                  observed={'index': idx, 'column_depth': tot, 'layers': len(el.layer_thickness_lst)},
                                  expected='index %s, column ending at depth %s' % (want_idx, depths_f[want_idx]))
    chk.direct('padding-oracle(real float generate)', 2 * len(grid), 2 * len(grid),
               'real (double precision) generate() over a grid of pavement thicknesses: road and rural columns end at '
               'the first ground-temperature depth at or below the pavement (exactly, to 1e-9, when the gap is a whole '
               'number of 5 cm layers); every third grid point on a copy of the file whose soil-property cells are '
               'filled in', mismatches=bad4)
    chk.direct('column-composition-oracle(real float generate)', sum(compf.values()), sum(compf.values()),
               'the same grid with kroad cycling through 1.8 / 1.0 / 0.6 / 2.5 / 0.25 W/m-K and croad through 1.6e6 / '
               '2.4e6 / 2e6 J/m3-K: slice by slice the pavement carries (kroad, croad) and everything below it is soil '
               'in every property (k = 1, c = 2e6, 0.05 m, Material "soil")', mismatches=bad5, branches=compf)
    # --- round 8: the same float-level oracle on files whose ground depths are NOT the standard 0.5 / 2 / 4 m, so that
    # (depth - pavement) / 0.05 is a whole number of slices only up to rounding (0.55 - 0.5, 0.8 - 0.5, 0.85 - 0.3 ...)
    bad6, n6 = 0, 0
    for di, dset in enumerate([[0.55, 2.0, 4.0], [0.8, 2.2, 4.4], [0.3, 0.85, 1.35], [0.65, 1.15, 3.3], [0.7, 0.9, 2.45]]):
        rows6 = S.copy_rows(sgp_rows)
        rows6[3] = S.ground_line([repr(d) for d in dset])
        f6 = S.save_epw(rows6, os.path.join(work, 'pad_depths_%d.epw' % di))
        for droad in ([0.5, 0.25, 0.05, 0.3] if chk.tier != 'thorough' else [0.05 * k for k in range(1, 14)]):
            if droad > dset[-1]:
                continue
            m = realuwg.UWG.from_param_file(os.path.join(repo, PARAM), epw_path=f6)
            m.nday, m.droad = 1, droad
            with core.quiet():
                m.generate()
            pavement = 0.05 * int(math.ceil(droad / 0.05)) if droad > 0.05 else droad
            want_idx = next((i for i, d in enumerate(dset) if d > pavement - 1e-9), None)
            for el, idxname in ((m.road, '_soilindex1'), (m.rural, '_soilindex2')):
                n6 += 1
                idx, tot = getattr(m, idxname), sum(el.layer_thickness_lst)
                ok = idx == want_idx
                if ok:
                    gap_layers = (dset[idx] - pavement) / 0.05
                    ok = dset[idx] - 1e-9 <= tot < dset[idx] + 0.05 - 1e-9
                    if abs(gap_layers - round(gap_layers)) < 1e-6:
                        ok = ok and abs(tot - dset[idx]) < 1e-9
                if not ok:
                    bad6 += 1
                    if bad6 <= 2:
                        chk.violation('impl-violation', 'padding oracle (T3/T4) on the real float generate(), rural file with '
                                      'non-standard ground depths',
                                      case={'droad': droad, 'element': el.name, 'ground depths of the rural file': dset,
                                            'rural file': 'shipped Singapore file with header line 4 = s1_util.ground_line(depths)'},
                                      observed={'index': idx, 'column_depth': tot, 'layers': len(el.layer_thickness_lst)},
                                      expected='index %s, column ending at depth %s' % (want_idx, dset[want_idx]))
    chk.direct('padding-oracle(real float generate, non-standard ground depths)', n6, n6,
               'real (double precision) generate() on copies of the Singapore file whose three ground depths are 0.55/2/4, '
               '0.8/2.2/4.4, 0.3/0.85/1.35, 0.65/1.15/3.3, 0.7/0.9/2.45 m x pavements of 0.05..0.5 m: road and rural columns '
               'end at the first depth at or below the pavement, exactly (1e-9) when the gap is a whole number of 5 cm slices '
               'up to rounding - a slice count taken from a float quotient over-counts there', mismatches=bad6)
    offgrid_float_tie(chk, realuwg, sgp_rows, work)
    equal_depth_float_tie(chk, realuwg, work)
    chk.assumptions.append('float effects in ceil(droad/0.05) and depth > sum(thickness) are outside the exact '
                           'model (e.g. droad=0.35 gives 8 pavement layers in doubles, 7 exactly)')
    circumstance_ties(chk, chk.tier == 'quick')
    # the ground-temperature line itself: the real _read_epw vs the Lean reader, for every number of depths
    epwheader.run_header(chk, 'ground')
