"""C11 - one-dimensional conduction conserves energy exactly.

Additional tie (composition B, lean/UwgVerif/Model/SurfFlux.lean + Props/SurfFluxEnergy.lean): the whole
Element.SurfFlux = season partition (C18) + conduction step (C11), fractionised real routine vs `surfFlux`,
with the energy statement of the composition as oracle on the real results."""
import json
from fractions import Fraction as F
from types import SimpleNamespace as NS

import fracexec
from fracexec import frac_str, frac_list

MODULE = 'UwgVerif.Props.C11'
THEOREMS = ['Uwg.C11.conduction_solves', 'Uwg.C11.energy_flux_bc', 'Uwg.C11.energy_deep_bc',
            'Uwg.C11.steady_fixed_flux', 'Uwg.C11.steady_fixed_deep', 'Uwg.C11.uniform_fixed',
            'Uwg.C11.energy_sequence', 'Uwg.solve_sound', 'Uwg.pivots_of_mrows',
            'Uwg.pivots_of_sdd', 'Uwg.sat_unique_solve',
            # composition B: Element.SurfFlux = season partition + conduction step
            'Uwg.SurfFluxEnergy.surfflux_energy_flux_bc', 'Uwg.SurfFluxEnergy.surfflux_energy_deep_bc',
            'Uwg.SurfFluxEnergy.surfflux_offseason_bare', 'Uwg.SurfFluxEnergy.surfflux_isothermal',
            'Uwg.SurfFluxEnergy.surfflux_returns', 'Uwg.SurfFluxEnergy.surfFlux_ok_inv',
            'Uwg.SurfFluxEnergy.partition_flux']
SURF_MODULE = 'UwgVerif.Props.SurfFluxEnergy'


def rq(rng, lo, hi, den=None):
    den = den or rng.choice([1, 2, 4, 5, 10, 20, 100, 1000])
    return F(rng.randint(int(lo * den), int(hi * den)), den)


def gen_case(rng, n=None, kind=None):
    n = n if n is not None else rng.choice([2, 2, 3, 3, 4, 5, 6, 8, 10, 13, 20, 30, 40])
    kind = kind or rng.choice(['random', 'random', 'random', 'uniform', 'steady', 'uniform-inner',
                               'shared-material'])
    d = [rq(rng, 0.005, 1.0, 1000) or F(1, 100) for _ in range(n)]
    k = [rq(rng, 0.03, 3.0, 100) or F(1) for _ in range(n)]
    c = [rq(rng, 1e4, 3e6, 1) or F(10 ** 6) for _ in range(n)]
    dt = F(rng.choice([1, 30, 60, 300, 600, 900, 3600]))
    bc = rng.choice(['flux', 'deep'])
    flx1 = rq(rng, -500, 900, 10)
    if kind == 'shared-material':
        # one Material OBJECT in every layer (equal properties), layers of different thickness
        k = [k[0]] * n
        c = [c[0]] * n
        t = [rq(rng, 250, 330, 10) for _ in range(n)]
        v2 = rq(rng, -300, 300, 10) if bc == 'flux' else rq(rng, 270, 300, 10)
    elif kind == 'uniform-inner':
        # isothermal element, no flux at the outer face, but an ACTIVE inner boundary
        T = rq(rng, 250, 320, 10)
        t = [T] * n
        flx1 = F(0)
        v2 = rq(rng, 5, 300, 10) * rng.choice([1, -1]) if bc == 'flux' else T + rq(rng, 1, 15, 10) * rng.choice([1, -1])
    elif kind == 'uniform':
        T = rq(rng, 250, 320, 10)
        t = [T] * n
        flx1 = F(0)
        v2 = F(0) if bc == 'flux' else T
    elif kind == 'steady':
        q = rq(rng, -50, 50, 1)
        t = [rq(rng, 250, 320, 10)]
        for j in range(1, n):
            g = 2 / (d[j - 1] / k[j - 1] + d[j] / k[j])
            t.append(t[-1] - q / g)
        flx1 = q
        v2 = -q if bc == 'flux' else t[-1]
    else:
        t = [rq(rng, 250, 330, 10) for _ in range(n)]
        v2 = rq(rng, -300, 300, 10) if bc == 'flux' else rq(rng, 270, 300, 10)
    return dict(dt=dt, flx1=flx1, bc=bc, v2=v2, d=d, k=k, c=c, t=t, kind=kind)


def line_of(cs):
    return 'cond dt=%s flx1=%s bc=%s v2=%s d=%s k=%s c=%s t=%s' % (
        frac_str(cs['dt']), frac_str(cs['flx1']), cs['bc'], frac_str(cs['v2']),
        frac_list(cs['d']), frac_list(cs['k']), frac_list(cs['c']), frac_list(cs['t']))


def impl_conduction(pkg, cs):
    """Run the REAL Element.Conduction over exact rationals."""
    Element = pkg.element.Element
    Material = pkg.material.Material
    if cs.get('kind') == 'shared-material':
        one = Material(cs['k'][0], cs['c'][0], 'm')
        mats = [one] * len(cs['k'])
    else:
        mats = [Material(k, c, 'm') for k, c in zip(cs['k'], cs['c'])]
    e = Element(F(1, 10), F(9, 10), list(cs['d']), mats, F(0), F(293), 1, 'e')
    e.layerTemp = list(cs['t'])
    bc = 1 if cs['bc'] == 'flux' else 2
    temp2 = cs['v2'] if bc == 2 else F(0)
    flx2 = cs['v2'] if bc == 1 else F(0)
    try:
        return e.Conduction(cs['dt'], cs['flx1'], bc, temp2, flx2)
    except IndexError:
        return 'err index'
    except ZeroDivisionError:
        return 'err zerodiv'


def oracle(cs, xs):
    """The property itself, evaluated on an implementation result. Returns None or a message."""
    d, k, c, t = cs['d'], cs['k'], cs['c'], cs['t']
    n = len(d)
    if cs['bc'] == 'flux':
        lhs = sum(c[j] * d[j] * (xs[j] - t[j]) for j in range(n))
        rhs = cs['dt'] * (cs['flx1'] + cs['v2'])
        if lhs != rhs:
            return 'stored-energy change %s != dt*(flx1+flx2) %s' % (float(lhs), float(rhs))
    else:
        if xs[-1] != cs['v2']:
            return 'last layer %s != deep temperature %s' % (xs[-1], cs['v2'])
        g = 2 / (d[n - 2] / k[n - 2] + d[n - 1] / k[n - 1])
        deep = g * (F(1, 2) * (xs[n - 2] - xs[n - 1]) + F(1, 2) * (t[n - 2] - t[n - 1]))
        lhs = sum(c[j] * d[j] * (xs[j] - t[j]) for j in range(n - 1))
        rhs = cs['dt'] * (cs['flx1'] - deep)
        if lhs != rhs:
            return 'stored-energy change (all but deep layer) %s != dt*(flx1 - deep flux) %s' % (
                float(lhs), float(rhs))
    if cs['kind'] in ('uniform', 'steady') and list(xs) != list(t):
        return '%s profile is not a fixed point' % cs['kind']
    return None


def case_json(cs):
    return {k: (str(v) if isinstance(v, F) else [str(x) for x in v] if isinstance(v, list) else v)
            for k, v in cs.items()}


# ----------------------------------------------------------------------------- composition B: Element.SurfFlux
SURF_V = ('alb', 'vc', 'g', 'tr', 'solRec', 'infra', 'pres', 'deepT', 'va', 'gf', 'tf', 'wd', 'lv', 'dt', 'hum',
          'tref', 'wind', 'bc', 'intF')
SEASONS = ('before', 'in', 'after', 'wrap')


def gen_surf(rng, orient=None, bck=None, season=None, kind=None, n=None):
    """One call of Element.SurfFlux: orientation road / roof (horizontal without grass/tree attributes) / wall,
    boundary kind, season case, layering."""
    orient = orient or rng.choice(['road', 'roof', 'wall'])
    bck = bck or rng.choice(['flux', 'deep'])
    season = season or rng.choice(('before', 'in', 'in', 'in', 'after', 'wrap'))
    kind = kind or rng.choice(['random'] * 5 + ['isothermal'])
    n = n if n is not None else rng.choice([2, 2, 3, 4, 5, 7, 10, 12])
    cs = dict(orient=orient, bck=bck, season=season, kind=kind)
    cs['d'] = [rq(rng, 0.005, 0.5, 1000) or F(1, 100) for _ in range(n)]
    cs['k'] = [rq(rng, 0.03, 3.0, 100) or F(1) for _ in range(n)]
    cs['c'] = [rq(rng, 1e4, 3e6, 1) or F(10 ** 6) for _ in range(n)]
    cs['t'] = [rq(rng, 250, 330, 10) for _ in range(n)]
    if season == 'before':
        s = rng.randint(2, 12); e = rng.randint(s, 12); m = rng.randint(1, s - 1)
    elif season == 'in':
        s = rng.randint(1, 12); e = rng.randint(s, 12); m = rng.randint(s, e)
    elif season == 'after':
        e = rng.randint(1, 11); s = rng.randint(1, e); m = rng.randint(e + 1, 12)
    else:
        e = rng.randint(1, 11); s = rng.randint(e + 1, 12); m = rng.randint(1, 12)
    cs.update(m=m, s=s, e=e)
    cs.update(alb=rq(rng, 0.05, 0.6, 100), vc=rq(rng, 0, 1, 100), g=rq(rng, 0, 0.5, 100), tr=rq(rng, 0, 0.5, 100),
              solRec=rng.choice([F(0), rq(rng, 0, 900, 1), rq(rng, 0, 900, 10)]), infra=rq(rng, -120, 60, 10),
              pres=rq(rng, 80000, 103000, 1), deepT=rq(rng, 270, 300, 10), va=rq(rng, 0.1, 0.4, 100),
              gf=rq(rng, 0.2, 0.7, 100), tf=rq(rng, 0.3, 0.8, 100), wd=F(1000), lv=F(2500800),
              dt=F(rng.choice([1, 30, 60, 300, 600, 900, 3600])), hum=rq(rng, 0, 0.03, 10000),
              tref=rq(rng, 250, 320, 10), wind=rq(rng, 0, 9, 10),
              intF=rng.choice([F(0), rq(rng, -80, 80, 10)]))
    cs['bc'] = F(1) if bck == 'flux' else F(2)
    if kind == 'isothermal':
        T = cs['tref']
        cs['t'] = [T] * n
        cs['solRec'], cs['infra'] = F(0), F(0)
        if bck == 'flux':
            cs['intF'] = F(0)
        else:
            cs['deepT'] = T
    return cs


def surf_edge_cases(rng):
    """Error branches and boundary-kind tolerance of the real routine."""
    out = []
    for n in (0, 1):
        out.append(gen_surf(rng, n=n, kind='random'))
    c = gen_surf(rng, kind='random'); c['tref'] = F(0); out.append(c)                       # ZeroDivisionError
    c = gen_surf(rng, kind='random'); c['hum'] = F(-1000000, 1607858); out.append(c)        # ZeroDivisionError
    c = gen_surf(rng, kind='random', n=1); c['tref'] = F(0); out.append(c)                  # zerodiv before index
    for bc in (F(3), F(0), F(3, 2), F(1) + F(1, 10 ** 9), F(2) - F(1, 10 ** 9)):           # refused kinds
        c = gen_surf(rng, kind='random'); c['bc'] = bc; c['bck'] = 'other'; out.append(c)
    for bc, b in ((F(1) + F(1, 10 ** 11), 'flux'), (F(1) - F(1, 10 ** 11), 'flux'), (F(2) + F(1, 10 ** 11), 'deep')):
        c = gen_surf(rng, kind='random', bck=b); c['bc'] = bc; out.append(c)                # within is_near_zero
    c = gen_surf(rng, kind='random', n=1); c['bc'] = F(3); out.append(c)                    # index before kind
    return out


def make_surf_element(pkg, cs):
    Element, Material = pkg.element.Element, pkg.material.Material
    mats = [Material(k, c, 'm') for k, c in zip(cs['k'], cs['c'])]
    el = Element(cs['alb'], F(9, 10), list(cs['d']), mats, cs['vc'], F(293), 0 if cs['orient'] == 'wall' else 1, 'x')
    if cs['orient'] == 'road':
        el.grasscoverage, el.treecoverage = cs['g'], cs['tr']
    if el.waterStorage != 0:
        raise LiveEvaporation('Element.__init__ sets waterStorage = %r' % (el.waterStorage,))
    return el


class LiveEvaporation(Exception):
    pass


def water_storage_scan(repo):
    """The model follows the else branch of the waterStorage test: sound while nothing in uwg assigns the
    attribute except Element.__init__ (the constant 0) and the (then dead) branch of SurfFlux itself."""
    import ast
    import os
    bad = []
    for fn in sorted(os.listdir(os.path.join(repo, 'uwg'))):
        if not fn.endswith('.py'):
            continue
        tree = ast.parse(open(os.path.join(repo, 'uwg', fn), 'rb').read().decode('utf-8', 'ignore'))
        for fdef in [x for x in ast.walk(tree) if isinstance(x, (ast.FunctionDef, ast.Module))]:
            for node in (ast.walk(fdef) if isinstance(fdef, ast.FunctionDef) else []):
                tg = []
                if isinstance(node, ast.Assign):
                    tg = node.targets
                elif isinstance(node, (ast.AugAssign, ast.AnnAssign)):
                    tg = [node.target]
                for t in tg:
                    if isinstance(t, ast.Attribute) and t.attr == 'waterStorage':
                        ok = fn == 'element.py' and (
                            fdef.name == 'SurfFlux' or
                            (fdef.name == '__init__' and isinstance(node, ast.Assign) and
                             isinstance(node.value, ast.Constant) and node.value.value == 0))
                        if not ok:
                            bad.append('%s:%d %s assigns waterStorage' % (fn, node.lineno, fdef.name))
        if 'setattr' in open(os.path.join(repo, 'uwg', fn), 'rb').read().decode('utf-8', 'ignore') and \
                'waterStorage' in open(os.path.join(repo, 'uwg', fn), 'rb').read().decode('utf-8', 'ignore') and \
                fn != 'element.py':
            bad.append('%s mentions waterStorage and setattr' % fn)
    return bad


def surf_call(el, cs):
    """Run the REAL (fractionised) Element.SurfFlux on the element's current state."""
    el.layerTemp = list(cs['t'])
    el.solRec, el.infra = cs['solRec'], cs['infra']
    forc = NS(pres=cs['pres'], prec=F(0), deepTemp=cs['deepT'])
    par = NS(vegStart=cs['s'], vegEnd=cs['e'], vegAlbedo=cs['va'], grassFLat=cs['gf'], treeFLat=cs['tf'],
             colburn=F(1), waterDens=cs['wd'], cp=F(1004), lv=cs['lv'], wgmax=F(1, 200))
    sim = NS(month=cs['m'], dt=cs['dt'])
    try:
        el.SurfFlux(forc, par, sim, cs['hum'], cs['tref'], cs['wind'], cs['bc'], cs['intF'])
    except ZeroDivisionError:
        return 'err zerodiv'
    except IndexError:
        return 'err index'
    except (AssertionError, AttributeError, TypeError, ValueError):
        raise
    except Exception as ex:  # noqa - Conduction's own "Error during conduction calculation"
        return 'err fatal' if 'conduction' in str(ex).lower() else 'err ' + type(ex).__name__
    return dict(aero=el.aeroCond, solAbs=el.solAbs, lat=el.lat, sens=el.sens, flux=el.flux, T_ext=el.T_ext,
                T_int=el.T_int, x=list(el.layerTemp))


def surf_line(cs):
    return 'surfflux hor=%d road=%d m=%d s=%d e=%d v=%s d=%s k=%s c=%s t=%s' % (
        0 if cs['orient'] == 'wall' else 1, 1 if cs['orient'] == 'road' else 0, cs['m'], cs['s'], cs['e'],
        frac_list([cs[k] for k in SURF_V]), frac_list(cs['d']), frac_list(cs['k']), frac_list(cs['c']),
        frac_list(cs['t']))


def surf_ans(r):
    if isinstance(r, str):
        return r
    return 'ok %s %s' % (frac_list([r['aero'], r['solAbs'], r['lat'], r['sens'], r['flux'], r['T_ext'], r['T_int']]),
                         frac_list(r['x']))


def surf_oracle(cs, r):
    """The statements of Props/SurfFluxEnergy.lean evaluated on a result of the real SurfFlux."""
    d, k, c, t, x = cs['d'], cs['k'], cs['c'], cs['t'], r['x']
    n = len(d)
    net = r['solAbs'] + cs['infra'] - r['lat'] - r['sens']
    if r['flux'] != net:
        return 'flux %s != solAbs + infra - lat - sens %s' % (float(r['flux']), float(net))
    if r['T_ext'] != x[0] or r['T_int'] != x[-1]:
        return 'T_ext / T_int are not the first / last new layer temperature'
    if cs['orient'] == 'wall' and r['lat'] != 0:
        return 'vertical element with latent heat %s' % r['lat']
    if cs['bc'] == 1 or cs['bck'] == 'flux':
        lhs = sum(c[j] * d[j] * (x[j] - t[j]) for j in range(n))
        rhs = cs['dt'] * (net + cs['intF'])
        if lhs != rhs:
            return 'stored-energy change %s != dt*(solAbs + infra - lat - sens + intFlux) %s' % (float(lhs), float(rhs))
    else:
        if x[-1] != cs['deepT']:
            return 'T_int %s != deep temperature %s' % (x[-1], cs['deepT'])
        g = 2 / (d[n - 2] / k[n - 2] + d[n - 1] / k[n - 1])
        deep = g * (F(1, 2) * (x[n - 2] - x[n - 1]) + F(1, 2) * (t[n - 2] - t[n - 1]))
        lhs = sum(c[j] * d[j] * (x[j] - t[j]) for j in range(n - 1))
        rhs = cs['dt'] * (net - deep)
        if lhs != rhs:
            return 'stored-energy change above the deep layer %s != dt*(net flux - deep flux) %s' % (float(lhs), float(rhs))
    if cs['kind'] == 'isothermal' and (list(x) != list(t) or r['flux'] != 0):
        return 'isothermal element without radiation changed (flux %s)' % r['flux']
    return None


def surf_twin(rng, cs):
    """Same call with other vegetation data: must give the same result off season / for a wall."""
    tw = dict(cs)
    tw.update(vc=rq(rng, 0, 1, 100), g=rq(rng, 0, 0.5, 100), tr=rq(rng, 0, 0.5, 100), va=rq(rng, 0.1, 0.4, 100),
              gf=rq(rng, 0.2, 0.7, 100), tf=rq(rng, 0.3, 0.8, 100))
    return tw


def run_surfflux(chk, pkg):
    try:
        run_surfflux_(chk, pkg)
    except LiveEvaporation as ex:
        chk.corr_problems.append({'tie': 'Element.SurfFlux~surfFlux', 'case': None, 'impl': str(ex),
                                  'model': 'surfFlux follows the else branch (waterStorage = 0)'})


def run_surfflux_(chk, pkg):
    rng = chk.rng
    import core
    wbad = water_storage_scan(core.REPO)
    if wbad:
        chk.corr_problems.append({'tie': 'waterStorage-scan', 'case': '; '.join(wbad[:3]),
                                  'impl': 'waterStorage can become non-zero: the evaporation branch of SurfFlux is live',
                                  'model': 'surfFlux follows the else branch (eg = 0)'})
    chk.direct('waterStorage-scan(AST of uwg/*.py)', 1, 1,
               'no assignment to an attribute waterStorage outside Element.__init__ (= 0) and SurfFlux itself',
               mismatches=len(wbad))
    big = chk.tier == 'thorough'
    cases = [gen_surf(rng, orient=o, bck=b, season=s) for o in ('road', 'roof', 'wall') for b in ('flux', 'deep')
             for s in SEASONS for _ in range(3 if not big else 12)]
    cases += [gen_surf(rng, orient=o, bck=b, kind='isothermal') for o in ('road', 'roof', 'wall')
              for b in ('flux', 'deep') for _ in range(3)]
    cases += [gen_surf(rng) for _ in range(120 if not big else 2000)]
    cases += surf_edge_cases(rng)
    results = [surf_call(make_surf_element(pkg, cs), cs) for cs in cases]

    def cls(line, impl):
        a = dict(w.split('=', 1) for w in line.split()[1:])
        m, s, e = int(a['m']), int(a['s']), int(a['e'])
        o = 'wall' if a['hor'] == '0' else 'road' if a['road'] == '1' else 'roof'
        bc = a['v'].strip('[]').split(';')[17]
        return '%s/%s/%s' % (o, 'bc1' if bc == '1/1' else 'bc2' if bc == '2/1' else 'bc~',
                             'off' if (m < s or m > e) else 'in')
    chk.correspond('Element.SurfFlux~surfFlux', 'C11', [(surf_line(cs), surf_ans(r)) for cs, r in zip(cases, results)],
                   rule='fractionised REAL Element.SurfFlux (horizontal road with grass/tree attributes, horizontal '
                        'roof-like, vertical wall; boundary kinds 1, 2, within / outside the is_near_zero tolerance, '
                        'refused kinds; months before / inside / after the season and empty (wrap-around) seasons; '
                        '2..12 layers, 0 and 1 layer, zero density denominator) vs Lean surfFlux: exact aeroCond, '
                        'solAbs, lat, sens, flux, T_ext, T_int and all new layer temperatures, or the error class',
                   classify=cls)
    bad, nor, br = 0, 0, {}
    for cs, r in zip(cases, results):
        if isinstance(r, str):
            continue
        nor += 1
        key = '%s/%s/%s' % (cs['orient'], cs['bck'], cs['kind'])
        br[key] = br.get(key, 0) + 1
        msg = surf_oracle(cs, r)
        if msg is None and (cs['orient'] == 'wall' or cs['m'] < cs['s'] or cs['m'] > cs['e']):
            tw = surf_twin(rng, cs)
            r2 = surf_call(make_surf_element(pkg, tw), tw)
            if isinstance(r2, str) or any(r2[q] != r[q] for q in ('solAbs', 'lat', 'sens', 'flux', 'x', 'T_ext', 'T_int')):
                msg = 'off season / vertical, yet other vegetation parameters change the result: %s vs %s' % (
                    r2 if isinstance(r2, str) else [float(v) for v in r2['x'][:2]], [float(v) for v in r['x'][:2]])
                cs = dict(cs, twin_vegetation={q: str(tw[q]) for q in ('vc', 'g', 'tr', 'va', 'gf', 'tf')})
        if msg:
            bad += 1
            if bad <= 3:
                chk.violation('impl-violation', 'energy / bare-ground / isothermal oracle on Element.SurfFlux',
                              case=case_json(cs), observed=msg,
                              expected='stored heat changes by dt*(solAbs + infra - lat - sens + intFlux) (kind 1) / '
                                       'deep-layer balance (kind 2); off season independent of vegetation; '
                                       'isothermal unchanged')
    chk.direct('energy-oracle(Element.SurfFlux)', nor, nor,
               'statements of Props/SurfFluxEnergy.lean evaluated on the exact results of the real SurfFlux: '
               'flux = solAbs + infra - lat - sens; stored-heat change = dt*(net flux + intFlux) for kind 1, '
               'deep-layer balance and T_int = deepTemp for kind 2; T_ext/T_int = first/last layer; wall: lat = 0; '
               'off season / wall: a twin with other vegetation data gives identical results; isothermal cases '
               'unchanged', mismatches=bad, branches=br)
    # histories on ONE Element: months cross the season, timestep / boundary / radiation vary, the layer
    # temperatures are carried by the object itself from call to call (as in simulate)
    nseq = 12 if not big else 120
    pairs, sbad, nst = [], 0, 0
    for _ in range(nseq):
        base = gen_surf(rng, kind='random', n=rng.choice([2, 3, 5, 8]))
        el = make_surf_element(pkg, base)
        cur = list(base['t'])
        for step in range(rng.randint(3, 6)):
            cs = gen_surf(rng, orient=base['orient'], kind='random', n=len(base['d']))
            for q in ('d', 'k', 'c', 'alb', 'vc', 'g', 'tr'):
                cs[q] = base[q]
            cs['t'] = cur
            cs['s'], cs['e'] = base['s'], base['e']
            cs['m'] = rng.randint(1, 12)
            r = surf_call(el, cs)
            pairs.append((surf_line(cs), surf_ans(r)))
            nst += 1
            if isinstance(r, str):
                break
            msg = surf_oracle(cs, r)
            if msg:
                sbad += 1
                if sbad <= 2:
                    chk.violation('impl-violation', 'energy oracle on a history of SurfFlux calls on one Element (step %d)' % step,
                                  case=case_json(cs), observed=msg, expected='exact energy balance at every call')
            cur = list(el.layerTemp)
    chk.correspond('Element.SurfFlux(history on one object)~surfFlux', 'C11', pairs,
                   rule='3-6 successive SurfFlux calls on the SAME Element (month, timestep, boundary kind, radiation '
                        'and reference air vary; layer temperatures carried by the object) vs the stateless Lean model '
                        'on the current state', classify=cls)
    chk.direct('energy-oracle(SurfFlux history on one object)', nst, nst,
               'SurfFluxEnergy statements at every call of every history', mismatches=sbad)
    chk.assumptions.append('Element.waterStorage is 0 for every element uwg creates (set in __init__, assigned nowhere '
                           'else): the evaporation branch of SurfFlux is dead and the model follows the else branch; '
                           'an AST scan of the tree under test checks this on every run, and the elements built by the harness are checked to start at 0')



def run(chk):
    chk.proof(MODULE, THEOREMS, extra_modules=[SURF_MODULE])
    if chk.tier == 'thorough':
        chk.leanchecker([MODULE, SURF_MODULE])
    pkg = fracexec.load()
    n = 300 if chk.tier == 'quick' else 3000
    cases = [gen_case(chk.rng, n=nn) for nn in range(2, 41) for _ in (0, 1)]  # every layer count 2..40
    cases += [gen_case(chk.rng) for _ in range(n)]
    cases += [gen_case(chk.rng, n=1)]                      # IndexError branch
    results = [impl_conduction(pkg, cs) for cs in cases]
    pairs = [(line_of(cs), r if isinstance(r, str) else 'ok ' + frac_list(r))
             for cs, r in zip(cases, results)]
    mism = chk.correspond(
        'Element.Conduction~conduction', 'C11', pairs,
        rule='fractionised Element.Conduction vs Lean `conduction` on layerings with 2..40 layers '
             '(every count at least twice), both boundary kinds, random/uniform/steady profiles; '
             'exact equality of the rational temperature vector; non-trivial = non-error result',
        classify=lambda line, impl: line.split(' bc=')[1].split(' ')[0])
    # the property's own oracle on the implementation (always evaluated: cheap, and it is what
    # turns a broken correspondence into a concrete failing input)
    bad = 0
    for cs, r in zip(cases, results):
        if isinstance(r, str):
            continue
        msg = oracle(cs, r)
        if msg:
            bad += 1
            if bad <= 3:
                chk.violation('impl-violation', 'energy oracle on Element.Conduction',
                              case=case_json(cs), observed=msg,
                              expected='exact energy balance / fixed point')
    chk.direct('energy-oracle(Element.Conduction)', len(cases), len(cases) - 1,
               'C11 statement evaluated on the exact result of the real Conduction for every '
               'generated case', mismatches=bad,
               branches={k: sum(1 for c in cases if c['kind'] == k)
                         for k in ('random', 'uniform', 'steady')})
    # sequences of steps on ONE Element object (timestep, fluxes and boundary kind vary from step to
    # step, as SurfFlux drives it): every step must equal the model on the current temperatures and
    # the energy oracle must hold step by step (state carried inside the object would show here)
    nseq = 25 if chk.tier == 'quick' else 250
    seq_pairs, seq_bad, nst = [], 0, 0
    Element, Material = pkg.element.Element, pkg.material.Material
    for _ in range(nseq):
        base = gen_case(chk.rng, kind='random')
        mats = [Material(k, c, 'm') for k, c in zip(base['k'], base['c'])]
        el = Element(F(1, 10), F(9, 10), list(base['d']), mats, F(0), F(293), 1, 'e')
        el.layerTemp = list(base['t'])
        for step in range(chk.rng.randint(2, 5)):
            cs = dict(base)
            cs['t'] = list(el.layerTemp)
            cs['dt'] = F(chk.rng.choice([1, 60, 300, 600, 900, 3600]))
            cs['bc'] = chk.rng.choice(['flux', 'deep'])
            cs['flx1'] = rq(chk.rng, -500, 900, 10)
            cs['v2'] = rq(chk.rng, -300, 300, 10) if cs['bc'] == 'flux' else rq(chk.rng, 270, 300, 10)
            if step == 2:   # materials may change between steps too
                j = chk.rng.randrange(len(cs['d']))
                cs['k'] = list(cs['k']); cs['k'][j] = cs['k'][j] * 2
                el.layerThermalCond = list(cs['k'])
                base = cs
            bc = 1 if cs['bc'] == 'flux' else 2
            xs = el.Conduction(cs['dt'], cs['flx1'], bc, cs['v2'] if bc == 2 else F(0),
                               cs['v2'] if bc == 1 else F(0))
            el.layerTemp = xs
            nst += 1
            seq_pairs.append((line_of(cs), 'ok ' + frac_list(xs)))
            msg = oracle(cs, xs)
            if msg:
                seq_bad += 1
                if seq_bad <= 2:
                    chk.violation('impl-violation', 'energy oracle on a sequence of steps on one Element (step %d)' % step,
                                  case=case_json(cs), observed=msg, expected='exact energy balance at every step')
    chk.correspond('Element.Conduction(sequence on one object)~conduction', 'C11', seq_pairs,
                   rule='2-5 successive Conduction calls on the SAME Element object with varying timestep, fluxes, '
                        'boundary kind (and once a changed conductivity), temperatures fed back as SurfFlux does; each '
                        'step compared with the stateless Lean model and with the energy oracle',
                   classify=lambda line, impl: line.split(' bc=')[1].split(' ')[0])
    chk.direct('energy-oracle(sequence on one object)', nst, nst, 'C11 statement at every step of every sequence',
               mismatches=seq_bad)
    run_surfflux(chk, pkg)
    chk.assumptions.append('Element.Conduction is exercised through fracexec (exact rationals); '
                           'double rounding is outside the theorem')
