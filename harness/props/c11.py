"""C11 - one-dimensional conduction conserves energy exactly."""
import json
from fractions import Fraction as F

import fracexec
from fracexec import frac_str, frac_list

MODULE = 'UwgVerif.Props.C11'
THEOREMS = ['Uwg.C11.conduction_solves', 'Uwg.C11.energy_flux_bc', 'Uwg.C11.energy_deep_bc',
            'Uwg.C11.steady_fixed_flux', 'Uwg.C11.steady_fixed_deep', 'Uwg.C11.uniform_fixed',
            'Uwg.C11.energy_sequence', 'Uwg.solve_sound', 'Uwg.pivots_of_mrows',
            'Uwg.pivots_of_sdd', 'Uwg.sat_unique_solve']


def rq(rng, lo, hi, den=None):
    den = den or rng.choice([1, 2, 4, 5, 10, 20, 100, 1000])
    return F(rng.randint(int(lo * den), int(hi * den)), den)


def gen_case(rng, n=None, kind=None):
    n = n if n is not None else rng.choice([2, 2, 3, 3, 4, 5, 6, 8, 10, 13, 20, 30, 40])
    kind = kind or rng.choice(['random', 'random', 'random', 'uniform', 'steady'])
    d = [rq(rng, 0.005, 1.0, 1000) or F(1, 100) for _ in range(n)]
    k = [rq(rng, 0.03, 3.0, 100) or F(1) for _ in range(n)]
    c = [rq(rng, 1e4, 3e6, 1) or F(10 ** 6) for _ in range(n)]
    dt = F(rng.choice([1, 30, 60, 300, 600, 900, 3600]))
    bc = rng.choice(['flux', 'deep'])
    flx1 = rq(rng, -500, 900, 10)
    if kind == 'uniform':
        T = rq(rng, 250, 320, 10)
        t = [T] * n
        flx1 = F(0)
        v2 = F(0) if bc == 'flux' else T
    elif kind == 'steady':
        q = rq(rng, -50, 50, 1)
        t = [rq(rng, 250, 320, 10)]
        for j in range(1, n):
            g = 2 / (d[j - 1] / k[j - 1] + d[j] / k[j])
            t.append(t[-1] - q / g)
        flx1 = q
        v2 = -q if bc == 'flux' else t[-1]
    else:
        t = [rq(rng, 250, 330, 10) for _ in range(n)]
        v2 = rq(rng, -300, 300, 10) if bc == 'flux' else rq(rng, 270, 300, 10)
    return dict(dt=dt, flx1=flx1, bc=bc, v2=v2, d=d, k=k, c=c, t=t, kind=kind)


def line_of(cs):
    return 'cond dt=%s flx1=%s bc=%s v2=%s d=%s k=%s c=%s t=%s' % (
        frac_str(cs['dt']), frac_str(cs['flx1']), cs['bc'], frac_str(cs['v2']),
        frac_list(cs['d']), frac_list(cs['k']), frac_list(cs['c']), frac_list(cs['t']))


def impl_conduction(pkg, cs):
    """Run the REAL Element.Conduction over exact rationals."""
    Element = pkg.element.Element
    Material = pkg.material.Material
    mats = [Material(k, c, 'm') for k, c in zip(cs['k'], cs['c'])]
    e = Element(F(1, 10), F(9, 10), list(cs['d']), mats, F(0), F(293), 1, 'e')
    e.layerTemp = list(cs['t'])
    bc = 1 if cs['bc'] == 'flux' else 2
    temp2 = cs['v2'] if bc == 2 else F(0)
    flx2 = cs['v2'] if bc == 1 else F(0)
    try:
        return e.Conduction(cs['dt'], cs['flx1'], bc, temp2, flx2)
    except IndexError:
        return 'err index'
    except ZeroDivisionError:
        return 'err zerodiv'


def oracle(cs, xs):
    """The property itself, evaluated on an implementation result. Returns None or a message."""
    d, k, c, t = cs['d'], cs['k'], cs['c'], cs['t']
    n = len(d)
    if cs['bc'] == 'flux':
        lhs = sum(c[j] * d[j] * (xs[j] - t[j]) for j in range(n))
        rhs = cs['dt'] * (cs['flx1'] + cs['v2'])
        if lhs != rhs:
            return 'stored-energy change %s != dt*(flx1+flx2) %s' % (float(lhs), float(rhs))
    else:
        if xs[-1] != cs['v2']:
            return 'last layer %s != deep temperature %s' % (xs[-1], cs['v2'])
        g = 2 / (d[n - 2] / k[n - 2] + d[n - 1] / k[n - 1])
        deep = g * (F(1, 2) * (xs[n - 2] - xs[n - 1]) + F(1, 2) * (t[n - 2] - t[n - 1]))
        lhs = sum(c[j] * d[j] * (xs[j] - t[j]) for j in range(n - 1))
        rhs = cs['dt'] * (cs['flx1'] - deep)
        if lhs != rhs:
            return 'stored-energy change (all but deep layer) %s != dt*(flx1 - deep flux) %s' % (
                float(lhs), float(rhs))
    if cs['kind'] in ('uniform', 'steady') and list(xs) != list(t):
        return '%s profile is not a fixed point' % cs['kind']
    return None


def case_json(cs):
    return {k: (str(v) if isinstance(v, F) else [str(x) for x in v] if isinstance(v, list) else v)
            for k, v in cs.items()}


def run(chk):
    chk.proof(MODULE, THEOREMS)
    if chk.tier == 'thorough':
        chk.leanchecker([MODULE])
    pkg = fracexec.load()
    n = 300 if chk.tier == 'quick' else 3000
    cases = [gen_case(chk.rng, n=nn) for nn in range(2, 41) for _ in (0, 1)]  # every layer count 2..40
    cases += [gen_case(chk.rng) for _ in range(n)]
    cases += [gen_case(chk.rng, n=1)]                      # IndexError branch
    results = [impl_conduction(pkg, cs) for cs in cases]
    pairs = [(line_of(cs), r if isinstance(r, str) else 'ok ' + frac_list(r))
             for cs, r in zip(cases, results)]
    mism = chk.correspond(
        'Element.Conduction~conduction', 'C11', pairs,
        rule='fractionised Element.Conduction vs Lean `conduction` on layerings with 2..40 layers '
             '(every count at least twice), both boundary kinds, random/uniform/steady profiles; '
             'exact equality of the rational temperature vector; non-trivial = non-error result',
        classify=lambda line, impl: line.split(' bc=')[1].split(' ')[0])
    # the property's own oracle on the implementation (always evaluated: cheap, and it is what
    # turns a broken correspondence into a concrete failing input)
    bad = 0
    for cs, r in zip(cases, results):
        if isinstance(r, str):
            continue
        msg = oracle(cs, r)
        if msg:
            bad += 1
            if bad <= 3:
                chk.violation('impl-violation', 'energy oracle on Element.Conduction',
                              case=case_json(cs), observed=msg,
                              expected='exact energy balance / fixed point')
    chk.direct('energy-oracle(Element.Conduction)', len(cases), len(cases) - 1,
               'C11 statement evaluated on the exact result of the real Conduction for every '
               'generated case', mismatches=bad,
               branches={k: sum(1 for c in cases if c['kind'] == k)
                         for k in ('random', 'uniform', 'steady')})
    # sequences of steps on ONE Element object (timestep, fluxes and boundary kind vary from step to
    # step, as SurfFlux drives it): every step must equal the model on the current temperatures and
    # the energy oracle must hold step by step (state carried inside the object would show here)
    nseq = 25 if chk.tier == 'quick' else 250
    seq_pairs, seq_bad, nst = [], 0, 0
    Element, Material = pkg.element.Element, pkg.material.Material
    for _ in range(nseq):
        base = gen_case(chk.rng, kind='random')
        mats = [Material(k, c, 'm') for k, c in zip(base['k'], base['c'])]
        el = Element(F(1, 10), F(9, 10), list(base['d']), mats, F(0), F(293), 1, 'e')
        el.layerTemp = list(base['t'])
        for step in range(chk.rng.randint(2, 5)):
            cs = dict(base)
            cs['t'] = list(el.layerTemp)
            cs['dt'] = F(chk.rng.choice([1, 60, 300, 600, 900, 3600]))
            cs['bc'] = chk.rng.choice(['flux', 'deep'])
            cs['flx1'] = rq(chk.rng, -500, 900, 10)
            cs['v2'] = rq(chk.rng, -300, 300, 10) if cs['bc'] == 'flux' else rq(chk.rng, 270, 300, 10)
            if step == 2:   # materials may change between steps too
                j = chk.rng.randrange(len(cs['d']))
                cs['k'] = list(cs['k']); cs['k'][j] = cs['k'][j] * 2
                el.layerThermalCond = list(cs['k'])
                base = cs
            bc = 1 if cs['bc'] == 'flux' else 2
            xs = el.Conduction(cs['dt'], cs['flx1'], bc, cs['v2'] if bc == 2 else F(0),
                               cs['v2'] if bc == 1 else F(0))
            el.layerTemp = xs
            nst += 1
            seq_pairs.append((line_of(cs), 'ok ' + frac_list(xs)))
            msg = oracle(cs, xs)
            if msg:
                seq_bad += 1
                if seq_bad <= 2:
                    chk.violation('impl-violation', 'energy oracle on a sequence of steps on one Element (step %d)' % step,
                                  case=case_json(cs), observed=msg, expected='exact energy balance at every step')
    chk.correspond('Element.Conduction(sequence on one object)~conduction', 'C11', seq_pairs,
                   rule='2-5 successive Conduction calls on the SAME Element object with varying timestep, fluxes, '
                        'boundary kind (and once a changed conductivity), temperatures fed back as SurfFlux does; each '
                        'step compared with the stateless Lean model and with the energy oracle',
                   classify=lambda line, impl: line.split(' bc=')[1].split(' ')[0])
    chk.direct('energy-oracle(sequence on one object)', nst, nst, 'C11 statement at every step of every sequence',
               mismatches=seq_bad)
    chk.assumptions.append('Element.Conduction is exercised through fracexec (exact rationals); '
                           'double rounding is outside the theorem')
