"""C11 - one-dimensional conduction conserves energy exactly.

Additional tie (composition B, lean/UwgVerif/Model/SurfFlux.lean + Props/SurfFluxEnergy.lean): the whole
Element.SurfFlux = season partition (C18) + conduction step (C11), fractionised real routine vs `surfFlux`,
with the energy statement of the composition as oracle on the real results."""
import json
from fractions import Fraction as F
from types import SimpleNamespace as NS

import fracexec
from fracexec import frac_str, frac_list

MODULE = 'UwgVerif.Props.C11'
THEOREMS = ['Uwg.C11.conduction_solves', 'Uwg.C11.energy_flux_bc', 'Uwg.C11.energy_deep_bc',
            'Uwg.C11.steady_fixed_flux', 'Uwg.C11.steady_fixed_deep', 'Uwg.C11.uniform_fixed',
            'Uwg.C11.energy_sequence', 'Uwg.solve_sound', 'Uwg.pivots_of_mrows',
            'Uwg.pivots_of_sdd', 'Uwg.sat_unique_solve',
            # composition B: Element.SurfFlux = season partition + conduction step
            'Uwg.SurfFluxEnergy.surfflux_energy_flux_bc', 'Uwg.SurfFluxEnergy.surfflux_energy_deep_bc',
            'Uwg.SurfFluxEnergy.surfflux_offseason_bare', 'Uwg.SurfFluxEnergy.surfflux_isothermal',
            'Uwg.SurfFluxEnergy.surfflux_returns', 'Uwg.SurfFluxEnergy.surfFlux_ok_inv',
            'Uwg.SurfFluxEnergy.partition_flux']
SURF_MODULE = 'UwgVerif.Props.SurfFluxEnergy'


def rq(rng, lo, hi, den=None):
    den = den or rng.choice([1, 2, 4, 5, 10, 20, 100, 1000])
    return F(rng.randint(int(lo * den), int(hi * den)), den)


def gen_case(rng, n=None, kind=None):
    n = n if n is not None else rng.choice([2, 2, 3, 3, 4, 5, 6, 8, 10, 13, 20, 30, 40])
    kind = kind or rng.choice(['random', 'random', 'random', 'uniform', 'steady', 'uniform-inner',
                               'shared-material'])
    d = [rq(rng, 0.005, 1.0, 1000) or F(1, 100) for _ in range(n)]
    k = [rq(rng, 0.03, 3.0, 100) or F(1) for _ in range(n)]
    c = [rq(rng, 1e4, 3e6, 1) or F(10 ** 6) for _ in range(n)]
    dt = F(rng.choice([1, 30, 60, 300, 600, 900, 3600]))
    bc = rng.choice(['flux', 'deep'])
    flx1 = rq(rng, -500, 900, 10)
    if kind == 'shared-material':
        # one Material OBJECT in every layer (equal properties), layers of different thickness
        k = [k[0]] * n
        c = [c[0]] * n
        t = [rq(rng, 250, 330, 10) for _ in range(n)]
        v2 = rq(rng, -300, 300, 10) if bc == 'flux' else rq(rng, 270, 300, 10)
    elif kind == 'uniform-inner':
        # isothermal element, no flux at the outer face, but an ACTIVE inner boundary
        T = rq(rng, 250, 320, 10)
        t = [T] * n
        flx1 = F(0)
        v2 = rq(rng, 5, 300, 10) * rng.choice([1, -1]) if bc == 'flux' else T + rq(rng, 1, 15, 10) * rng.choice([1, -1])
    elif kind == 'uniform':
        T = rq(rng, 250, 320, 10)
        t = [T] * n
        flx1 = F(0)
        v2 = F(0) if bc == 'flux' else T
    elif kind == 'steady':
        q = rq(rng, -50, 50, 1)
        t = [rq(rng, 250, 320, 10)]
        for j in range(1, n):
            g = 2 / (d[j - 1] / k[j - 1] + d[j] / k[j])
            t.append(t[-1] - q / g)
        flx1 = q
        v2 = -q if bc == 'flux' else t[-1]
    else:
        t = [rq(rng, 250, 330, 10) for _ in range(n)]
        v2 = rq(rng, -300, 300, 10) if bc == 'flux' else rq(rng, 270, 300, 10)
    return dict(dt=dt, flx1=flx1, bc=bc, v2=v2, d=d, k=k, c=c, t=t, kind=kind)


def line_of(cs):
    return 'cond dt=%s flx1=%s bc=%s v2=%s d=%s k=%s c=%s t=%s' % (
        frac_str(cs['dt']), frac_str(cs['flx1']), cs['bc'], frac_str(cs['v2']),
        frac_list(cs['d']), frac_list(cs['k']), frac_list(cs['c']), frac_list(cs['t']))


def impl_conduction(pkg, cs):
    """Run the REAL Element.Conduction over exact rationals."""
    Element = pkg.element.Element
    Material = pkg.material.Material
    if cs.get('kind') == 'shared-material':
        one = Material(cs['k'][0], cs['c'][0], 'm')
        mats = [one] * len(cs['k'])
    else:
        mats = [Material(k, c, 'm') for k, c in zip(cs['k'], cs['c'])]
    e = Element(F(1, 10), F(9, 10), list(cs['d']), mats, F(0), F(293), 1, 'e')
    e.layerTemp = list(cs['t'])
    bc = 1 if cs['bc'] == 'flux' else 2
    temp2 = cs['v2'] if bc == 2 else F(0)
    flx2 = cs['v2'] if bc == 1 else F(0)
    try:
        return e.Conduction(cs['dt'], cs['flx1'], bc, temp2, flx2)
    except IndexError:
        return 'err index'
    except ZeroDivisionError:
        return 'err zerodiv'


def oracle(cs, xs):
    """The property itself, evaluated on an implementation result. Returns None or a message."""
    d, k, c, t = cs['d'], cs['k'], cs['c'], cs['t']
    n = len(d)
    if cs['bc'] == 'flux':
        lhs = sum(c[j] * d[j] * (xs[j] - t[j]) for j in range(n))
        rhs = cs['dt'] * (cs['flx1'] + cs['v2'])
        if lhs != rhs:
            return 'stored-energy change %s != dt*(flx1+flx2) %s' % (float(lhs), float(rhs))
    else:
        if xs[-1] != cs['v2']:
            return 'last layer %s != deep temperature %s' % (xs[-1], cs['v2'])
        g = 2 / (d[n - 2] / k[n - 2] + d[n - 1] / k[n - 1])
        deep = g * (F(1, 2) * (xs[n - 2] - xs[n - 1]) + F(1, 2) * (t[n - 2] - t[n - 1]))
        lhs = sum(c[j] * d[j] * (xs[j] - t[j]) for j in range(n - 1))
        rhs = cs['dt'] * (cs['flx1'] - deep)
        if lhs != rhs:
            return 'stored-energy change (all but deep layer) %s != dt*(flx1 - deep flux) %s' % (
                float(lhs), float(rhs))
    if cs['kind'] in ('uniform', 'steady') and list(xs) != list(t):
        return '%s profile is not a fixed point' % cs['kind']
    return None


def case_json(cs):
    return {k: (str(v) if isinstance(v, F) else [str(x) for x in v] if isinstance(v, list) else v)
            for k, v in cs.items()}


# ----------------------------------------------------------------------------- composition B: Element.SurfFlux
SURF_V = ('alb', 'vc', 'g', 'tr', 'solRec', 'infra', 'pres', 'deepT', 'va', 'gf', 'tf', 'wd', 'lv', 'dt', 'hum',
          'tref', 'wind', 'bc', 'intF')
SEASONS = ('before', 'in', 'after', 'wrap')


def gen_surf(rng, orient=None, bck=None, season=None, kind=None, n=None):
    """One call of Element.SurfFlux: orientation road / roof (horizontal without grass/tree attributes) / wall,
    boundary kind, season case, layering."""
    orient = orient or rng.choice(['road', 'roof', 'wall'])
    bck = bck or rng.choice(['flux', 'deep'])
    season = season or rng.choice(('before', 'in', 'in', 'in', 'after', 'wrap'))
    kind = kind or rng.choice(['random'] * 5 + ['isothermal'])
    n = n if n is not None else rng.choice([2, 2, 3, 4, 5, 7, 10, 12])
    cs = dict(orient=orient, bck=bck, season=season, kind=kind)
    cs['d'] = [rq(rng, 0.005, 0.5, 1000) or F(1, 100) for _ in range(n)]
    cs['k'] = [rq(rng, 0.03, 3.0, 100) or F(1) for _ in range(n)]
    cs['c'] = [rq(rng, 1e4, 3e6, 1) or F(10 ** 6) for _ in range(n)]
    cs['t'] = [rq(rng, 250, 330, 10) for _ in range(n)]
    if season == 'before':
        s = rng.randint(2, 12); e = rng.randint(s, 12); m = rng.randint(1, s - 1)
    elif season == 'in':
        s = rng.randint(1, 12); e = rng.randint(s, 12); m = rng.randint(s, e)
    elif season == 'after':
        e = rng.randint(1, 11); s = rng.randint(1, e); m = rng.randint(e + 1, 12)
    else:
        e = rng.randint(1, 11); s = rng.randint(e + 1, 12); m = rng.randint(1, 12)
    cs.update(m=m, s=s, e=e)
    cs.update(alb=rq(rng, 0.05, 0.6, 100), vc=rq(rng, 0, 1, 100), g=rq(rng, 0, 0.5, 100), tr=rq(rng, 0, 0.5, 100),
              solRec=rng.choice([F(0), rq(rng, 0, 900, 1), rq(rng, 0, 900, 10)]), infra=rq(rng, -120, 60, 10),
              pres=rq(rng, 80000, 103000, 1), deepT=rq(rng, 270, 300, 10), va=rq(rng, 0.1, 0.4, 100),
              gf=rq(rng, 0.2, 0.7, 100), tf=rq(rng, 0.3, 0.8, 100), wd=F(1000), lv=F(2500800),
              dt=F(rng.choice([1, 30, 60, 300, 600, 900, 3600])), hum=rq(rng, 0, 0.03, 10000),
              tref=rq(rng, 250, 320, 10), wind=rq(rng, 0, 9, 10),
              intF=rng.choice([F(0), rq(rng, -80, 80, 10)]))
    cs['bc'] = F(1) if bck == 'flux' else F(2)
    if kind == 'isothermal':
        T = cs['tref']
        cs['t'] = [T] * n
        cs['solRec'], cs['infra'] = F(0), F(0)
        if bck == 'flux':
            cs['intF'] = F(0)
        else:
            cs['deepT'] = T
    return cs


def surf_edge_cases(rng):
    """Error branches and boundary-kind tolerance of the real routine."""
    out = []
    for n in (0, 1):
        out.append(gen_surf(rng, n=n, kind='random'))
    c = gen_surf(rng, kind='random'); c['tref'] = F(0); out.append(c)                       # ZeroDivisionError
    c = gen_surf(rng, kind='random'); c['hum'] = F(-1000000, 1607858); out.append(c)        # ZeroDivisionError
    c = gen_surf(rng, kind='random', n=1); c['tref'] = F(0); out.append(c)                  # zerodiv before index
    for bc in (F(3), F(0), F(3, 2), F(1) + F(1, 10 ** 9), F(2) - F(1, 10 ** 9)):           # refused kinds
        c = gen_surf(rng, kind='random'); c['bc'] = bc; c['bck'] = 'other'; out.append(c)
    for bc, b in ((F(1) + F(1, 10 ** 11), 'flux'), (F(1) - F(1, 10 ** 11), 'flux'), (F(2) + F(1, 10 ** 11), 'deep')):
        c = gen_surf(rng, kind='random', bck=b); c['bc'] = bc; out.append(c)                # within is_near_zero
    c = gen_surf(rng, kind='random', n=1); c['bc'] = F(3); out.append(c)                    # index before kind
    return out


def make_surf_element(pkg, cs):
    Element, Material = pkg.element.Element, pkg.material.Material
    mats = [Material(k, c, 'm') for k, c in zip(cs['k'], cs['c'])]
    el = Element(cs['alb'], F(9, 10), list(cs['d']), mats, cs['vc'], F(293), 0 if cs['orient'] == 'wall' else 1, 'x')
    if cs['orient'] == 'road':
        el.grasscoverage, el.treecoverage = cs['g'], cs['tr']
    if el.waterStorage != 0:
        raise LiveEvaporation('Element.__init__ sets waterStorage = %r' % (el.waterStorage,))
    return el


class LiveEvaporation(Exception):
    pass


def water_storage_scan(repo):
    """The model follows the else branch of the waterStorage test: sound while nothing in uwg assigns the
    attribute except Element.__init__ (the constant 0) and the (then dead) branch of SurfFlux itself."""
    import ast
    import os
    bad = []
    for fn in sorted(os.listdir(os.path.join(repo, 'uwg'))):
        if not fn.endswith('.py'):
            continue
        tree = ast.parse(open(os.path.join(repo, 'uwg', fn), 'rb').read().decode('utf-8', 'ignore'))
        for fdef in [x for x in ast.walk(tree) if isinstance(x, (ast.FunctionDef, ast.Module))]:
            for node in (ast.walk(fdef) if isinstance(fdef, ast.FunctionDef) else []):
                tg = []
                if isinstance(node, ast.Assign):
                    tg = node.targets
                elif isinstance(node, (ast.AugAssign, ast.AnnAssign)):
                    tg = [node.target]
                for t in tg:
                    if isinstance(t, ast.Attribute) and t.attr == 'waterStorage':
                        ok = fn == 'element.py' and (
                            fdef.name == 'SurfFlux' or
                            (fdef.name == '__init__' and isinstance(node, ast.Assign) and
                             isinstance(node.value, ast.Constant) and node.value.value == 0))
                        if not ok:
                            bad.append('%s:%d %s assigns waterStorage' % (fn, node.lineno, fdef.name))
        if 'setattr' in open(os.path.join(repo, 'uwg', fn), 'rb').read().decode('utf-8', 'ignore') and \
                'waterStorage' in open(os.path.join(repo, 'uwg', fn), 'rb').read().decode('utf-8', 'ignore') and \
                fn != 'element.py':
            bad.append('%s mentions waterStorage and setattr' % fn)
    return bad


def surf_call(el, cs, set_temps=True):
    """Run the REAL (fractionised) Element.SurfFlux on the element's current state."""
    if set_temps:
        el.layerTemp = list(cs['t'])
    el.solRec, el.infra = cs['solRec'], cs['infra']
    forc = NS(pres=cs['pres'], prec=F(0), deepTemp=cs['deepT'])
    par = NS(vegStart=cs['s'], vegEnd=cs['e'], vegAlbedo=cs['va'], grassFLat=cs['gf'], treeFLat=cs['tf'],
             colburn=F(1), waterDens=cs['wd'], cp=F(1004), lv=cs['lv'], wgmax=F(1, 200))
    sim = NS(month=cs['m'], dt=cs['dt'])
    try:
        el.SurfFlux(forc, par, sim, cs['hum'], cs['tref'], cs['wind'], cs['bc'], cs['intF'])
    except ZeroDivisionError:
        return 'err zerodiv'
    except IndexError:
        return 'err index'
    except (AssertionError, AttributeError, TypeError, ValueError):
        raise
    except Exception as ex:  # noqa - Conduction's own "Error during conduction calculation"
        return 'err fatal' if 'conduction' in str(ex).lower() else 'err ' + type(ex).__name__
    return dict(aero=el.aeroCond, solAbs=el.solAbs, lat=el.lat, sens=el.sens, flux=el.flux, T_ext=el.T_ext,
                T_int=el.T_int, x=list(el.layerTemp))


def surf_line(cs):
    return 'surfflux hor=%d road=%d m=%d s=%d e=%d v=%s d=%s k=%s c=%s t=%s' % (
        0 if cs['orient'] == 'wall' else 1, 1 if cs['orient'] == 'road' else 0, cs['m'], cs['s'], cs['e'],
        frac_list([cs[k] for k in SURF_V]), frac_list(cs['d']), frac_list(cs['k']), frac_list(cs['c']),
        frac_list(cs['t']))


def surf_ans(r):
    if isinstance(r, str):
        return r
    return 'ok %s %s' % (frac_list([r['aero'], r['solAbs'], r['lat'], r['sens'], r['flux'], r['T_ext'], r['T_int']]),
                         frac_list(r['x']))


def surf_oracle(cs, r):
    """The statements of Props/SurfFluxEnergy.lean evaluated on a result of the real SurfFlux."""
    d, k, c, t, x = cs['d'], cs['k'], cs['c'], cs['t'], r['x']
    n = len(d)
    net = r['solAbs'] + cs['infra'] - r['lat'] - r['sens']
    if r['flux'] != net:
        return 'flux %s != solAbs + infra - lat - sens %s' % (float(r['flux']), float(net))
    if r['T_ext'] != x[0] or r['T_int'] != x[-1]:
        return 'T_ext / T_int are not the first / last new layer temperature'
    if cs['orient'] == 'wall' and r['lat'] != 0:
        return 'vertical element with latent heat %s' % r['lat']
    if cs['bc'] == 1 or cs['bck'] == 'flux':
        lhs = sum(c[j] * d[j] * (x[j] - t[j]) for j in range(n))
        rhs = cs['dt'] * (net + cs['intF'])
        if lhs != rhs:
            return 'stored-energy change %s != dt*(solAbs + infra - lat - sens + intFlux) %s' % (float(lhs), float(rhs))
    else:
        if x[-1] != cs['deepT']:
            return 'T_int %s != deep temperature %s' % (x[-1], cs['deepT'])
        g = 2 / (d[n - 2] / k[n - 2] + d[n - 1] / k[n - 1])
        deep = g * (F(1, 2) * (x[n - 2] - x[n - 1]) + F(1, 2) * (t[n - 2] - t[n - 1]))
        lhs = sum(c[j] * d[j] * (x[j] - t[j]) for j in range(n - 1))
        rhs = cs['dt'] * (net - deep)
        if lhs != rhs:
            return 'stored-energy change above the deep layer %s != dt*(net flux - deep flux) %s' % (float(lhs), float(rhs))
    if cs['kind'] == 'isothermal' and (list(x) != list(t) or r['flux'] != 0):
        return 'isothermal element without radiation changed (flux %s)' % r['flux']
    return None


def surf_twin(rng, cs):
    """Same call with other vegetation data: must give the same result off season / for a wall."""
    tw = dict(cs)
    tw.update(vc=rq(rng, 0, 1, 100), g=rq(rng, 0, 0.5, 100), tr=rq(rng, 0, 0.5, 100), va=rq(rng, 0.1, 0.4, 100),
              gf=rq(rng, 0.2, 0.7, 100), tf=rq(rng, 0.3, 0.8, 100))
    return tw


def run_surfflux(chk, pkg):
    try:
        run_surfflux_(chk, pkg)
    except LiveEvaporation as ex:
        chk.corr_problems.append({'tie': 'Element.SurfFlux~surfFlux', 'case': None, 'impl': str(ex),
                                  'model': 'surfFlux follows the else branch (waterStorage = 0)'})


def run_surfflux_(chk, pkg):
    rng = chk.rng
    import core
    wbad = water_storage_scan(core.REPO)
    if wbad:
        chk.corr_problems.append({'tie': 'waterStorage-scan', 'case': '; '.join(wbad[:3]),
                                  'impl': 'waterStorage can become non-zero: the evaporation branch of SurfFlux is live',
                                  'model': 'surfFlux follows the else branch (eg = 0)'})
    chk.direct('waterStorage-scan(AST of uwg/*.py)', 1, 1,
               'no assignment to an attribute waterStorage outside Element.__init__ (= 0) and SurfFlux itself',
               mismatches=len(wbad))
    big = chk.tier == 'thorough'
    cases = [gen_surf(rng, orient=o, bck=b, season=s) for o in ('road', 'roof', 'wall') for b in ('flux', 'deep')
             for s in SEASONS for _ in range(3 if not big else 12)]
    cases += [gen_surf(rng, orient=o, bck=b, kind='isothermal') for o in ('road', 'roof', 'wall')
              for b in ('flux', 'deep') for _ in range(3)]
    cases += [gen_surf(rng) for _ in range(120 if not big else 2000)]
    cases += surf_edge_cases(rng)
    results = [surf_call(make_surf_element(pkg, cs), cs) for cs in cases]

    def cls(line, impl):
        a = dict(w.split('=', 1) for w in line.split()[1:])
        m, s, e = int(a['m']), int(a['s']), int(a['e'])
        o = 'wall' if a['hor'] == '0' else 'road' if a['road'] == '1' else 'roof'
        bc = a['v'].strip('[]').split(';')[17]
        return '%s/%s/%s' % (o, 'bc1' if bc == '1/1' else 'bc2' if bc == '2/1' else 'bc~',
                             'off' if (m < s or m > e) else 'in')
    chk.correspond('Element.SurfFlux~surfFlux', 'C11', [(surf_line(cs), surf_ans(r)) for cs, r in zip(cases, results)],
                   rule='fractionised REAL Element.SurfFlux (horizontal road with grass/tree attributes, horizontal '
                        'roof-like, vertical wall; boundary kinds 1, 2, within / outside the is_near_zero tolerance, '
                        'refused kinds; months before / inside / after the season and empty (wrap-around) seasons; '
                        '2..12 layers, 0 and 1 layer, zero density denominator) vs Lean surfFlux: exact aeroCond, '
                        'solAbs, lat, sens, flux, T_ext, T_int and all new layer temperatures, or the error class',
                   classify=cls)
    bad, nor, br = 0, 0, {}
    for cs, r in zip(cases, results):
        if isinstance(r, str):
            continue
        nor += 1
        key = '%s/%s/%s' % (cs['orient'], cs['bck'], cs['kind'])
        br[key] = br.get(key, 0) + 1
        msg = surf_oracle(cs, r)
        if msg is None and (cs['orient'] == 'wall' or cs['m'] < cs['s'] or cs['m'] > cs['e']):
            tw = surf_twin(rng, cs)
            r2 = surf_call(make_surf_element(pkg, tw), tw)
            if isinstance(r2, str) or any(r2[q] != r[q] for q in ('solAbs', 'lat', 'sens', 'flux', 'x', 'T_ext', 'T_int')):
                msg = 'off season / vertical, yet other vegetation parameters change the result: %s vs %s' % (
                    r2 if isinstance(r2, str) else [float(v) for v in r2['x'][:2]], [float(v) for v in r['x'][:2]])
                cs = dict(cs, twin_vegetation={q: str(tw[q]) for q in ('vc', 'g', 'tr', 'va', 'gf', 'tf')})
        if msg:
            bad += 1
            if bad <= 3:
                chk.violation('impl-violation', 'energy / bare-ground / isothermal oracle on Element.SurfFlux',
                              case=case_json(cs), observed=msg,
                              expected='stored heat changes by dt*(solAbs + infra - lat - sens + intFlux) (kind 1) / '
                                       'deep-layer balance (kind 2); off season independent of vegetation; '
                                       'isothermal unchanged')
    chk.direct('energy-oracle(Element.SurfFlux)', nor, nor,
               'statements of Props/SurfFluxEnergy.lean evaluated on the exact results of the real SurfFlux: '
               'flux = solAbs + infra - lat - sens; stored-heat change = dt*(net flux + intFlux) for kind 1, '
               'deep-layer balance and T_int = deepTemp for kind 2; T_ext/T_int = first/last layer; wall: lat = 0; '
               'off season / wall: a twin with other vegetation data gives identical results; isothermal cases '
               'unchanged', mismatches=bad, branches=br)
    # histories on ONE Element: months cross the season, timestep / boundary / radiation vary, the layer
    # temperatures are carried by the object itself from call to call (as in simulate)
    nseq = 12 if not big else 120
    pairs, sbad, nst = [], 0, 0
    for _ in range(nseq):
        base = gen_surf(rng, kind='random', n=rng.choice([2, 3, 5, 8]))
        el = make_surf_element(pkg, base)
        cur = list(base['t'])
        for step in range(rng.randint(3, 6)):
            cs = gen_surf(rng, orient=base['orient'], kind='random', n=len(base['d']))
            for q in ('d', 'k', 'c', 'alb', 'vc', 'g', 'tr'):
                cs[q] = base[q]
            cs['t'] = cur
            cs['s'], cs['e'] = base['s'], base['e']
            cs['m'] = rng.randint(1, 12)
            r = surf_call(el, cs)
            pairs.append((surf_line(cs), surf_ans(r)))
            nst += 1
            if isinstance(r, str):
                break
            msg = surf_oracle(cs, r)
            if msg:
                sbad += 1
                if sbad <= 2:
                    chk.violation('impl-violation', 'energy oracle on a history of SurfFlux calls on one Element (step %d)' % step,
                                  case=case_json(cs), observed=msg, expected='exact energy balance at every call')
            cur = list(el.layerTemp)
    chk.correspond('Element.SurfFlux(history on one object)~surfFlux', 'C11', pairs,
                   rule='3-6 successive SurfFlux calls on the SAME Element (month, timestep, boundary kind, radiation '
                        'and reference air vary; layer temperatures carried by the object) vs the stateless Lean model '
                        'on the current state', classify=cls)
    chk.direct('energy-oracle(SurfFlux history on one object)', nst, nst,
               'SurfFluxEnergy statements at every call of every history', mismatches=sbad)
    chk.assumptions.append('Element.waterStorage is 0 for every element uwg creates (set in __init__, assigned nowhere '
                           'else): the evaporation branch of SurfFlux is dead and the model follows the else branch; '
                           'an AST scan of the tree under test checks this on every run, and the elements built by the harness are checked to start at 0')


# ----------------------------------------------------------------------------- round 4: circumstances
# The property speaks about the stored heat of THE STEPPED ELEMENT over any sequence of steps. The ties above step one
# private element the way SurfFlux does. The families below vary what is not an input of the property at all:
# who else holds the temperature list, who looks at the element between two steps, the logging level, the interpreter
# mode, the route by which the element was built, which other elements live (or were parsed) in the process.
def _conv(mode):
    return (lambda x: x) if mode == 'exact' else float


def build_element(impl, cs, conv, temps=None):
    Element, Material = impl.element.Element, impl.material.Material
    if cs.get('kind') == 'shared-material':
        one = Material(conv(cs['k'][0]), conv(cs['c'][0]), 'm')
        mats = [one] * len(cs['k'])
    else:
        mats = [Material(conv(k), conv(c), 'm') for k, c in zip(cs['k'], cs['c'])]
    el = Element(conv(F(1, 10)), conv(F(9, 10)), [conv(x) for x in cs['d']], mats, conv(F(0)), conv(F(293)), 1, 'e')
    el.layerTemp = [conv(x) for x in cs['t']] if temps is None else temps
    return el


def call_cond(el, cs, conv, dt=None):
    bc = 1 if cs['bc'] == 'flux' else 2
    return el.Conduction(conv(cs['dt'] if dt is None else dt), conv(cs['flx1']), bc,
                         conv(cs['v2']) if bc == 2 else conv(F(0)), conv(cs['v2']) if bc == 1 else conv(F(0)))


def balance_msg(cs, before, after, tol, dt=None):
    """C11 as the CALLER books it: heat stored in `after` minus heat stored in `before` (the caller's own records of
    the profile) against the heat supplied by the step(s). tol = 0: exact."""
    d, k, c = cs['d'], cs['k'], cs['c']
    n = len(d)
    b = [F(x) for x in before]
    a = [F(x) for x in after]
    dt = cs['dt'] if dt is None else dt
    scale = sum(c[j] * d[j] * abs(b[j]) for j in range(n)) or F(1)
    if cs['bc'] == 'flux':
        lhs = sum(c[j] * d[j] * (a[j] - b[j]) for j in range(n))
        rhs = dt * (cs['flx1'] + cs['v2'])
    else:
        if abs(a[-1] - cs['v2']) > tol:
            return 'deep layer %s is not the deep temperature %s' % (float(a[-1]), float(cs['v2']))
        g = 2 / (d[n - 2] / k[n - 2] + d[n - 1] / k[n - 1])
        deep = g * (F(1, 2) * (a[n - 2] - a[n - 1]) + F(1, 2) * (b[n - 2] - b[n - 1]))
        lhs = sum(c[j] * d[j] * (a[j] - b[j]) for j in range(n - 1))
        rhs = dt * (cs['flx1'] - deep)
    if abs(lhs - rhs) > tol * scale:
        return 'stored heat changed by %.6f J/m2, heat supplied at the two faces x dt = %.6f J/m2' % (float(lhs), float(rhs))
    return None


def vary_step(rng, base):
    cs = dict(base)
    cs['dt'] = F(rng.choice([1, 60, 300, 600, 900, 1800, 3600]))
    cs['bc'] = rng.choice(['flux', 'deep'])
    cs['flx1'] = rq(rng, -500, 900, 10)
    cs['v2'] = rq(rng, -300, 300, 10) if cs['bc'] == 'flux' else rq(rng, 270, 300, 10)
    return cs


OWNERSHIP = ('kept-reference', 'rejected-trial-steps', 'shallow-copy-before-step', 'two-elements-one-initial-list',
             'result-kept-by-caller', 'constructor-lists-shared')


def ownership_case(impl, mode, rng, scen, cs):
    """one ownership scenario; returns a list of messages (empty = fine)"""
    import copy as _copy
    import u3_util as U3
    conv = _conv(mode)
    tol = F(0) if mode == 'exact' else F(1, 10 ** 9)
    msgs = []
    el = build_element(impl, cs, conv)
    p = el.layerTemp
    snap = list(p)
    if scen == 'kept-reference':
        new = call_cond(el, cs, conv)
        if new is p:
            msgs.append('Conduction returned the list object behind layerTemp instead of a new profile')
        if list(p) != snap:
            msgs.append('the list the caller kept as "temperatures before the step" was rewritten by the step: %s -> %s'
                        % ([float(x) for x in snap[:3]], [float(x) for x in p[:3]]))
        el.layerTemp = new
        m = balance_msg(cs, p, el.layerTemp, tol)
        if m:
            msgs.append('caller books E(now) - E(kept list): ' + m)
    elif scen == 'rejected-trial-steps':
        st0 = U3.state(el)
        for dt_try in rng.sample([1, 60, 900, 1800, 3600, 7200], 3):
            r1 = call_cond(el, cs, conv, dt=F(dt_try))
            r2 = call_cond(el, cs, conv, dt=F(dt_try))
            if list(r1) != list(r2):
                msgs.append('the same trial step (dt %d) evaluated twice gives two results: %s vs %s'
                            % (dt_try, [float(x) for x in r1[:3]], [float(x) for x in r2[:3]]))
                break
        w = U3.where(st0, U3.state(el))
        if w:
            msgs.append('Conduction calls whose result was discarded changed the element: ' + w)
        el.layerTemp = call_cond(el, cs, conv)
        m = balance_msg(cs, snap, el.layerTemp, tol)
        if m:
            msgs.append('three rejected trial steps, then one accepted step of %s s: %s' % (cs['dt'], m))
    elif scen == 'shallow-copy-before-step':
        rec = _copy.copy(el)
        cur = cs
        for _ in range(rng.randint(1, 3)):
            el.layerTemp = call_cond(el, cur, conv)
            cur = vary_step(rng, cs)
        if list(rec.layerTemp) != snap:
            msgs.append('a shallow copy of the element taken before the step (a record: no step, no flux) changed its '
                        'temperatures while the live element was stepped: %s -> %s'
                        % ([float(x) for x in snap[:3]], [float(x) for x in rec.layerTemp[:3]]))
        r1 = call_cond(rec, cs, conv)
        r2 = call_cond(build_element(impl, cs, conv), cs, conv)
        if list(r1) != list(r2):
            msgs.append('the record stepped on its own differs from a fresh element with the recorded profile')
    elif scen == 'two-elements-one-initial-list':
        other = dict(cs, k=[x * 2 for x in cs['k']], c=[x / 2 for x in cs['c']])
        b = build_element(impl, other, conv, temps=p)
        cur = cs
        for _ in range(3):
            el.layerTemp = call_cond(el, cur, conv)
            cur = vary_step(rng, cs)
        if list(b.layerTemp) != snap or list(p) != snap:
            dE = sum(other['c'][j] * other['d'][j] * (F(b.layerTemp[j]) - F(snap[j])) for j in range(len(snap)))
            msgs.append('two elements initialised from one profile list: stepping the first changed the second (no step, '
                        'no flux): its stored heat moved by %.3f J/m2' % float(dE))
        r1 = call_cond(b, other, conv)
        r2 = call_cond(build_element(impl, other, conv), other, conv)
        if list(r1) != list(r2):
            msgs.append('the second element stepped afterwards differs from a fresh element with the initial profile')
    elif scen == 'result-kept-by-caller':
        r = call_cond(el, cs, conv)
        r[0] = r[0] + 100                   # the caller scribbles on ITS result (never assigned to the element)
        r2 = call_cond(el, cs, conv)
        fresh = call_cond(build_element(impl, cs, conv), cs, conv)
        if list(r2) != list(fresh) or list(el.layerTemp) != snap:
            msgs.append('a result the caller discarded and overwrote reaches the element: next call gives %s, a fresh '
                        'element %s' % ([float(x) for x in r2[:2]], [float(x) for x in fresh[:2]]))
        el.layerTemp = r2
        keep = list(r2)
        cs2 = vary_step(rng, cs)
        r3 = call_cond(el, cs2, conv)
        if r3 is r2 or list(r2) != keep:
            msgs.append('the profile assigned after step 1 (and still held by the caller) was rewritten by step 2')
        m = balance_msg(dict(cs2, t=keep), r2, r3, tol)
        if m:
            msgs.append('step 2 booked against the caller\'s copy of the result of step 1: ' + m)
    elif scen == 'constructor-lists-shared':
        Element = impl.element.Element
        b = Element(el.albedo, el.emissivity, el.layer_thickness_lst, el.material_lst, conv(F(0)), conv(F(293)), 1, 'b')
        sb = U3.state(b)
        for _ in range(2):
            el.layerTemp = call_cond(el, cs, conv)
        w = U3.where(sb, U3.state(b))
        if w:
            msgs.append('an element built from the same thickness / material lists changed when the other was stepped: ' + w)
    return msgs


SHAPES = ('descending', 'ascending', 'zigzag', 'uniform', 'steady', 'random')


def shaped_sequence(rng, shape, n=None):
    """an element and 2-4 steps; profile warm outside / cold outside / alternating / isothermal / steady / random"""
    n = n or rng.choice([2, 3, 4, 4, 6, 9, 14])
    if shape == 'steady':
        base = gen_case(rng, n=n, kind='steady')
        steps = []
        for _ in range(rng.randint(2, 4)):
            cs = dict(base, dt=F(rng.choice([60, 300, 900, 3600])))
            steps.append(cs)
        return base, steps
    if shape == 'uniform':
        base = gen_case(rng, n=n, kind='uniform')
        return base, [dict(base, dt=F(rng.choice([60, 300, 3600]))) for _ in range(rng.randint(2, 3))]
    base = gen_case(rng, n=n, kind='random')
    t = sorted(base['t'])
    if shape == 'descending':
        t = t[::-1]
    elif shape == 'zigzag':
        t = [t[i // 2] if i % 2 == 0 else t[-1 - i // 2] for i in range(n)]
    elif shape == 'random':
        rng.shuffle(t)
    if len(set(t)) == 1:
        t[0] = t[0] + 5
    base['t'] = t
    return base, [vary_step(rng, base) for _ in range(rng.randint(2, 4))]


def run_sequence(impl, mode, base, steps, look=None):
    conv = _conv(mode)
    el = build_element(impl, base, conv)
    if look:
        look(el)
    out = []
    for cs in steps:
        r = call_cond(el, cs, conv)
        el.layerTemp = r
        out.append(list(r))
        if look:
            look(el)
    return out, el


def lookers():
    import generic as G
    import u3_util as U3

    def under_debug(el):
        with G.debug_logging():
            import logging
            logging.getLogger('uwg').debug('element %r', el)
            logging.getLogger().debug('element %s', el)
    return [('repr', lambda el: repr(el)), ('str', lambda el: str(el)), ('%r-format', lambda el: '%r' % (el,)),
            ('print', lambda el: print(el, file=__import__('io').StringIO())),
            ('every renderer of every reachable object', U3.render),
            ('DEBUG log line with the element as lazy argument', under_debug),
            ('to_dict + json', lambda el: json.dumps(el.to_dict(), default=str)),
            ('shallow + deep copy', lambda el: (__import__('copy').copy(el), __import__('copy').deepcopy(el)))]


def run_circumstances(chk, pkg):
    import core
    import generic as G
    import uwgutil as UU
    import u3_util as U3
    rng = chk.rng
    big = chk.tier == 'thorough'
    plain = UU.uwg_mod()
    impls = (('exact', pkg), ('float', plain))
    dg_frac0, dg_plain0 = U3.class_digest('uwgfrac')[0], U3.class_digest('uwg')[0]

    # ---- [6] who else holds the temperature list
    nbad, ncase, br = 0, 0, {}
    for mode, impl in impls:
        for scen in OWNERSHIP:
            for _ in range(4 if not big else 30):
                cs = gen_case(rng, kind=rng.choice(['random', 'random', 'shared-material']),
                              n=rng.choice([2, 3, 4, 5, 8, 12]))
                ncase += 1
                br['%s/%s' % (mode, scen)] = br.get('%s/%s' % (mode, scen), 0) + 1
                msgs = ownership_case(impl, mode, rng, scen, cs)
                if msgs:
                    nbad += 1
                    if nbad <= 3:
                        chk.violation('impl-violation', 'ownership of the temperature list (%s, %s arithmetic)' % (scen, mode),
                                      case=dict(case_json(cs), scenario=scen, arithmetic=mode), observed=' | '.join(msgs[:3]),
                                      expected='only the stepped element changes, by dt x (heat supplied at its faces), and '
                                               'only when the caller assigns the returned profile')
    # SurfFlux: the profile found in the element is replaced, never rewritten
    import copy as _copy
    for _ in range(12 if not big else 100):
        cs = gen_surf(rng, kind='random', n=rng.choice([2, 3, 5, 8]))
        el = make_surf_element(pkg, cs)
        old = list(cs['t'])
        el.layerTemp = old
        snap = list(old)
        rec = _copy.copy(el)
        r = surf_call(el, cs, set_temps=False)
        ncase += 1
        br['exact/SurfFlux-kept-reference'] = br.get('exact/SurfFlux-kept-reference', 0) + 1
        if isinstance(r, str):
            continue
        msgs = []
        if old != snap or el.layerTemp is old:
            msgs.append('SurfFlux committed the step into the list object it found (a kept reference / a shallow record '
                        'sees the new profile): %s -> %s' % ([float(x) for x in snap[:3]], [float(x) for x in old[:3]]))
        if list(rec.layerTemp) != snap:
            msgs.append('shallow copy taken before SurfFlux changed')
        m = surf_oracle(dict(cs, t=old), r)
        if m:
            msgs.append('booked against the kept list: ' + m)
        if msgs:
            nbad += 1
            if nbad <= 3:
                chk.violation('impl-violation', 'ownership of the temperature list (SurfFlux)', case=case_json(cs),
                              observed=' | '.join(msgs), expected='layerTemp is rebound to a new list')
    chk.direct('ownership-of-the-temperature-list(Conduction, SurfFlux)', ncase, ncase,
               'circumstance [6] - what the caller does with its own data: the REAL Conduction (exact rationals AND plain '
               'floats) on elements whose temperature list is reachable from somewhere else: a reference kept by the '
               'caller to book E(after) - E(before); three rejected trial steps (dt 1..7200 s, each evaluated twice) '
               'before the accepted one; a shallow copy (copy.copy, as simulate() takes its records) before 1-3 steps; two '
               'elements initialised from one profile list; a result the caller discards and overwrites / keeps across the '
               'next step; two elements built from one thickness / material list; SurfFlux with a kept reference and a '
               'shallow record. Oracle: the stored heat of the stepped element changes by dt x supplied heat as the '
               'caller books it, nothing else changes, the same call twice gives the same result, the returned list is '
               'a new object', mismatches=nbad, branches=br)

    # ---- [1][2] somebody looks at the element between two steps
    nbad, ncase, br = 0, 0, {}
    looks = lookers()
    for mode, impl in impls:
        tol = F(0) if mode == 'exact' else F(1, 10 ** 9)
        for shape in SHAPES:
            for li, (lname, look) in enumerate(looks):
                if not big and mode == 'float' and li not in (0, 4, 5):
                    continue
                base, steps = shaped_sequence(rng, shape)
                ref, _ = run_sequence(impl, mode, base, steps)
                got, el = run_sequence(impl, mode, base, steps, look)
                ncase += 1
                br['%s/%s' % (mode, shape)] = br.get('%s/%s' % (mode, shape), 0) + 1
                msgs = []
                fd = G.first_diff(got, ref)
                if fd:
                    msgs.append('profile after step %d differs from the sequence nobody looked at: %s vs %s'
                                % (fd[0] + 1, [float(x) for x in (fd[1] or [])[:4]], [float(x) for x in (fd[2] or [])[:4]]))
                prev = [_conv(mode)(x) for x in base['t']]
                for i, (cs, r) in enumerate(zip(steps, got)):
                    m = balance_msg(cs, prev, r, tol)
                    if m and not msgs[1:]:
                        msgs.append('step %d of the observed sequence: %s' % (i + 1, m))
                    prev = r
                if shape in ('steady', 'uniform') and mode == 'exact' and got[-1] != list(base['t']):
                    msgs.append('%s profile moved by %.3g K over the sequence step, look, step' % (
                        shape, max(abs(float(a - b)) for a, b in zip(got[-1], base['t']))))
                if msgs:
                    nbad += 1
                    if nbad <= 3:
                        chk.violation('impl-violation', 'somebody looks at the element between two steps (%s; %s arithmetic)'
                                      % (lname, mode), case=dict(case_json(base), profile=shape, observer=lname,
                                                                 steps=[case_json({k: c[k] for k in ('dt', 'bc', 'flx1', 'v2')})
                                                                        for c in steps]),
                                      observed=' | '.join(msgs[:3]),
                                      expected='rendering an element is not a step: same profiles as the unobserved sequence, '
                                               'energy balance at every step, steady / uniform profile fixed')
    chk.direct('observers-between-steps(Conduction sequences)', ncase, ncase,
               'circumstances [1][2] - who looks, logging level: sequences of 2-4 REAL Conduction steps on one element '
               '(exact and float) with the element rendered after construction, between all steps and at the end by '
               'repr / str / %r / print / every renderer of every reachable object (ToString, to_dict, copies, vars) / a '
               'DEBUG log line with the element as lazy argument under a formatting handler / to_dict+json / copies; '
               'profiles warm outside (descending with depth), cold outside, alternating, isothermal, steady with a '
               'constant flux, random; 2..14 layers. Oracle: profiles identical to the sequence nobody looked at, energy '
               'balance of every step against the caller\'s record of the previous profile, steady / uniform fixed',
               mismatches=nbad, branches=br)

    # ---- [5] other elements in the process: interleaved sequences, class-level data
    nbad, ncase = 0, 0
    for mode, impl in impls:
        for _ in range(6 if not big else 40):
            (b1, s1), (b2, s2) = shaped_sequence(rng, 'random'), shaped_sequence(rng, 'descending')
            r1, _ = run_sequence(impl, mode, b1, s1)
            r2, _ = run_sequence(impl, mode, b2, s2)
            conv = _conv(mode)
            e1, e2 = build_element(impl, b1, conv), build_element(impl, b2, conv)
            o1, o2 = [], []
            for i in range(max(len(s1), len(s2))):
                if i < len(s1):
                    e1.layerTemp = call_cond(e1, s1[i], conv); o1.append(list(e1.layerTemp))
                if i < len(s2):
                    e2.layerTemp = call_cond(e2, s2[i], conv); o2.append(list(e2.layerTemp))
            ncase += 1
            if o1 != r1 or o2 != r2:
                nbad += 1
                if nbad <= 2:
                    chk.violation('impl-violation', 'two elements stepped alternately differ from each stepped alone (%s)' % mode,
                                  case={'a': case_json(b1), 'b': case_json(b2)}, observed='interleaved results differ',
                                  expected='an element\'s step depends on that element only')
    changed = []
    if U3.class_digest('uwgfrac')[0] != dg_frac0:
        changed.append('fractionised package')
    if U3.class_digest('uwg')[0] != dg_plain0:
        changed.append('plain package')
    if changed:
        nbad += 1
        chk.violation('impl-violation', 'class-level data changed by kernel operations', case={'packages': changed},
                      observed='class-level / module-level data of %s differ after constructing, stepping and rendering '
                               'elements' % ', '.join(changed), expected='constants')
    chk.direct('other-elements-in-the-process(interleaved sequences, class-level data)', ncase + 2, ncase,
               'circumstance [5]: two elements stepped alternately equal each stepped alone (exact and float); the digest '
               'of every class-level / module-level object of the package is the same before and after all kernel '
               'scenarios of this check', mismatches=nbad)

    # ---- [4] the dictionary / JSON route of an Element
    base_cs = gen_case(rng, kind='random', n=4)
    base_cs.update(d=[F(1, 40), F(1, 20), F(1), F(2)], t=[F(305), F(301), F(296), F(294)])
    el0 = build_element(plain, base_cs, float)
    el0.vegcoverage, el0.t_init = 0.25, 293.0
    base_d = json.loads(json.dumps(el0.to_dict()))

    def behave(el):
        el.layerTemp = [305.0, 301.0, 296.0, 294.0]
        return [list(el.Conduction(300., 85., 1, 0., -12.5)), list(el.Conduction(900., 20., 2, 288., 0.))]
    probs, br = U3.dict_route_problems(plain.element.Element, base_d, rng, behave)
    for label, d, obs, exp in probs[:3]:
        chk.violation('impl-violation', 'Element dictionary route: ' + label, case={'element_dictionary': d, 'member': label},
                      observed=obs, expected=exp)
    chk.direct('element-dictionary-route(hand-edited Element dictionaries)', sum(br.values()), sum(br.values()),
               'circumstance [4] - the route: Element.from_dict on the JSON of to_dict() and on hand-edited variants: '
               'every key absent / null, extra keys, every numeric key as int / float / numeric text, thickness and '
               'material numbers as ints / text, the orientation flag written as bool / int / float / text (19 '
               'spellings). Verdict = the one of the unchanged tree; an accepted dictionary gives the element of the '
               'constructor route (attributes, two Conduction steps bit for bit) with the orientation the flag means; the '
               'result does not depend on which Element dictionary was parsed before (a contrasting one is parsed in '
               'between); the caller\'s dictionary and class-level data are left alone',
               mismatches=len(probs), branches=br)

    # ---- [3] python -O at kernel level
    probs, nk = U3.kernel_verdict_problems(chk, 'C11')
    for lab, obs, exp in probs[:2]:
        chk.violation('impl-violation', 'kernel call under python -O / verdict of a refusal: ' + lab, case={'call': lab},
                      observed=obs, expected=exp)
    chk.direct('kernel-calls-under-python-O(Conduction, SurfFlux, Element.from_dict)', nk, nk,
               'circumstance [3]: ordinary Conduction / SurfFlux / from_dict calls and every refusal the unchanged tree '
               'expresses without `assert` (boundary kind 3 and 1.5, one layer, dt 0, reference temperature 0, missing '
               'orientation key, orientation "false") in this process and in a fresh interpreter under python -O: '
               'identical outcomes bit for bit, each refusal of the class the unchanged tree raises', mismatches=len(probs))

    # ---- [1]-[6] on a compact live run
    data = U3.default_data(month=rng.choice([1, 4, 7, 10]), day=rng.randint(1, 28))
    nb = U3.planted_wall_data(month=rng.choice([2, 6, 11]))
    res, probs = U3.live_circumstances(chk, data, UU.rp(UU.EPW_SGP), ('conduction',), 'live11',
                                       neighbour=(nb, UU.rp(UU.EPW_SGP)))
    for circ, obs, exp in probs[:3]:
        chk.violation('impl-violation', 'live run under a circumstance that must not matter: ' + circ,
                      case={'month': data['month'], 'day': data['day'], 'nday': 1, 'dtsim': 300, 'circumstance': circ,
                            'epw': UU.EPW_SGP}, observed=obs, expected=exp)
    calls = res['plain']['monitors']['conduction']['counts']
    chk.direct('live-run-under-circumstances(Conduction monitor)', calls.get('calls', 0), len(res),
               'a 1-day run (Singapore, dtsim 300, dictionary route) with EVERY Element.Conduction call monitored (pure: '
               'the list passed in and every other attribute unchanged; result a new list; stored-heat change = dt x heat '
               'supplied to 1e-9 for both boundary kinds), repeated [1] with the whole model rendered after '
               'construction / generate() / every 41st step / at the end, [2] under DEBUG logging, [3] under python -O, '
               '[4] through `python -m uwg simulate model` (real subprocess, and executed inside a monitored child), [5] '
               'with another model generated and simulated between generate() and simulate(), [6] caller\'s dictionary '
               'compared before / after: records, written file and verdict equal the plain run, the monitor holds '
               'everywhere', mismatches=len(probs), branches={k: 1 for k in res})



def run(chk):
    chk.proof(MODULE, THEOREMS, extra_modules=[SURF_MODULE])
    if chk.tier == 'thorough':
        chk.leanchecker([MODULE, SURF_MODULE])
    pkg = fracexec.load()
    n = 300 if chk.tier == 'quick' else 3000
    cases = [gen_case(chk.rng, n=nn) for nn in range(2, 41) for _ in (0, 1)]  # every layer count 2..40
    cases += [gen_case(chk.rng) for _ in range(n)]
    cases += [gen_case(chk.rng, n=1)]                      # IndexError branch
    results = [impl_conduction(pkg, cs) for cs in cases]
    pairs = [(line_of(cs), r if isinstance(r, str) else 'ok ' + frac_list(r))
             for cs, r in zip(cases, results)]
    mism = chk.correspond(
        'Element.Conduction~conduction', 'C11', pairs,
        rule='fractionised Element.Conduction vs Lean `conduction` on layerings with 2..40 layers '
             '(every count at least twice), both boundary kinds, random/uniform/steady profiles; '
             'exact equality of the rational temperature vector; non-trivial = non-error result',
        classify=lambda line, impl: line.split(' bc=')[1].split(' ')[0])
    # the property's own oracle on the implementation (always evaluated: cheap, and it is what
    # turns a broken correspondence into a concrete failing input)
    bad = 0
    for cs, r in zip(cases, results):
        if isinstance(r, str):
            continue
        msg = oracle(cs, r)
        if msg:
            bad += 1
            if bad <= 3:
                chk.violation('impl-violation', 'energy oracle on Element.Conduction',
                              case=case_json(cs), observed=msg,
                              expected='exact energy balance / fixed point')
    chk.direct('energy-oracle(Element.Conduction)', len(cases), len(cases) - 1,
               'C11 statement evaluated on the exact result of the real Conduction for every '
               'generated case', mismatches=bad,
               branches={k: sum(1 for c in cases if c['kind'] == k)
                         for k in ('random', 'uniform', 'steady')})
    # sequences of steps on ONE Element object (timestep, fluxes and boundary kind vary from step to
    # step, as SurfFlux drives it): every step must equal the model on the current temperatures and
    # the energy oracle must hold step by step (state carried inside the object would show here)
    nseq = 25 if chk.tier == 'quick' else 250
    seq_pairs, seq_bad, nst = [], 0, 0
    Element, Material = pkg.element.Element, pkg.material.Material
    for _ in range(nseq):
        base = gen_case(chk.rng, kind='random')
        mats = [Material(k, c, 'm') for k, c in zip(base['k'], base['c'])]
        el = Element(F(1, 10), F(9, 10), list(base['d']), mats, F(0), F(293), 1, 'e')
        el.layerTemp = list(base['t'])
        for step in range(chk.rng.randint(2, 5)):
            cs = dict(base)
            cs['t'] = list(el.layerTemp)
            cs['dt'] = F(chk.rng.choice([1, 60, 300, 600, 900, 3600]))
            cs['bc'] = chk.rng.choice(['flux', 'deep'])
            cs['flx1'] = rq(chk.rng, -500, 900, 10)
            cs['v2'] = rq(chk.rng, -300, 300, 10) if cs['bc'] == 'flux' else rq(chk.rng, 270, 300, 10)
            if step == 2:   # materials may change between steps too
                j = chk.rng.randrange(len(cs['d']))
                cs['k'] = list(cs['k']); cs['k'][j] = cs['k'][j] * 2
                el.layerThermalCond = list(cs['k'])
                base = cs
            bc = 1 if cs['bc'] == 'flux' else 2
            xs = el.Conduction(cs['dt'], cs['flx1'], bc, cs['v2'] if bc == 2 else F(0),
                               cs['v2'] if bc == 1 else F(0))
            el.layerTemp = xs
            nst += 1
            seq_pairs.append((line_of(cs), 'ok ' + frac_list(xs)))
            msg = oracle(cs, xs)
            if msg:
                seq_bad += 1
                if seq_bad <= 2:
                    chk.violation('impl-violation', 'energy oracle on a sequence of steps on one Element (step %d)' % step,
                                  case=case_json(cs), observed=msg, expected='exact energy balance at every step')
    chk.correspond('Element.Conduction(sequence on one object)~conduction', 'C11', seq_pairs,
                   rule='2-5 successive Conduction calls on the SAME Element object with varying timestep, fluxes, '
                        'boundary kind (and once a changed conductivity), temperatures fed back as SurfFlux does; each '
                        'step compared with the stateless Lean model and with the energy oracle',
                   classify=lambda line, impl: line.split(' bc=')[1].split(' ')[0])
    chk.direct('energy-oracle(sequence on one object)', nst, nst, 'C11 statement at every step of every sequence',
               mismatches=seq_bad)
    run_surfflux(chk, pkg)
    run_circumstances(chk, pkg)
    chk.assumptions.append('Element.Conduction is exercised through fracexec (exact rationals); '
                           'double rounding is outside the theorem')
